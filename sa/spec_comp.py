"""Reference texts for the TOML loaders of components.py (C13).  PARSED, NEVER EXECUTED (see sa/refcmp.py).
The helper getters are written out, so that the code under test may use them, inline them or restructure them."""


def from_file(cls, name, fname):
    with open(fname, "r") as f:
        config = toml.load(f)
    fparams = {}
    for key in cls._cparams["params"]:
        if key in config[cls._cparams["name"]]:
            pval = config[cls._cparams["name"]][key]
        elif cls._cparams["params"][key]["opt"]:
            pval = cls._cparams["params"][key]["def"]
        else:
            raise KeyError("Parameter dict is missing entry for '{}'".format(key))
        # exact type for scalars (a bool is no number), but any dict for a table: the parser returns a dict subclass for an inline table
        if type(pval) not in cls._cparams["params"][key]["typ"] and not (dict in cls._cparams["params"][key]["typ"] and isinstance(pval, dict)):
            raise ValueError("Parameter {} is not of the correct type".format(key))
        fparams[key] = pval
    if "limits" in config:
        fparams["limits"] = config["limits"]
    else:
        fparams["limits"] = LIMITS_DEFAULT
    return cls(name, **fparams)


def linreg_from_file(cls, name, fname):
    with open(fname, "r") as f:
        config = toml.load(f)
    if "vo" in config["linreg"]:
        v = config["linreg"]["vo"]
    else:
        raise KeyError("Parameter dict is missing entry for '{}'".format("vo"))
    vd = config["linreg"]["vdrop"] if "vdrop" in config["linreg"] else VDROP_DEFAULT
    iq = config["linreg"]["iq"] if "iq" in config["linreg"] else IQ_DEFAULT
    if iq != 0.0:
        warn("The iq parameter is deprecated, and will be removed in a future version.", DeprecationWarning, stacklevel=2)
        ig = iq
        if isinstance(ig, dict):
            ig["ig"] = ig.pop("iq")
    else:
        ig = config["linreg"]["ig"] if "ig" in config["linreg"] else IG_DEFAULT
    lim = config["limits"] if "limits" in config else LIMITS_DEFAULT
    iis = config["linreg"]["iis"] if "iis" in config["linreg"] else IIS_DEFAULT
    rt = config["linreg"]["rt"] if "rt" in config["linreg"] else RT_DEFAULT
    return cls(name, vo=v, vdrop=vd, ig=ig, limits=lim, iis=iis, rt=rt)
