"""Canonical form of a changed tree relative to the frozen inventory of the tree the rules were written against.

The rules name private helpers, attributes and module constants of geddy11/sysloss (`_child_curr`, `_phase_lkup`, `_get_eff`, ...).
Ordinary maintenance commits rename such names, pull a block out into a new helper, give a repeated literal a name, add logging
or an assertion.  None of that changes what the code does, and none of it may change a verdict.  Instead of teaching every rule
every spelling, the parsed tree is first brought back to the vocabulary of the inventory (sa/inventory.json, generated from the
clean tree by tools/gen_inventory.py):

  1. diagnostics: calls on a module-level logger whose arguments cannot have effects are dropped; so is `assert c` with an effect-free
     test (a stated belief, absent under -O; whether it can fail is not decided); annotated assignments are plain assignments;
  2. names the inventory does not know and that are bound once, at module level, to a literal are written out where they are used;
  3. a function / method the inventory knows and the tree lacks is matched with a function the inventory does not know by the
     similarity of their bodies (identifiers that changed are masked); a unique, mutual, strong match is a rename and is undone;
     likewise for attributes of `self` (by where they are used) - and only then;
  4. functions the inventory does not know are inlined into the inventory functions that call them, statement by statement,
     when the call is a whole statement (`h(..)`, `x = h(..)`, `x += h(..)`, `return h(..)`) or the helper is a single returned
     expression; what cannot be inlined stays as it is (the rules then see an unknown call: an analysis error at worst).

On a tree whose names all match the inventory nothing is done, so the unchanged tree is analysed exactly as written.
Nothing here decides a property: the passes only rewrite, and every rule still judges the rewritten code."""
import ast
import copy
import difflib
import json
import os

VERIF = os.path.dirname(os.path.dirname(os.path.abspath(__file__)))
_INV = None
_SINGLETONS = (ast.expr_context, ast.operator, ast.cmpop, ast.boolop, ast.unaryop)


def _clone(node):
    """structural copy of an AST.  Not copy.deepcopy: the interpreter shares one object per context / operator kind (ast.Load() ...)
    between all trees of the process, and the model hangs back links (_parent) on nodes - a deep copy would follow them into whole trees"""
    if isinstance(node, list):
        return [_clone(x) for x in node]
    if not isinstance(node, ast.AST):
        return node
    if isinstance(node, _SINGLETONS):
        return node
    new = type(node)()
    for fld, val in ast.iter_fields(node):
        setattr(new, fld, _clone(val))
    for a in ("lineno", "col_offset", "end_lineno", "end_col_offset", "_inl"):
        if hasattr(node, a):
            setattr(new, a, getattr(node, a))
    return new


def inventory():
    global _INV
    if _INV is None:
        p = os.path.join(VERIF, "sa", "inventory.json")
        try:
            with open(p) as f:
                _INV = json.load(f)
        except (OSError, ValueError):
            _INV = {}
    return _INV


# ------------------------------------------------------------------------------------------------ inventory
def scopes(tree):
    """(scope name, body owner, FunctionDef) for module-level functions ('') and class methods (class name)"""
    for n in tree.body:
        if isinstance(n, ast.FunctionDef):
            yield "", tree, n
        elif isinstance(n, ast.ClassDef):
            for m in n.body:
                if isinstance(m, ast.FunctionDef):
                    yield n.name, n, m


def tokens(fn):
    """structural token sequence of a function body: node kinds, attribute names, global names, constants; locals masked"""
    local = {a.arg for a in fn.args.posonlyargs + fn.args.args + fn.args.kwonlyargs}
    for x in ast.walk(fn):
        if isinstance(x, ast.Name) and isinstance(x.ctx, ast.Store):
            local.add(x.id)
    out = []

    def rec(n):
        if isinstance(n, ast.Expr) and isinstance(n.value, ast.Constant) and isinstance(n.value.value, str):
            return      # docstring
        if isinstance(n, ast.Name):
            out.append("L" if n.id in local else "N:" + n.id)
            return
        if isinstance(n, ast.Attribute):
            rec(n.value)
            out.append("A:" + n.attr)
            return
        if isinstance(n, ast.Constant):
            out.append("C:" + repr(n.value)[:24])
            return
        if isinstance(n, ast.arguments):
            out.append("args%d" % len(n.args))
            return
        if isinstance(n, (ast.expr_context, ast.operator, ast.cmpop, ast.boolop, ast.unaryop)):
            out.append(type(n).__name__)
            return
        out.append(type(n).__name__)
        for f, v in ast.iter_fields(n):
            if f in ("returns", "annotation", "type_comment", "decorator_list"):
                continue
            if isinstance(v, list):
                for y in v:
                    if isinstance(y, ast.AST):
                        rec(y)
            elif isinstance(v, ast.AST):
                rec(v)
    for s in fn.body:
        rec(s)
    return out


def attr_profile(cls):
    """attribute of self -> {method: occurrences}"""
    prof = {}
    for m in cls.body:
        if not isinstance(m, ast.FunctionDef):
            continue
        for x in ast.walk(m):
            if isinstance(x, ast.Attribute) and isinstance(x.value, ast.Name) and x.value.id == "self":
                prof.setdefault(x.attr, {}).setdefault(m.name, 0)
                prof[x.attr][m.name] += 1
    return prof


def attr_order(cls):
    """attributes of self in the order of their first store (source order)"""
    st = [x for x in ast.walk(cls) if isinstance(x, ast.Attribute) and isinstance(x.value, ast.Name) and x.value.id == "self" and isinstance(x.ctx, ast.Store)]
    st.sort(key=lambda x: (x.lineno, x.col_offset))
    out = []
    for x in st:
        if x.attr not in out:
            out.append(x.attr)
    return out


def module_names(tree):
    out = []
    for n in tree.body:
        if isinstance(n, ast.Assign):
            out += [t.id for t in n.targets if isinstance(t, ast.Name)]
        elif isinstance(n, ast.AnnAssign) and isinstance(n.target, ast.Name):
            out.append(n.target.id)
        elif isinstance(n, (ast.FunctionDef, ast.ClassDef)):
            out.append(n.name)
    return out


def local_bindings(fn):
    """local -> the value of its first plain binding, with local names masked (a renamed local keeps its binding)"""
    local = _bound_names(fn)
    out = {}

    def masked(e):
        e = _clone(e)
        for y in ast.walk(e):
            if isinstance(y, ast.Name) and y.id in local:
                y.id = "L"
        return ast.dump(e)
    for x in ast.walk(fn):
        if isinstance(x, ast.Assign) and len(x.targets) == 1 and isinstance(x.targets[0], ast.Name) and x.targets[0].id not in out:
            out[x.targets[0].id] = masked(x.value)
        elif isinstance(x, ast.Assign) and len(x.targets) == 1 and isinstance(x.targets[0], ast.Tuple):
            for k, e in enumerate(x.targets[0].elts):
                if isinstance(e, ast.Name) and e.id not in out:
                    out[e.id] = "tuple%d:" % k + masked(x.value)
        elif isinstance(x, ast.For) and isinstance(x.target, ast.Name) and x.target.id not in out:
            out[x.target.id] = "for:" + masked(x.iter)
        elif isinstance(x, ast.For) and isinstance(x.target, ast.Tuple):
            for k, e in enumerate(x.target.elts):
                if isinstance(e, ast.Name) and e.id not in out:
                    out[e.id] = "for%d:" % k + masked(x.iter)
        elif isinstance(x, ast.comprehension) and isinstance(x.target, ast.Name) and x.target.id not in out:
            out[x.target.id] = "comp:" + masked(x.iter)
    return out


def genuinely_new_locals(fn, mod, q, inv):
    """locals the inventory's version lacks, minus those that are an old local under a new name (same binding, old name gone)"""
    known = inv.get("locals", {}).get(mod, {}).get(q)
    if known is None:
        return None
    now = _bound_names(fn)
    new = now - set(known)
    missing = set(known) - now
    if new and missing:
        old = inv.get("bindings", {}).get(mod, {}).get(q, {})
        cur = local_bindings(fn)
        gone = {old[m] for m in missing if m in old}
        new = {n for n in new if cur.get(n) not in gone}
    return new


def registry_profile(trees):
    """string key k in `<x>.attrs[k]` -> {function: occurrences} (the graph's registries: nodes, rails, pnames, ...)"""
    prof = {}
    for mod, t in trees.items():
        for scope, owner, fn in scopes(t):
            q = (scope + "." if scope else "") + fn.name
            for x in ast.walk(fn):
                if isinstance(x, ast.Subscript) and isinstance(x.value, ast.Attribute) and x.value.attr == "attrs" and isinstance(x.slice, ast.Constant) \
                        and isinstance(x.slice.value, str):
                    prof.setdefault(x.slice.value, {}).setdefault(q, 0)
                    prof[x.slice.value][q] += 1
    return prof


def rename_registry_keys(trees, inv):
    want = inv.get("registries", {})
    have = registry_profile(trees)
    missing = [k for k in want if k not in have]
    new = [k for k in have if k not in want]
    if not missing or not new:
        return {}

    def sim(p, q):
        ks = set(p) | set(q)
        inter = sum(min(p.get(k, 0), q.get(k, 0)) for k in ks)
        union = sum(max(p.get(k, 0), q.get(k, 0)) for k in ks)
        return inter / union if union else 0.0
    ren = {}
    for m in missing:
        row = sorted(((sim(want[m], have[n]), n) for n in new), reverse=True)
        best, n = row[0]
        second = row[1][0] if len(row) > 1 else 0.0
        back = sorted((sim(want[m2], have[n]) for m2 in missing), reverse=True)
        if best >= 0.7 and best - second >= 0.2 and back[0] == best:
            ren[n] = m
    if ren:
        for mod, t in trees.items():
            for x in ast.walk(t):
                if isinstance(x, ast.Subscript) and isinstance(x.value, ast.Attribute) and x.value.attr == "attrs" and isinstance(x.slice, ast.Constant) \
                        and x.slice.value in ren:
                    x.slice = ast.copy_location(ast.Constant(value=ren[x.slice.value]), x.slice)
    return ren


def callers_of(trees):
    """called name -> sorted list of the (scope-qualified) functions whose body calls it, package-wide (by name: f(..) or x.f(..))"""
    out = {}
    for mod, t in trees.items():
        for scope, owner, fn in scopes(t):
            q = (scope + "." if scope else "") + fn.name
            for c in ast.walk(fn):
                if isinstance(c, ast.Call):
                    nm = c.func.attr if isinstance(c.func, ast.Attribute) else (c.func.id if isinstance(c.func, ast.Name) else None)
                    if nm:
                        out.setdefault(nm, set()).add(q)
    return {k: sorted(v) for k, v in out.items()}


def build_inventory(trees):
    inv = {"functions": {}, "attrs": {}, "names": {}, "methods_of": {}, "locals": {}, "params": {}, "bindings": {}, "callers": callers_of(trees), "registries": registry_profile(trees)}
    for mod, t in trees.items():
        inv["functions"][mod] = {}
        inv["names"][mod] = module_names(t)
        for scope, owner, fn in scopes(t):
            q = (scope + "." if scope else "") + fn.name
            inv["functions"][mod][q] = tokens(fn)
            inv["locals"].setdefault(mod, {})[q] = sorted(_bound_names(fn))
            inv["params"].setdefault(mod, {})[q] = [a.arg for a in fn.args.posonlyargs + fn.args.args + fn.args.kwonlyargs]
            inv["bindings"].setdefault(mod, {})[q] = local_bindings(fn)
        for n in t.body:
            if isinstance(n, ast.ClassDef):
                inv["attrs"][n.name] = attr_profile(n)
                inv.setdefault("attr_order", {})[n.name] = attr_order(n)
                inv["methods_of"][n.name] = [m.name for m in n.body if isinstance(m, ast.FunctionDef)]
    return inv


# ------------------------------------------------------------------------------------------------ pass 1: diagnostics
PURE_CALLS = {"len", "str", "repr", "list", "tuple", "sorted", "type", "int", "float", "abs", "sum", "min", "max", "dict", "set", "round", "format", "bool", "id", "getattr", "hasattr", "isinstance"}


def _effect_free(e):
    for x in ast.walk(e):
        if isinstance(x, (ast.Await, ast.Yield, ast.YieldFrom, ast.NamedExpr, ast.Lambda)):
            return False
        if isinstance(x, ast.Call):
            f = x.func
            if isinstance(f, ast.Name) and f.id in PURE_CALLS:
                continue
            if isinstance(f, ast.Attribute) and f.attr in ("format", "join", "keys", "values", "items", "get", "tolist", "name") and not isinstance(f.value, ast.Call):
                continue
            return False
    return True


def logger_names(tree):
    out = set()
    for n in tree.body:
        if isinstance(n, ast.Assign) and len(n.targets) == 1 and isinstance(n.targets[0], ast.Name) and isinstance(n.value, ast.Call) \
                and isinstance(n.value.func, ast.Attribute) and n.value.func.attr == "getLogger":
            out.add(n.targets[0].id)
    return out


LOG_METHODS = {"debug", "info", "warning", "error", "critical", "log", "exception"}


def strip_diagnostics(tree):
    logs = logger_names(tree)

    def is_log(st):
        if not (isinstance(st, ast.Expr) and isinstance(st.value, ast.Call) and isinstance(st.value.func, ast.Attribute)):
            return False
        f = st.value.func
        if f.attr not in LOG_METHODS:
            return False
        recv = f.value
        known = (isinstance(recv, ast.Name) and (recv.id in logs or recv.id == "logging")) or \
            (isinstance(recv, ast.Call) and isinstance(recv.func, ast.Attribute) and recv.func.attr == "getLogger")
        return known and all(_effect_free(a) for a in st.value.args) and all(_effect_free(k.value) for k in st.value.keywords)

    def fix(block):
        out = []
        for st in block:
            if is_log(st):
                continue
            if isinstance(st, ast.If) and isinstance(st.test, ast.Call) and isinstance(st.test.func, ast.Attribute) and st.test.func.attr == "isEnabledFor" \
                    and all(is_log(b) for b in st.body) and not st.orelse:
                continue
            if isinstance(st, ast.Assert) and _effect_free(st.test):
                # an assertion is a comment the interpreter may check (and does not under -O): it states a belief about what cannot
                # happen, it is not behaviour.  Whether the belief is right is not decided here.
                continue
            if isinstance(st, ast.AnnAssign) and st.value is not None and st.simple:
                new = ast.Assign(targets=[st.target], value=st.value)
                out.append(ast.copy_location(new, st))
                continue
            out.append(st)
        return out
    for owner in ast.walk(tree):
        for fld in ("body", "orelse", "finalbody"):
            blk = getattr(owner, fld, None)
            if isinstance(blk, list) and blk and isinstance(blk[0], ast.stmt):
                nb = fix(blk)
                if len(nb) != len(blk) or any(a is not b for a, b in zip(nb, blk)):
                    blk[:] = nb or [ast.copy_location(ast.Pass(), blk[0])]
    # a loop's `else:` that held nothing but logging is no `else:` at all
    for owner in ast.walk(tree):
        if isinstance(owner, (ast.While, ast.For)) and len(owner.orelse) == 1 and isinstance(owner.orelse[0], ast.Pass):
            owner.orelse = []


# ------------------------------------------------------------------------------------------------ pass 2: new literal constants
def _literal(v):
    if isinstance(v, ast.Constant) and isinstance(v.value, (int, float, str, bool)) or (isinstance(v, ast.Constant) and v.value is None):
        return True
    if isinstance(v, ast.UnaryOp) and isinstance(v.op, ast.USub) and isinstance(v.operand, ast.Constant) and isinstance(v.operand.value, (int, float)):
        return True
    # an immutable tuple of literals / enum members (`(_ComponentTypes.SOURCE, _ComponentTypes.SLOSS)`)
    if isinstance(v, ast.Tuple) and v.elts and all(_literal(e) or _dotted(e) for e in v.elts):
        return True
    return False


def _pure_library_value(v):
    """np.array(mpl.colors.to_rgb(_COLD_RGB)): a call of a dotted library function on literals / module names / such calls"""
    if _literal(v) or _dotted(v):
        return True
    if isinstance(v, ast.Call) and isinstance(v.func, ast.Attribute) and _dotted(v.func) and not v.keywords:
        return all(_pure_library_value(a) for a in v.args)
    return False


def _dotted(e):
    while isinstance(e, ast.Attribute):
        e = e.value
    return isinstance(e, ast.Name)


def propagate_new_constants(trees, inv):
    known = set()
    for mod, names in inv.get("names", {}).items():
        known |= set(names)
    cand = {}
    for mod, t in trees.items():
        for n in t.body:
            if isinstance(n, ast.Assign) and len(n.targets) == 1 and isinstance(n.targets[0], ast.Name) and (_literal(n.value) or (
                    isinstance(n.value, ast.Call) and _pure_library_value(n.value))):
                nm = n.targets[0].id
                if nm in known or nm.startswith("__"):
                    continue
                cand.setdefault(nm, []).append((mod, n))
    # bound exactly once in the whole package, never stored to elsewhere, never shadowed by a parameter / local
    good = {}
    for nm, defs in cand.items():
        if len(defs) != 1:
            continue
        stores = 0
        for mod, t in trees.items():
            for x in ast.walk(t):
                if isinstance(x, ast.Name) and x.id == nm and isinstance(x.ctx, (ast.Store, ast.Del)):
                    stores += 1
                elif isinstance(x, ast.arg) and x.arg == nm:
                    stores += 5
                elif isinstance(x, (ast.Global, ast.Nonlocal)) and nm in x.names:
                    stores += 5
                elif isinstance(x, (ast.Subscript, ast.Attribute)) and isinstance(x.ctx, (ast.Store, ast.Del)) and isinstance(x.value, ast.Name) and x.value.id == nm:
                    stores += 5      # stored into: not a constant
                elif isinstance(x, ast.Call) and isinstance(x.func, ast.Attribute) and isinstance(x.func.value, ast.Name) and x.func.value.id == nm \
                        and x.func.attr in ("append", "extend", "update", "pop", "clear", "remove", "insert", "setdefault", "sort", "reverse", "fill", "put", "resize"):
                    stores += 5      # mutated in place
        if stores == 1:
            good[nm] = defs[0][1].value
    # class-level constants (`_REGISTRIES = ("nodes", ..)` in a class body, read as self._REGISTRIES): same, for attribute names the
    # inventory's code never uses, bound once, never stored to or mutated through any receiver
    vocab = {tk[2:] for m in inv.get("functions", {}).values() for toks in m.values() for tk in toks if tk.startswith("A:")}
    vocab |= {a for c in inv.get("attrs", {}).values() for a in c}
    cgood = {}
    for mod, t in trees.items():
        for c in t.body:
            if isinstance(c, ast.ClassDef):
                for n in c.body:
                    if isinstance(n, ast.Assign) and len(n.targets) == 1 and isinstance(n.targets[0], ast.Name) and _literal(n.value):
                        nm = n.targets[0].id
                        if nm in vocab or nm in known or nm.startswith("__"):
                            continue
                        cgood.setdefault(nm, []).append(n.value)
    for nm in list(cgood):
        bad = len(cgood[nm]) != 1
        for mod, t in trees.items():
            for x in ast.walk(t):
                if isinstance(x, ast.Attribute) and x.attr == nm and isinstance(x.ctx, (ast.Store, ast.Del)):
                    bad = True
                elif isinstance(x, (ast.Subscript, ast.Attribute)) and isinstance(x.ctx, (ast.Store, ast.Del)) and isinstance(x.value, ast.Attribute) and x.value.attr == nm:
                    bad = True
                elif isinstance(x, ast.Call) and isinstance(x.func, ast.Attribute) and isinstance(x.func.value, ast.Attribute) and x.func.value.attr == nm \
                        and x.func.attr in ("append", "extend", "update", "pop", "clear", "remove", "insert", "setdefault", "sort", "reverse"):
                    bad = True
                elif isinstance(x, ast.Call) and isinstance(x.func, ast.Name) and x.func.id in ("setattr", "delattr"):
                    bad = True
        if bad:
            del cgood[nm]
    if not good and not cgood:
        return

    class T(ast.NodeTransformer):
        def visit_Name(self, n):
            if isinstance(n.ctx, ast.Load) and n.id in good:
                return ast.copy_location(_clone(good[n.id]), n)
            return n

        def visit_Attribute(self, n):
            self.generic_visit(n)
            if isinstance(n.ctx, ast.Load) and n.attr in cgood and isinstance(n.value, ast.Name):
                return ast.copy_location(_clone(cgood[n.attr][0]), n)
            return n
    for mod, t in trees.items():
        T().visit(t)
        ast.fix_missing_locations(t)


# ------------------------------------------------------------------------------------------------ pass 3: renames
def _mask(toks, names):
    return ["A:?" if (x[:2] in ("A:", "N:") and x[2:] in names) else x for x in toks]


def _similar(a, b):
    if not a and not b:
        return 1.0
    return difflib.SequenceMatcher(None, a, b, autojunk=False).ratio()


def detect_function_renames(trees, inv):
    """-> {new name: inventory name} for functions and methods (scope by scope), and the set of names that are new"""
    ren = {}
    news = {}
    for mod, t in trees.items():
        have = {}
        for scope, owner, fn in scopes(t):
            have.setdefault(scope, {})[fn.name] = fn
        want = {}
        for q, toks in inv.get("functions", {}).get(mod, {}).items():
            scope, _, nm = q.rpartition(".")
            want.setdefault(scope, {})[nm] = toks
        for scope in set(have) | set(want):
            h, w = have.get(scope, {}), want.get(scope, {})
            missing = [n for n in w if n not in h]
            new = [n for n in h if n not in w]
            news.setdefault((mod, scope), set()).update(new)
            if not missing or not new:
                continue
            changed = set(missing) | set(new)
            # masked also: names that vanished / appeared in other scopes (a renamed helper is called from many places)
            score = {}
            for m in missing:
                mt = _mask(w[m], changed)
                for n in new:
                    score[(m, n)] = _similar(mt, _mask(tokens(h[n]), changed))
            matched_m, matched_n = set(), set()
            for m in missing:
                row = sorted(((score[(m, n)], n) for n in new), reverse=True)
                best, n = row[0]
                second = row[1][0] if len(row) > 1 else 0.0
                col = sorted((score[(m2, n)] for m2 in missing), reverse=True)
                if best >= 0.72 and best - second >= 0.08 and col[0] == best and (len(col) == 1 or col[0] - col[1] >= 0.08):
                    ren[(mod, scope, n)] = m
                    matched_m.add(m)
                    matched_n.add(n)
            # renamed *and* rewritten (a loop turned into a comprehension): the body no longer matches, but the function is still
            # called from exactly the places the missing one was called from - and from nowhere else
            now_callers = callers_of(trees)
            was_callers = inv.get("callers", {})
            for m in missing:
                if m in matched_m or not was_callers.get(m):
                    continue
                cands = [n for n in new if n not in matched_n and now_callers.get(n) and
                         {c.rpartition(".")[2] for c in now_callers[n]} - changed == {c.rpartition(".")[2] for c in was_callers[m]} - changed
                         and len(now_callers[n]) == len(was_callers[m]) and score[(m, n)] >= 0.3]
                others = [m2 for m2 in missing if m2 not in matched_m and m2 != m and was_callers.get(m2) == was_callers.get(m)]
                if len(cands) == 1 and not others:
                    ren[(mod, scope, cands[0])] = m
                    matched_m.add(m)
                    matched_n.add(cands[0])
    return ren, news


def detect_attr_renames(trees, inv):
    ren = {}
    for mod, t in trees.items():
        for c in t.body:
            if not isinstance(c, ast.ClassDef) or c.name not in inv.get("attrs", {}):
                continue
            want = inv["attrs"][c.name]
            have = attr_profile(c)
            methods = {m.name for m in c.body if isinstance(m, ast.FunctionDef)}
            # inherited attributes / methods are not "new"
            missing = [a for a in want if a not in have and a not in methods and a.startswith("_")]
            new = [a for a in have if a not in want and a not in methods and a.startswith("_")]
            if not missing or not new:
                continue

            def sim(p, q):
                ks = set(p) | set(q)
                inter = sum(min(p.get(k, 0), q.get(k, 0)) for k in ks)
                union = sum(max(p.get(k, 0), q.get(k, 0)) for k in ks)
                return inter / union if union else 0.0
            done_m, done_n = set(), set()
            for m in missing:
                row = sorted(((sim(want[m], have[n]), n) for n in new), reverse=True)
                best, n = row[0]
                second = row[1][0] if len(row) > 1 else 0.0
                back = sorted((sim(want[m2], have[n]) for m2 in missing), reverse=True)
                if best >= 0.6 and best - second >= 0.15 and back[0] == best:
                    ren[(c.name, n)] = m
                    done_m.add(m)
                    done_n.add(n)
            # attributes used in exactly the same places (x / fx of an interpolator) cannot be told apart by where they are used:
            # when as many are missing as are new and every pairing is a good match, they are paired in the order of their first store
            rest_m = [m for m in inv.get("attr_order", {}).get(c.name, []) if m in missing and m not in done_m]
            rest_n = [n for n in attr_order(c) if n in new and n not in done_n]
            if rest_m and len(rest_m) == len(rest_n) and len(rest_m) == len([m for m in missing if m not in done_m]) == len([n for n in new if n not in done_n]) \
                    and all(sim(want[m], have[n]) >= 0.6 for m, n in zip(rest_m, rest_n)):
                for m, n in zip(rest_m, rest_n):
                    ren[(c.name, n)] = m
    return ren


def apply_renames(trees, fren, aren):
    """identifiers are renamed package-wide: private helper names are unique in this package (checked: a new name that also
    occurs as something else is left alone)"""
    fmap = {}
    for (mod, scope, new), old in fren.items():
        if new in fmap and fmap[new] != old:
            fmap[new] = None
        else:
            fmap[new] = old
    amap = {}
    for (cls, new), old in aren.items():
        if new in amap and amap[new] != old:
            amap[new] = None
        else:
            amap[new] = old
    fmap = {k: v for k, v in fmap.items() if v}
    # the same new attribute name can stand for different old names in different classes (`_val` for `_fx` and for `_fxy`):
    # inside its class an attribute of self is renamed per class; through other receivers only when the name is unambiguous
    per_class = {}
    for (cls, new), old in aren.items():
        if new not in fmap:
            per_class.setdefault(cls, {})[new] = old
    amap = {k: v for k, v in amap.items() if v and k not in fmap}
    if not fmap and not amap and not per_class:
        return {}
    for mod, t in trees.items():
        for c in t.body:
            if isinstance(c, ast.ClassDef) and c.name in per_class:
                mp = per_class[c.name]
                for x in ast.walk(c):
                    if isinstance(x, ast.Attribute) and isinstance(x.value, ast.Name) and x.value.id == "self" and x.attr in mp:
                        x.attr = mp[x.attr]
    for mod, t in trees.items():
        for x in ast.walk(t):
            if isinstance(x, ast.FunctionDef) and x.name in fmap:
                x.name = fmap[x.name]
            elif isinstance(x, ast.Attribute):
                if x.attr in fmap:
                    x.attr = fmap[x.attr]
                elif x.attr in amap:
                    x.attr = amap[x.attr]
            elif isinstance(x, ast.Name) and x.id in fmap:
                x.id = fmap[x.id]
            elif isinstance(x, ast.alias) and x.name in fmap:
                x.name = fmap[x.name]
    out = dict(fmap)
    out.update(amap)
    for cls, mp in per_class.items():
        for n, o in mp.items():
            out.setdefault("%s.%s" % (cls, n), o)
    return out


# ------------------------------------------------------------------------------------------------ pass 4: inline new helpers
def _always_returns(stmts):
    if not stmts:
        return False
    last = stmts[-1]
    if isinstance(last, (ast.Return, ast.Raise)):
        return True
    if isinstance(last, ast.If):
        return _always_returns(last.body) and _always_returns(last.orelse)
    if isinstance(last, ast.With):
        return _always_returns(last.body)
    return False


def _returns_ok(body):
    """returns only in tail position of the if-tree (never inside a loop / try / with); -> (ok, has value returns)"""
    vals = []

    def tail(stmts):
        for i, s in enumerate(stmts):
            last = i == len(stmts) - 1
            if isinstance(s, ast.Return):
                if not last:
                    return False
                vals.append(s.value)
                continue
            if isinstance(s, ast.If):
                has = any(isinstance(y, ast.Return) for y in ast.walk(s))
                if has:
                    # everything after an if that may return is conditional on it: handled by continuation passing in conv()
                    if not tail(s.body) or not tail(s.orelse):
                        return False
                continue
            if isinstance(s, ast.With) and last and any(isinstance(y, ast.Return) for y in ast.walk(s)):
                # `with ..: ...; return e` as the last statement: the value is produced inside the block
                if not tail(s.body):
                    return False
                continue
            if any(isinstance(y, ast.Return) for y in ast.walk(s)):
                return False
        return True
    ok = tail(body)
    return ok, vals


def _pure_path(e):
    while isinstance(e, (ast.Attribute, ast.Subscript)):
        if isinstance(e, ast.Subscript) and not isinstance(e.slice, (ast.Constant, ast.Name)):
            return False
        e = e.value
    return isinstance(e, (ast.Name, ast.Constant))


def _bound_names(fn):
    out = {a.arg for a in fn.args.posonlyargs + fn.args.args + fn.args.kwonlyargs}
    if fn.args.vararg:
        out.add(fn.args.vararg.arg)
    if fn.args.kwarg:
        out.add(fn.args.kwarg.arg)
    for x in ast.walk(fn):
        if isinstance(x, ast.Name) and isinstance(x.ctx, (ast.Store, ast.Del)):
            out.add(x.id)
    return out


class _Inliner:
    def __init__(self, helper, kind):
        self.h, self.kind = helper, kind          # kind: 'func' | 'method' | 'static' | 'class'
        a = helper.args
        self.ok = not (a.vararg or a.kwarg or a.posonlyargs)
        body = [s for s in helper.body if not (isinstance(s, ast.Expr) and isinstance(s.value, ast.Constant) and isinstance(s.value.value, str))]
        self.body = body or [ast.Pass()]
        inner = [y for s in self.body for y in ast.walk(s)]
        if any(isinstance(y, (ast.FunctionDef, ast.AsyncFunctionDef, ast.Lambda, ast.Yield, ast.YieldFrom, ast.Global, ast.Nonlocal, ast.ClassDef)) for y in inner):
            self.ok = False
        if any(isinstance(y, ast.Name) and y.id == helper.name for y in inner) or any(isinstance(y, ast.Attribute) and y.attr == helper.name for y in inner):
            self.ok = False      # recursive
        rok, self.vals = _returns_ok(self.body)
        self.ok = self.ok and rok
        self.bare_return = any(v is None for v in self.vals)
        self.single_expr = len(self.body) == 1 and isinstance(self.body[0], ast.Return) and self.body[0].value is not None
        params = [x.arg for x in a.args] + [x.arg for x in a.kwonlyargs]
        self.skip = 1 if kind in ("method", "class") else 0
        self.recv = params[0] if self.skip and params else None
        self.params = params[self.skip:]
        npos = len(a.args) - self.skip
        self.npos = npos
        pos = [x.arg for x in a.args][self.skip:]
        self.defaults = dict(zip(pos[len(pos) - len(a.defaults):], a.defaults)) if a.defaults else {}
        for k, d in zip(a.kwonlyargs, a.kw_defaults):
            if d is not None:
                self.defaults[k.arg] = d
        self.stored = {x.id for x in inner if isinstance(x, ast.Name) and isinstance(x.ctx, (ast.Store, ast.Del))}
        self.locals = self.stored | set(self.params)

    def bind(self, call):
        if any(isinstance(x, ast.Starred) for x in call.args) or any(k.arg is None for k in call.keywords) or len(call.args) > self.npos:
            return None
        b = dict(zip(self.params, call.args))
        for k in call.keywords:
            if k.arg not in self.params or k.arg in b:
                return None
            b[k.arg] = k.value
        for q in self.params:
            if q not in b:
                if q in self.defaults:
                    b[q] = self.defaults[q]
                else:
                    return None
        return b

    def expand(self, st, call, recv_expr, caller_bound, counter):
        """statements replacing `st` (whose value is `call`), or None"""
        b = self.bind(call)
        if b is None:
            return None
        if isinstance(st, ast.Expr):
            emit = lambda ret: ([] if ret is None or _pure_path(ret) or isinstance(ret, ast.Constant) else [ast.copy_location(ast.Expr(value=ret), st)])
        elif isinstance(st, (ast.Assign, ast.AugAssign, ast.Return)):
            if self.bare_return or not self.vals:
                if not isinstance(st, ast.Return) or self.vals and not all(v is None for v in self.vals):
                    return None
            def emit(ret, st=st):
                if ret is None:
                    ret = ast.Constant(value=None)
                if isinstance(st, ast.Assign) and len(st.targets) == 1 and isinstance(st.targets[0], ast.Tuple) and isinstance(ret, ast.Tuple) \
                        and len(ret.elts) == len(st.targets[0].elts) and all(isinstance(t, ast.Name) for t in st.targets[0].elts) \
                        and not ({t.id for t in st.targets[0].elts} & {y.id for y in ast.walk(ret) if isinstance(y, ast.Name)}):
                    return [ast.copy_location(ast.Assign(targets=[_clone(t)], value=v), st) for t, v in zip(st.targets[0].elts, ret.elts)]
                st2 = copy.copy(st)
                st2.value = ret
                return [st2]
        else:
            return None
        # names: a helper local keeps its name unless the caller binds the same name (then it gets a suffix)
        targets = set()
        if isinstance(st, ast.Assign):
            targets = {y.id for t in st.targets for y in ast.walk(t) if isinstance(y, ast.Name)}
        ren = {}
        for nm in self.locals:
            if nm in caller_bound and nm not in targets:
                counter[0] += 1
                ren[nm] = "%s_%s%d" % (nm, self.h.name.strip("_"), counter[0])
            elif nm in caller_bound and nm in targets and nm in self.params:
                counter[0] += 1
                ren[nm] = "%s_%s%d" % (nm, self.h.name.strip("_"), counter[0])
        sub = {}
        pre = []
        for q in self.params:
            arg = b[q]
            if q not in self.stored and (_pure_path(arg) or isinstance(arg, ast.Constant)) and not (isinstance(arg, ast.Name) and arg.id in self.stored - {q}):
                sub[q] = arg
            else:
                pre.append(ast.copy_location(ast.Assign(targets=[ast.Name(id=ren.get(q, q), ctx=ast.Store())], value=_clone(arg)), st))
        recv = self.recv

        class R(ast.NodeTransformer):
            def visit_Name(self, n):
                if n.id in sub and isinstance(n.ctx, ast.Load):
                    return ast.copy_location(_clone(sub[n.id]), n)
                if recv is not None and n.id == recv and recv_expr is not None:
                    return ast.copy_location(_clone(recv_expr), n)
                if n.id in ren:
                    return ast.copy_location(ast.Name(id=ren[n.id], ctx=n.ctx), n)
                return n

        def R_(node):
            new = R().visit(_clone(node))
            for y in ast.walk(new):
                if hasattr(y, "lineno"):
                    y.lineno = st.lineno
                    y.end_lineno = getattr(st, "end_lineno", st.lineno)
            return new

        def conv(stmts, rest):
            out = []
            for i, s in enumerate(stmts):
                if isinstance(s, ast.Return):
                    return out + emit(R_(s.value) if s.value is not None else None)
                if isinstance(s, ast.If) and any(isinstance(y, ast.Return) for y in ast.walk(s)):
                    after = stmts[i + 1:] + rest
                    body = conv(s.body, [] if _always_returns(s.body) else after)
                    orelse = conv(s.orelse, [] if _always_returns(s.orelse) else after)
                    if not _always_returns(s.body) and not _always_returns(s.orelse):
                        # neither branch ends the helper: keep the statement, go on
                        new = R_(s)
                        out.append(new)
                        continue
                    new = ast.If(test=R_(s.test), body=body or [ast.Pass()], orelse=orelse)
                    out.append(ast.copy_location(new, st))
                    return out
                if isinstance(s, ast.With) and any(isinstance(y, ast.Return) for y in ast.walk(s)):
                    new = R_(s)
                    new.body = conv(s.body, []) or [ast.Pass()]
                    out.append(new)
                    return out
                out.append(R_(s))
            if rest:
                return out + conv(rest, [])
            if not isinstance(st, ast.Expr) and not _always_returns(stmts):
                return out + emit(None)
            return out
        seq = pre + conv(self.body, [])
        seq = [x for x in seq if not (isinstance(x, ast.Assign) and len(x.targets) == 1 and isinstance(x.targets[0], ast.Name)
                                      and isinstance(x.value, ast.Name) and x.value.id == x.targets[0].id)]       # x = x
        for s in seq:
            ast.fix_missing_locations(s)
        # program order of the inlined statements (they all carry the call's line): see scale_lines()
        k = [0]

        def number(stmts):
            for s in stmts:
                k[0] += 1
                for y in ast.walk(s):
                    if not hasattr(y, "_inl"):
                        y._inl = k[0]
                for fld in ("body", "orelse", "finalbody"):
                    blk = getattr(s, fld, None)
                    if isinstance(blk, list) and blk and isinstance(blk[0], ast.stmt):
                        pass
        # pre-order numbering of all statements, nested ones after their parent
        order = [y for s in seq for y in ast.walk(s) if isinstance(y, ast.stmt)]
        for idx, stn in enumerate(order, 1):
            for y in ast.walk(stn):
                y._inl = idx if not isinstance(y, ast.stmt) or y is stn else getattr(y, "_inl", idx)
        for idx, stn in enumerate(order, 1):
            stn._inl = idx
            for f, v in ast.iter_fields(stn):
                if f in ("body", "orelse", "finalbody", "handlers"):
                    continue
                for y in ([v] if isinstance(v, ast.AST) else [z for z in v if isinstance(z, ast.AST)] if isinstance(v, list) else []):
                    for z in ast.walk(y):
                        z._inl = idx
        return seq


def _kind_of(fn, in_class):
    if not in_class:
        # a decorated function (lru_cache, contextmanager, ...) is not its body
        return None if fn.decorator_list else "func"
    decos = {d.id for d in fn.decorator_list if isinstance(d, ast.Name)}
    if "staticmethod" in decos:
        return "static"
    if "classmethod" in decos:
        return "class"
    if decos - {"staticmethod", "classmethod"} or any(not isinstance(d, ast.Name) for d in fn.decorator_list):
        return None
    return "method"


def _ancestors(trees):
    """class -> the classes it derives from (by name, within the analysed files), itself included"""
    bases = {}
    for t in trees.values():
        for c in t.body:
            if isinstance(c, ast.ClassDef):
                bases[c.name] = [b.id for b in c.bases if isinstance(b, ast.Name)]
    out = {}
    for c in bases:
        seen, todo = set(), [c]
        while todo:
            x = todo.pop()
            if x in seen:
                continue
            seen.add(x)
            todo += bases.get(x, [])
        out[c] = seen
    return out


def inline_new_helpers(trees, inv, news):
    """news: {(mod, scope): names of functions the inventory does not know}"""
    helpers = {}
    ancs = _ancestors(trees)

    def same_cls(sc, scope):
        # the helper's class is the caller's class or one it derives from (a new name cannot be overridden by an inventory class; two new
        # definitions of one name are left alone)
        return sc == scope or (sc in ancs.get(scope, ()) and len(by_name_count.get(sc_name[0], ())) == 1)
    sc_name = [None]
    by_name_count = {}
    for mod, t in trees.items():
        for scope, owner, fn in scopes(t):
            if fn.name in news.get((mod, scope), ()) and not (fn.name.startswith("__") and fn.name.endswith("__")):
                k = _kind_of(fn, bool(scope))
                if k:
                    helpers[(scope, fn.name)] = (mod, owner, fn, k)
    if not helpers:
        return []
    by_name = {}
    for (scope, nm), v in helpers.items():
        by_name.setdefault(nm, []).append((scope, v))
    by_name_count.update(by_name)
    done = []
    touched = []
    counter = [0]

    def helper_call(call, scope):
        f = call.func
        if isinstance(f, ast.Name) and f.id in by_name:
            return any(sc == "" and v[3] == "func" for sc, v in by_name[f.id])
        if isinstance(f, ast.Attribute) and f.attr in by_name and isinstance(f.value, ast.Name):
            sc_name[0] = f.attr
            return any(sc and ((v[3] == "method" and f.value.id == "self" and same_cls(sc, scope)) or (v[3] in ("static", "class") and f.value.id in ("self", "cls", sc)))
                       for sc, v in by_name[f.attr])
        return False

    def _single_expr_helper(call, scope):
        f = call.func
        nm = f.id if isinstance(f, ast.Name) else f.attr
        for sc, v in by_name.get(nm, []):
            inl = _Inliner(v[2], v[3])
            if inl.ok and inl.single_expr:
                return True
        return False

    # a helper call nested in a simple statement is hoisted into a temporary first, when nothing with an effect is evaluated before it
    for mod, t in trees.items():
        for scope, owner, caller in list(scopes(t)):
            for blk_owner in list(ast.walk(caller)):
                for fld in ("body", "orelse", "finalbody"):
                    blk = getattr(blk_owner, fld, None)
                    if not (isinstance(blk, list) and blk and isinstance(blk[0], ast.stmt)):
                        continue
                    i = 0
                    while i < len(blk):
                        st = blk[i]
                        if isinstance(st, ast.If):
                            # `if h(..):` / `if not h(..):` with h a helper that is not a single expression: decide it in a temporary first
                            t0 = st.test.operand if isinstance(st.test, ast.UnaryOp) and isinstance(st.test.op, ast.Not) else st.test
                            if isinstance(t0, ast.Call) and helper_call(t0, scope) and not _single_expr_helper(t0, scope):
                                counter[0] += 1
                                tmp = "_inl_%d" % counter[0]
                                pre = ast.copy_location(ast.Assign(targets=[ast.Name(id=tmp, ctx=ast.Store())], value=t0), st)
                                nm = ast.copy_location(ast.Name(id=tmp, ctx=ast.Load()), t0)
                                if t0 is st.test:
                                    st.test = nm
                                else:
                                    st.test.operand = nm
                                ast.fix_missing_locations(pre)
                                blk.insert(i, pre)
                                i += 1
                        if isinstance(st, (ast.Assign, ast.AugAssign, ast.Return, ast.Expr)) and getattr(st, "value", None) is not None:
                            top = st.value
                            calls = [c for c in ast.walk(top) if isinstance(c, ast.Call)]
                            # a call inside a comprehension / lambda is evaluated per element (and reads its variables): it stays where it is
                            scoped = {id(y) for z in ast.walk(top) if isinstance(z, (ast.ListComp, ast.SetComp, ast.DictComp, ast.GeneratorExp, ast.Lambda))
                                      for y in ast.walk(z) if y is not z}
                            hc = [c for c in calls if c is not top and helper_call(c, scope) and id(c) not in scoped]
                            if any(helper_call(c, scope) and id(c) in scoped for c in calls):
                                hc = []
                            if len(hc) == 1 and not isinstance(st, ast.AugAssign):
                                c0 = hc[0]
                                anc = set()

                                def find(n, path):
                                    if n is c0:
                                        anc.update(id(x) for x in path)
                                        return True
                                    return any(find(ch, path + [n]) for ch in ast.iter_child_nodes(n))
                                find(top, [])
                                others = [c for c in calls if c is not c0 and id(c) not in anc and not any(c is y for y in ast.walk(c0))]
                                if all(_effect_free(c) for c in others):
                                    counter[0] += 1
                                    tmp = "_inl_%d" % counter[0]

                                    class H(ast.NodeTransformer):
                                        def visit_Call(self, n):
                                            if n is c0:
                                                return ast.copy_location(ast.Name(id=tmp, ctx=ast.Load()), n)
                                            self.generic_visit(n)
                                            return n
                                    pre = ast.copy_location(ast.Assign(targets=[ast.Name(id=tmp, ctx=ast.Store())], value=c0), st)
                                    st.value = H().visit(top)
                                    ast.fix_missing_locations(pre)
                                    blk.insert(i, pre)
                                    i += 1
                        i += 1
    for _round in range(4):
        changed = False
        for mod, t in trees.items():
            for scope, owner, caller in list(scopes(t)):
                cbound = None
                for blk_owner in ast.walk(caller):
                    for fld in ("body", "orelse", "finalbody"):
                        blk = getattr(blk_owner, fld, None)
                        if not (isinstance(blk, list) and blk and isinstance(blk[0], ast.stmt)):
                            continue
                        i = 0
                        while i < len(blk):
                            st = blk[i]
                            call = st.value if isinstance(st, (ast.Assign, ast.AugAssign, ast.Return, ast.Expr)) and isinstance(getattr(st, "value", None), ast.Call) else None
                            tgt = None
                            if call is not None:
                                f = call.func
                                if isinstance(f, ast.Name) and f.id in by_name:
                                    for sc, v in by_name[f.id]:
                                        if sc == "" and v[3] == "func":
                                            tgt, recv = v, None
                                elif isinstance(f, ast.Attribute) and f.attr in by_name and isinstance(f.value, ast.Name):
                                    sc_name[0] = f.attr
                                    for sc, v in by_name[f.attr]:
                                        if sc and v[3] == "method" and f.value.id == "self" and same_cls(sc, scope):
                                            tgt, recv = v, f.value
                                        elif sc and v[3] == "static" and f.value.id in ("self", "cls", sc):
                                            tgt, recv = v, None
                                        elif sc and v[3] == "class" and f.value.id in ("cls", "self", sc):
                                            tgt, recv = v, (f.value if f.value.id == "cls" else ast.Name(id=sc, ctx=ast.Load()))
                            if tgt is not None and tgt[2] is not caller:
                                inl = _Inliner(tgt[2], tgt[3])
                                if inl.ok:
                                    if cbound is None:
                                        cbound = _bound_names(caller)
                                    seq = inl.expand(st, call, recv, cbound, counter)
                                    if seq is not None:
                                        blk[i:i + 1] = seq or [ast.copy_location(ast.Pass(), st)]
                                        cbound |= {y.id for s in seq for y in ast.walk(s) if isinstance(y, ast.Name) and isinstance(y.ctx, ast.Store)}
                                        done.append((caller.name, tgt[2].name))
                                        touched.append(caller)
                                        changed = True
                                        i += len(seq) or 1
                                        continue
                            i += 1
                # expression position: helpers that are one returned expression
                class E(ast.NodeTransformer):
                    def visit_Call(self, n):
                        self.generic_visit(n)
                        f = n.func
                        v = None
                        recv = None
                        if isinstance(f, ast.Name) and f.id in by_name:
                            for sc, vv in by_name[f.id]:
                                if sc == "" and vv[3] == "func":
                                    v = vv
                        elif isinstance(f, ast.Attribute) and f.attr in by_name and isinstance(f.value, ast.Name):
                            sc_name[0] = f.attr
                            for sc, vv in by_name[f.attr]:
                                if sc and vv[3] == "method" and f.value.id == "self" and same_cls(sc, scope):
                                    v, recv = vv, f.value
                                elif sc and vv[3] == "static" and f.value.id in ("self", "cls", sc):
                                    v = vv
                        if v is None or v[2] is caller:
                            return n
                        inl = _Inliner(v[2], v[3])
                        if not (inl.ok and inl.single_expr):
                            return n
                        b = inl.bind(n)
                        if b is None or any(not _effect_free(a) for a in b.values()):
                            return n
                        rcv = inl.recv

                        class S(ast.NodeTransformer):
                            def visit_Name(self, m):
                                if isinstance(m.ctx, ast.Load) and m.id in b:
                                    return ast.copy_location(_clone(b[m.id]), m)
                                if rcv is not None and m.id == rcv and recv is not None:
                                    return ast.copy_location(_clone(recv), m)
                                return m
                        new = S().visit(_clone(inl.body[0].value))
                        for y in ast.walk(new):
                            if hasattr(y, "lineno"):
                                y.lineno = n.lineno
                        done.append((caller.name, v[2].name))
                        return ast.copy_location(new, n)
                before = len(done)
                E().visit(caller)
                if len(done) != before:
                    changed = True
                    ast.fix_missing_locations(caller)
        if not changed:
            break
    seen = set()
    for c in touched:
        if id(c) not in seen:
            seen.add(id(c))
            scale_lines(c)
    # a helper nobody refers to any more is dropped
    for (scope, nm), (mod, owner, fn, k) in helpers.items():
        used = False
        for m2, t in trees.items():
            for x in ast.walk(t):
                if x is fn:
                    continue
                if (isinstance(x, ast.Name) and x.id == nm) or (isinstance(x, ast.Attribute) and x.attr == nm):
                    # references from inside the helper itself do not count
                    used = used or not any(x is y for y in ast.walk(fn))
        if not used and nm.startswith("_"):
            owner.body[:] = [s for s in owner.body if s is not fn] or [ast.Pass()]
    return done


# ------------------------------------------------------------------------------------------------ pass 5: new local aliases
def _rebinding_sets(cls):
    """method -> attributes of self it re-binds (`self.X = ..`), transitively through calls on self"""
    direct, calls = {}, {}
    for m in cls.body:
        if not isinstance(m, ast.FunctionDef):
            continue
        d, c = set(), set()
        for x in ast.walk(m):
            if isinstance(x, ast.Attribute) and isinstance(x.value, ast.Name) and x.value.id == "self":
                if isinstance(x.ctx, (ast.Store, ast.Del)):
                    d.add(x.attr)
            if isinstance(x, ast.Call) and isinstance(x.func, ast.Attribute) and isinstance(x.func.value, ast.Name) and x.func.value.id == "self":
                c.add(x.func.attr)
        direct[m.name], calls[m.name] = d, c
    out = {k: set(v) for k, v in direct.items()}
    for _ in range(len(out)):
        grew = False
        for m in out:
            for c in calls[m]:
                if c in out and not out[c] <= out[m]:
                    out[m] |= out[c]
                    grew = True
        if not grew:
            break
    return out


def _self_root_attr(e):
    """X for an access path rooted at self.X, else None"""
    while isinstance(e, (ast.Attribute, ast.Subscript)):
        if isinstance(e, ast.Attribute) and isinstance(e.value, ast.Name) and e.value.id == "self":
            return e.attr
        e = e.value
    return None


def inline_new_aliases(trees, inv):
    """a local the inventory's version of the function does not have, bound once to a pure access path (`g = self._g`,
    `comp = self._g[n]`, `a, b = self._parents, self._childs`), is written out - unless the function may re-bind what the path names
    after the alias was taken (then the alias is a snapshot, and stays)."""
    from .core import inline_pure_aliases
    notes = []
    for mod, t in trees.items():
        rb = {}
        for c in t.body:
            if isinstance(c, ast.ClassDef):
                rb[c.name] = _rebinding_sets(c)
        for scope, owner, fn in list(scopes(t)):
            q = (scope + "." if scope else "") + fn.name
            new = genuinely_new_locals(fn, mod, q, inv)
            if not new:
                continue
            orig_fn = fn
            fn = _clone(fn)       # the tuple split below is only kept if an alias is written out in the end
            # a, b = X, Y  ->  a = X; b = Y   (targets new, distinct, and not read by the right-hand sides)
            for blk_owner in ast.walk(fn):
                for fld in ("body", "orelse", "finalbody"):
                    blk = getattr(blk_owner, fld, None)
                    if not (isinstance(blk, list) and blk and isinstance(blk[0], ast.stmt)):
                        continue
                    i = 0
                    while i < len(blk):
                        st = blk[i]
                        if isinstance(st, ast.Assign) and len(st.targets) == 1 and isinstance(st.targets[0], ast.Tuple) and isinstance(st.value, ast.Tuple) \
                                and len(st.targets[0].elts) == len(st.value.elts) and all(isinstance(e, ast.Name) for e in st.targets[0].elts):
                            tn = [e.id for e in st.targets[0].elts]
                            rd = {y.id for v in st.value.elts for y in ast.walk(v) if isinstance(y, ast.Name)}
                            if len(set(tn)) == len(tn) and set(tn) <= new and not (set(tn) & rd) and all(_pure_path(v) for v in st.value.elts):
                                seq = [ast.copy_location(ast.Assign(targets=[ast.Name(id=a, ctx=ast.Store())], value=v), st) for a, v in zip(tn, st.value.elts)]
                                blk[i:i + 1] = seq
                                i += len(seq)
                                continue
                        i += 1
            ast.fix_missing_locations(fn)
            risky = set()
            sets = rb.get(scope, {})
            for st in ast.walk(fn):
                if isinstance(st, ast.Assign) and len(st.targets) == 1 and isinstance(st.targets[0], ast.Name) and st.targets[0].id in new:
                    root = _self_root_attr(st.value)
                    if root is None:
                        continue
                    in_loop = False
                    p = st
                    for anc in ast.walk(fn):
                        if isinstance(anc, (ast.For, ast.While)) and any(y is st for y in ast.walk(anc)):
                            in_loop = True
                    for c in ast.walk(fn):
                        if isinstance(c, ast.Call) and isinstance(c.func, ast.Attribute) and isinstance(c.func.value, ast.Name) and c.func.value.id == "self" \
                                and root in sets.get(c.func.attr, ()) and (in_loop or c.lineno >= st.lineno):
                            risky.add(st.targets[0].id)
            only = new - risky
            # only locals with a plain binding can be aliases (loop targets are not): nothing to do otherwise
            plain = {st.targets[0].id for st in ast.walk(fn) if isinstance(st, ast.Assign) and len(st.targets) == 1 and isinstance(st.targets[0], ast.Name)}
            only &= plain
            if not only:
                continue
            fn2 = inline_pure_aliases(fn, only=only)
            gone = _bound_names(fn) - _bound_names(fn2)
            if gone:
                owner.body[:] = [fn2 if s is orig_fn else s for s in owner.body]
                notes.append("new local aliases written out in %s: %s" % (q, ", ".join(sorted(gone))))
    return notes


# ------------------------------------------------------------------------------------------------ pass 6: new locals holding a pure value
MUTATORS = {"append", "extend", "pop", "update", "clear", "remove", "insert", "setdefault", "sort", "reverse", "popitem", "add", "discard"}
VALUE_CALLS = {"list", "len", "tuple", "sorted", "set", "dict"}


def _pure_value(e):
    """pure path, or a pure builtin over pure values / .keys() / .values() / .items() of a pure path"""
    if _pure_path(e):
        return True
    if isinstance(e, ast.Call) and not e.keywords:
        if isinstance(e.func, ast.Name) and e.func.id in VALUE_CALLS and len(e.args) == 1:
            return _pure_value(e.args[0])
        if isinstance(e.func, ast.Attribute) and e.func.attr in ("keys", "values", "items") and not e.args:
            return _pure_path(e.func.value)
    return False


def _roots(e):
    return {y.id for y in ast.walk(e) if isinstance(y, ast.Name)}


def _touches(stmts, roots, attr_roots):
    """may the statements re-bind one of the names, store into / mutate something reached from them, or call a method of self (which could
    re-bind or mutate self's attributes)?"""
    for s in stmts:
        for x in ast.walk(s):
            if isinstance(x, ast.Name) and x.id in roots and isinstance(x.ctx, (ast.Store, ast.Del)):
                return True
            if isinstance(x, (ast.Subscript, ast.Attribute)) and isinstance(x.ctx, (ast.Store, ast.Del)):
                b = x
                while isinstance(b, (ast.Subscript, ast.Attribute)):
                    b = b.value
                if isinstance(b, ast.Name) and b.id in roots:
                    return True
            if isinstance(x, ast.Call) and isinstance(x.func, ast.Attribute):
                b = x.func.value
                while isinstance(b, (ast.Subscript, ast.Attribute)):
                    b = b.value
                if isinstance(b, ast.Name) and b.id in roots and x.func.attr in MUTATORS:
                    return True
                if attr_roots and isinstance(b, ast.Name) and b.id == "self" and isinstance(x.func.value, ast.Name):
                    return True      # a method of self is called while an alias of self's state is live
    return False


def inline_new_values(trees, inv):
    """`names = list(sources.keys())` ... `names[d]`: a local the inventory's version of the function does not have, bound once to a pure value,
    is written out where it is used, provided that (flow-sensitively) every use comes after the binding in the same block and nothing in
    between can change what the value is computed from."""
    notes = []
    for mod, t in trees.items():
        for scope, owner, fn in list(scopes(t)):
            q = (scope + "." if scope else "") + fn.name
            new = genuinely_new_locals(fn, mod, q, inv)
            if not new:
                continue
            binds = {}
            for x in ast.walk(fn):
                if isinstance(x, ast.Name) and isinstance(x.ctx, (ast.Store, ast.Del)):
                    binds[x.id] = binds.get(x.id, 0) + 1
            done = []
            for blk_owner in list(ast.walk(fn)):
                for fld in ("body", "orelse", "finalbody"):
                    blk = getattr(blk_owner, fld, None)
                    if not (isinstance(blk, list) and blk and isinstance(blk[0], ast.stmt)):
                        continue
                    i = 0
                    while i < len(blk):
                        st = blk[i]
                        if isinstance(st, ast.Assign) and len(st.targets) == 1 and isinstance(st.targets[0], ast.Name) and st.targets[0].id in new \
                                and binds.get(st.targets[0].id) == 1 and _pure_value(st.value) and not isinstance(st.value, ast.Constant):
                            nm = st.targets[0].id
                            uses_all = [y for y in ast.walk(fn) if isinstance(y, ast.Name) and y.id == nm and isinstance(y.ctx, ast.Load)]
                            after = blk[i + 1:]
                            uses_after = [y for s2 in after for y in ast.walk(s2) if isinstance(y, ast.Name) and y.id == nm and isinstance(y.ctx, ast.Load)]
                            roots = _roots(st.value)
                            attr_roots = "self" in roots
                            # statements up to the last one that uses the name
                            last = -1
                            for k, s2 in enumerate(after):
                                if any(isinstance(y, ast.Name) and y.id == nm for y in ast.walk(s2)):
                                    last = k
                            span = after[:last + 1]
                            if isinstance(st.value, ast.Name):
                                # a second name for the same object: only re-binding either name ends the equivalence
                                clean = not any(isinstance(y, ast.Name) and y.id in (nm, st.value.id) and isinstance(y.ctx, (ast.Store, ast.Del)) for s2 in span for y in ast.walk(s2))
                            else:
                                clean = not _touches(span, roots - {"self"}, attr_roots)
                            if uses_all and len(uses_all) == len(uses_after) and clean:
                                val = st.value

                                class S(ast.NodeTransformer):
                                    def visit_Name(self, n):
                                        if n.id == nm and isinstance(n.ctx, ast.Load):
                                            return ast.copy_location(_clone(val), n)
                                        return n
                                for k in range(len(span)):
                                    after[k] = S().visit(after[k])
                                blk[i + 1:] = after
                                del blk[i]
                                done.append(nm)
                                continue
                        i += 1
            if done:
                ast.fix_missing_locations(fn)
                notes.append("new local values written out in %s: %s" % (q, ", ".join(done)))
    return notes


# ------------------------------------------------------------------------------------------------ pass 0: new optional parameters
def _const_default(d):
    if d is None:
        return False
    if _literal(d):
        return True
    if isinstance(d, (ast.List, ast.Tuple, ast.Dict)) and not (getattr(d, "elts", None) or getattr(d, "keys", None)):
        return True
    return False


class _Fold(ast.NodeTransformer):
    """constant folding of the tests a specialised parameter leaves behind"""

    def visit_UnaryOp(self, n):
        self.generic_visit(n)
        if isinstance(n.op, ast.Not) and isinstance(n.operand, ast.Constant):
            return ast.copy_location(ast.Constant(value=not n.operand.value), n)
        return n

    def visit_Compare(self, n):
        self.generic_visit(n)
        if len(n.ops) == 1 and isinstance(n.left, ast.Constant) and isinstance(n.comparators[0], ast.Constant):
            a, b = n.left.value, n.comparators[0].value
            op = n.ops[0]
            r = None
            if isinstance(op, ast.Is):
                r = a is b if (a is None or b is None or isinstance(a, bool) or isinstance(b, bool)) else None
            elif isinstance(op, ast.IsNot):
                r = a is not b if (a is None or b is None or isinstance(a, bool) or isinstance(b, bool)) else None
            elif isinstance(op, ast.Eq):
                r = a == b
            elif isinstance(op, ast.NotEq):
                r = a != b
            if r is not None:
                return ast.copy_location(ast.Constant(value=r), n)
        return n

    def visit_BoolOp(self, n):
        self.generic_visit(n)
        vals = []
        for v in n.values:
            if isinstance(v, ast.Constant):
                if isinstance(n.op, ast.And):
                    if not v.value:
                        return ast.copy_location(v, n) if not vals else n
                    continue        # truthy constant in a conjunction: drop (unless it is the last value: see below)
                else:
                    if v.value:
                        return ast.copy_location(v, n) if not vals else n
                    continue
            vals.append(v)
        if len(vals) == len(n.values):
            return n
        if not vals:
            return ast.copy_location(n.values[-1], n)
        if isinstance(n.values[-1], ast.Constant):
            return n            # the value of the expression could be the trailing constant: leave it alone
        if len(vals) == 1:
            return vals[0]
        n.values = vals
        return n

    def visit_IfExp(self, n):
        self.generic_visit(n)
        if isinstance(n.test, ast.Constant):
            return n.body if n.test.value else n.orelse
        return n


def _fold_block(stmts):
    out = []
    for s in stmts:
        for fld in ("body", "orelse", "finalbody"):
            blk = getattr(s, fld, None)
            if isinstance(blk, list) and blk and isinstance(blk[0], ast.stmt):
                nb = _fold_block(blk)
                setattr(s, fld, nb if (nb or fld != "body") else [ast.copy_location(ast.Pass(), s)])
        if isinstance(s, ast.If) and isinstance(s.test, ast.Constant):
            out += (s.body if s.test.value else s.orelse)
            continue
        out.append(s)
    return [x for x in out if not isinstance(x, ast.Pass)] or []


BUILTIN_DEFAULTS = {"open": {"encoding": None, "errors": None, "newline": None, "buffering": -1, "closefd": True, "opener": None}}


def specialise_new_parameters(trees, inv):
    """an inventory function that gained a parameter with a literal default is analysed at that default: the parameter is replaced by the
    default in the body, the tests it leaves behind are folded, and callers that pass the default explicitly pass nothing.  What the function
    does for other values of a parameter that did not exist is outside what the properties quantify over."""
    notes = []
    removed = {}
    for mod, t in trees.items():
        for scope, owner, fn in scopes(t):
            q = (scope + "." if scope else "") + fn.name
            known = inv.get("params", {}).get(mod, {}).get(q)
            if known is None:
                continue
            a = fn.args
            pos = a.posonlyargs + a.args
            pdef = dict(zip([x.arg for x in pos][len(pos) - len(a.defaults):], a.defaults))
            kdef = {k.arg: d for k, d in zip(a.kwonlyargs, a.kw_defaults)}
            stored = {x.id for x in ast.walk(fn) if isinstance(x, ast.Name) and isinstance(x.ctx, (ast.Store, ast.Del))}
            new = [x.arg for x in pos + a.kwonlyargs if x.arg not in known]
            todo = {}
            for nm in new:
                d = kdef.get(nm, pdef.get(nm))
                if _const_default(d) and nm not in stored:
                    # a new positional parameter must be the last ones (else positions of old parameters shift: not ours to judge)
                    todo[nm] = d
            if not todo:
                continue
            tail_ok = [x.arg for x in pos if x.arg in todo] == [x.arg for x in pos][len(pos) - len([x for x in pos if x.arg in todo]):] if any(x.arg in todo for x in pos) else True
            if not tail_ok:
                continue

            class S(ast.NodeTransformer):
                def visit_Name(self, n):
                    if isinstance(n.ctx, ast.Load) and n.id in todo:
                        return ast.copy_location(_clone(todo[n.id]), n)
                    return n
            fn.body = [S().visit(x) for x in fn.body]
            fn.body = [_Fold().visit(x) for x in fn.body]
            fn.body = _fold_block(fn.body) or [ast.Pass()]
            npos = [x for x in a.args if x.arg not in todo]
            drop_n = len(a.args) - len(npos)
            if drop_n:
                a.defaults = a.defaults[:len(a.defaults) - drop_n]
            a.args = npos
            keep = [(k, d) for k, d in zip(a.kwonlyargs, a.kw_defaults) if k.arg not in todo]
            a.kwonlyargs, a.kw_defaults = [k for k, d in keep], [d for k, d in keep]
            ast.fix_missing_locations(fn)
            removed.setdefault(fn.name, {}).update({k: ast.dump(v) for k, v in todo.items()})
            notes.append("new optional parameter(s) of %s fixed at their defaults: %s" % (q, ", ".join(sorted(todo))))
    # passing a builtin's own default explicitly is passing nothing
    for mod, t in trees.items():
        for c in ast.walk(t):
            if isinstance(c, ast.Call) and isinstance(c.func, ast.Name) and c.func.id in BUILTIN_DEFAULTS:
                tbl = BUILTIN_DEFAULTS[c.func.id]
                c.keywords = [k for k in c.keywords if not (k.arg in tbl and isinstance(k.value, ast.Constant) and k.value.value == tbl[k.arg]
                                                            and type(k.value.value) is type(tbl[k.arg]))]
    if removed:
        for mod, t in trees.items():
            for c in ast.walk(t):
                if isinstance(c, ast.Call):
                    nm = c.func.attr if isinstance(c.func, ast.Attribute) else (c.func.id if isinstance(c.func, ast.Name) else None)
                    if nm in removed:
                        c.keywords = [k for k in c.keywords if not (k.arg in removed[nm] and ast.dump(k.value) == removed[nm][k.arg])]
    return notes


SCALE = 1000
BASE = 10 ** 9


def scale_lines(fn):
    """statements inlined at a call all carry the call's line; rules that ask 'does this come before that' by line number need an order.
    In a function that received inlined code every line number L becomes 10^9 + L*1000 (+ the position of an inlined statement within its
    expansion); sa/core.py divides again wherever a line is printed."""
    base = {}
    for y in ast.walk(fn):
        if hasattr(y, "lineno") and y.lineno < BASE:
            k = getattr(y, "_inl", 0)
            y.lineno = BASE + y.lineno * SCALE + min(k, SCALE - 1)
            if getattr(y, "end_lineno", None) is not None and y.end_lineno < BASE:
                y.end_lineno = BASE + y.end_lineno * SCALE + min(k, SCALE - 1)
    # a statement after an expansion on the same source line cannot exist (the call was a whole statement)


def _inverse_map(dc):
    """{v: k for k, v in D.items()}: the inverse of a mapping (the summary engine reads it as such)"""
    if not isinstance(dc, ast.DictComp):
        return False
    g = dc.generators[0]
    return isinstance(g.target, ast.Tuple) and len(g.target.elts) == 2 and all(isinstance(e, ast.Name) for e in g.target.elts) \
        and isinstance(g.iter, ast.Call) and isinstance(g.iter.func, ast.Attribute) and g.iter.func.attr == "items" and not g.ifs \
        and isinstance(dc.key, ast.Name) and isinstance(dc.value, ast.Name) and dc.key.id == g.target.elts[1].id and dc.value.id == g.target.elts[0].id


def listcomps_to_loops(trees, inv):
    """`out = [E for T in IT if C]` bound to a local the inventory's version of the function does not have is the loop it abbreviates:
    `out = []`, `for T in IT: if C: out.append(E)` (the comprehension's variables get fresh names when the function uses them otherwise)"""
    notes = []
    for mod, t in trees.items():
        for scope, owner, fn in list(scopes(t)):
            q = (scope + "." if scope else "") + fn.name
            new = genuinely_new_locals(fn, mod, q, inv) or set()
            # also: a local the inventory's version binds to something else (an empty dict / list filled by a loop) and this version
            # binds to a comprehension
            was = inv.get("bindings", {}).get(mod, {}).get(q)
            if was is None:
                continue
            cur = local_bindings(fn)
            # (dict comprehensions only: a list comprehension in place of an append loop is read by the engine as it stands)
            new = set(new) | {n for n, b in cur.items() if "DictComp(" in b[:40] and n in was and was[n] != b
                              and not ("ListComp(" in was[n][:40] or "DictComp(" in was[n][:40])}
            if not new:
                continue
            bound = _bound_names(fn)
            done = []
            # a function that already used a comprehension of that kind keeps its comprehensions (the rules know them in that form)
            inv_kinds = {k for k in ("ListComp", "DictComp") if k in inv.get("functions", {}).get(mod, {}).get(q, [])}
            # ... and a comprehension is only read as a loop where a loop went away (the inventory's version has more `for` statements):
            # a comprehension that was added next to the existing loops (a table of masks, an inverse map) is no abbreviation of one
            if sum(1 for x in ast.walk(fn) if isinstance(x, ast.For)) >= inv.get("functions", {}).get(mod, {}).get(q, []).count("For"):
                continue
            for blk_owner in list(ast.walk(fn)):
                for fld in ("body", "orelse", "finalbody"):
                    blk = getattr(blk_owner, fld, None)
                    if not (isinstance(blk, list) and blk and isinstance(blk[0], ast.stmt)):
                        continue
                    i = 0
                    while i < len(blk):
                        st = blk[i]
                        if isinstance(st, ast.Assign) and len(st.targets) == 1 and isinstance(st.targets[0], ast.Name) and st.targets[0].id in new \
                                and isinstance(st.value, (ast.ListComp, ast.DictComp)) and len(st.value.generators) == 1 and not st.value.generators[0].is_async \
                                and type(st.value).__name__ not in inv_kinds and not _inverse_map(st.value):
                            g = st.value.generators[0]
                            tv = [y.id for y in ast.walk(g.target) if isinstance(y, ast.Name)]
                            ren = {}
                            for v in tv:
                                if v in bound and any(isinstance(y, ast.Name) and y.id == v and not any(y is z for z in ast.walk(st)) for y in ast.walk(fn)):
                                    ren[v] = v + "_c"

                            class R(ast.NodeTransformer):
                                def visit_Name(self, n):
                                    if n.id in ren:
                                        return ast.copy_location(ast.Name(id=ren[n.id], ctx=n.ctx), n)
                                    return n
                            tgt = R().visit(_clone(g.target))
                            for y in ast.walk(tgt):
                                if isinstance(y, (ast.Name, ast.Tuple, ast.List)):
                                    y.ctx = ast.Store()
                            if isinstance(st.value, ast.ListComp):
                                elt = R().visit(_clone(st.value.elt))
                                app = ast.Expr(value=ast.Call(func=ast.Attribute(value=ast.Name(id=st.targets[0].id, ctx=ast.Load()), attr="append", ctx=ast.Load()),
                                                              args=[elt], keywords=[]))
                                empty = ast.List(elts=[], ctx=ast.Load())
                            else:
                                app = ast.Assign(targets=[ast.Subscript(value=ast.Name(id=st.targets[0].id, ctx=ast.Load()), slice=R().visit(_clone(st.value.key)),
                                                                        ctx=ast.Store())], value=R().visit(_clone(st.value.value)))
                                empty = ast.Dict(keys=[], values=[])
                            body = [app]
                            for c in reversed(g.ifs):
                                body = [ast.If(test=R().visit(_clone(c)), body=body, orelse=[])]
                            loop = ast.For(target=tgt, iter=g.iter, body=body, orelse=[])
                            init = ast.Assign(targets=[ast.Name(id=st.targets[0].id, ctx=ast.Store())], value=empty)
                            for nnode in (init, loop):
                                ast.copy_location(nnode, st)
                                for y in ast.walk(nnode):
                                    if not hasattr(y, "lineno"):
                                        ast.copy_location(y, st)
                                ast.fix_missing_locations(nnode)
                            blk[i:i + 1] = [init, loop]
                            done.append(st.targets[0].id)
                            i += 2
                            continue
                        i += 1
            if done:
                notes.append("comprehensions read as loops in %s: %s" % (q, ", ".join(done)))
    return notes


def erase_new_namedtuples(trees, inv):
    """a NamedTuple class the inventory does not know is a tuple with named positions: `C(a, b)` is `(a, b)`, `x.field` is `x[k]`,
    a method `x.m(..)` is the module-level function `_C__m(x, ..)` (which the helper pass may then write out).  Only for field / method
    names the inventory's code never uses as an attribute name, and never for two new classes that disagree on a field's position."""
    known = set(inv.get("methods_of", {}))
    vocab = {tk[2:] for m in inv.get("functions", {}).values() for toks in m.values() for tk in toks if tk.startswith("A:")}
    vocab |= {a for c in inv.get("attrs", {}).values() for a in c}
    nts = {}
    for mod, t in trees.items():
        for c in t.body:
            if not (isinstance(c, ast.ClassDef) and c.name not in known and not c.decorator_list and not c.keywords):
                continue
            if not any((isinstance(b, ast.Name) and b.id == "NamedTuple") or (isinstance(b, ast.Attribute) and b.attr == "NamedTuple") for b in c.bases) or len(c.bases) != 1:
                continue
            fields, methods, ok = [], [], True
            for st in c.body:
                if isinstance(st, ast.AnnAssign) and isinstance(st.target, ast.Name):
                    fields.append((st.target.id, st.value))
                elif isinstance(st, ast.FunctionDef) and not st.decorator_list and st.args.args and st.args.args[0].arg == "self" \
                        and not (st.name.startswith("__") and st.name.endswith("__")):
                    methods.append(st)
                elif isinstance(st, ast.Expr) and isinstance(st.value, ast.Constant):
                    pass
                elif isinstance(st, ast.Pass):
                    pass
                else:
                    ok = False
            if ok and fields:
                nts[c.name] = (mod, t, c, fields, methods)
    if not nts:
        return []
    pos, bad = {}, set()
    for cn, (mod, t, c, fields, methods) in nts.items():
        for k, (f, _) in enumerate(fields):
            if f in vocab or (f in pos and pos[f] != k):
                bad.add(f)
            pos.setdefault(f, k)
    meth = {}
    for cn, (mod, t, c, fields, methods) in nts.items():
        for m in methods:
            if m.name in vocab or m.name in meth or m.name in pos:
                bad.add(m.name)
            meth[m.name] = (cn, m)
    # a class with a doubtful name is left as it is, entirely
    skip = {cn for cn, (mod, t, c, fields, methods) in nts.items() if any(f in bad for f, _ in fields) or any(m.name in bad for m in methods)}
    nts = {k: v for k, v in nts.items() if k not in skip}
    if not nts:
        return []
    pos = {f: k for cn, v in nts.items() for k, (f, _) in enumerate(v[3])}
    meth = {m.name: (cn, m) for cn, v in nts.items() for m in v[4]}
    failed = set()

    class R(ast.NodeTransformer):
        def visit_Call(self, n):
            self.generic_visit(n)
            f = n.func
            if isinstance(f, ast.Name) and f.id in nts:
                fields = nts[f.id][3]
                vals = [None] * len(fields)
                if any(isinstance(a, ast.Starred) for a in n.args) or any(k.arg is None for k in n.keywords) or len(n.args) > len(fields):
                    failed.add(f.id)
                    return n
                for k, a in enumerate(n.args):
                    vals[k] = a
                names = [x for x, _ in fields]
                for k in n.keywords:
                    if k.arg not in names or vals[names.index(k.arg)] is not None:
                        failed.add(f.id)
                        return n
                    vals[names.index(k.arg)] = k.value
                for k, (x, d) in enumerate(fields):
                    if vals[k] is None:
                        if d is None:
                            failed.add(f.id)
                            return n
                        vals[k] = _clone(d)
                return ast.copy_location(ast.Tuple(elts=vals, ctx=ast.Load()), n)
            if isinstance(f, ast.Attribute) and f.attr in meth:
                cn, m = meth[f.attr]
                return ast.copy_location(ast.Call(func=ast.Name(id="_%s__%s" % (cn.strip("_"), m.name), ctx=ast.Load()), args=[f.value] + n.args, keywords=n.keywords), n)
            return n

        def visit_Attribute(self, n):
            self.generic_visit(n)
            if n.attr in pos and isinstance(n.ctx, ast.Load):
                return ast.copy_location(ast.Subscript(value=n.value, slice=ast.Constant(value=pos[n.attr]), ctx=ast.Load()), n)
            return n
    snapshot = {mod: _clone(t) for mod, t in trees.items()}
    for mod, t in trees.items():
        R().visit(t)
    if failed:
        # a construction that could not be written as a display: nothing of this pass is kept
        for mod in trees:
            trees[mod].body[:] = snapshot[mod].body
        return []
    notes = []
    for cn, (mod, t, c, fields, methods) in nts.items():
        idx = t.body.index(c)
        lifted = []
        for m in methods:
            m.name = "_%s__%s" % (cn.strip("_"), m.name)
            lifted.append(m)
        c.body[:] = [st for st in c.body if st not in methods] or [ast.Pass()]
        t.body[idx + 1:idx + 1] = lifted
        notes.append("new NamedTuple %s read as a plain tuple (%s)" % (cn, ", ".join(f for f, _ in fields)))
    for t in trees.values():
        ast.fix_missing_locations(t)
    return notes


def split_new_tuple_locals(trees, inv):
    """a local the inventory's version of the function lacks, bound only to tuple displays of one length and used only as `t[0]`, `t[1]` ..:
    one local per position (`t_0`, `t_1`), each bound where the tuple was"""
    notes = []
    for mod, t in trees.items():
        for scope, owner, fn in list(scopes(t)):
            q = (scope + "." if scope else "") + fn.name
            new = genuinely_new_locals(fn, mod, q, inv)
            if not new:
                continue
            inner = {id(y) for z in ast.walk(fn) if isinstance(z, (ast.FunctionDef, ast.Lambda)) and z is not fn for y in ast.walk(z)}
            done = []
            bound = _bound_names(fn)
            for nm in sorted(new):
                stores = [x for x in ast.walk(fn) if isinstance(x, ast.Name) and x.id == nm and isinstance(x.ctx, (ast.Store, ast.Del))]
                loads = [x for x in ast.walk(fn) if isinstance(x, ast.Name) and x.id == nm and isinstance(x.ctx, ast.Load)]
                if not stores or not loads or any(id(x) in inner for x in stores + loads):
                    continue
                assigns = [x for x in ast.walk(fn) if isinstance(x, ast.Assign) and len(x.targets) == 1 and isinstance(x.targets[0], ast.Name) and x.targets[0].id == nm]
                if len(assigns) != len(stores) or not all(isinstance(a.value, ast.Tuple) and not any(isinstance(e, ast.Starred) for e in a.value.elts) for a in assigns):
                    continue
                arity = {len(a.value.elts) for a in assigns}
                if len(arity) != 1:
                    continue
                n_el = arity.pop()
                subs = [x for x in ast.walk(fn) if isinstance(x, ast.Subscript) and isinstance(x.value, ast.Name) and x.value.id == nm and isinstance(x.ctx, ast.Load)
                        and isinstance(x.slice, ast.Constant) and type(x.slice.value) is int and 0 <= x.slice.value < n_el]
                stars = [c for c in ast.walk(fn) if isinstance(c, ast.Call) and any(isinstance(a, ast.Starred) and isinstance(a.value, ast.Name) and a.value.id == nm for a in c.args)]
                n_star = sum(1 for c in stars for a in c.args if isinstance(a, ast.Starred) and isinstance(a.value, ast.Name) and a.value.id == nm)
                if len(subs) + n_star != len(loads) or any("%s_%d" % (nm, k) in bound for k in range(n_el)):
                    continue
                for c in stars:
                    na = []
                    for a in c.args:
                        if isinstance(a, ast.Starred) and isinstance(a.value, ast.Name) and a.value.id == nm:
                            na += [ast.copy_location(ast.Name(id="%s_%d" % (nm, k), ctx=ast.Load()), a) for k in range(n_el)]
                        else:
                            na.append(a)
                    c.args = na

                class S(ast.NodeTransformer):
                    def visit_Subscript(self, x):
                        self.generic_visit(x)
                        if any(x is y for y in subs):
                            return ast.copy_location(ast.Name(id="%s_%d" % (nm, x.slice.value), ctx=ast.Load()), x)
                        return x
                fn.body = [S().visit(st) for st in fn.body]
                for blk_owner in list(ast.walk(fn)):
                    for fld in ("body", "orelse", "finalbody"):
                        blk = getattr(blk_owner, fld, None)
                        if not (isinstance(blk, list) and blk and isinstance(blk[0], ast.stmt)):
                            continue
                        i = 0
                        while i < len(blk):
                            st = blk[i]
                            if any(st is a for a in assigns):
                                # the elements are evaluated left to right, as the display was; an element that reads a position bound just
                                # before it cannot occur (the tuple's name is not read inside its own display: checked above through subs/loads)
                                seq = [ast.copy_location(ast.Assign(targets=[ast.Name(id="%s_%d" % (nm, k), ctx=ast.Store())], value=e), st) for k, e in enumerate(st.value.elts)]
                                for k, z in enumerate(seq):
                                    z._inl = getattr(st, "_inl", 0)
                                blk[i:i + 1] = seq
                                i += len(seq)
                                continue
                            i += 1
                done.append(nm)
            if done:
                ast.fix_missing_locations(fn)
                notes.append("new tuple locals read position by position in %s: %s" % (q, ", ".join(done)))
    return notes


def new_context_managers_to_try(trees, inv):
    """a class the inventory does not know whose only methods are __init__, __enter__ and __exit__, with an __exit__ that never swallows
    the exception (returns nothing / False, ignores its arguments), used as `g = C(..)` ... `with g:` (or `with C(..):`):
    the constructor's statements where the object is made, then `try: BODY finally: <__exit__'s statements>`, the object's attributes
    as locals"""
    known = set(inv.get("methods_of", {}))
    cms = {}
    for mod, t in trees.items():
        for c in t.body:
            if not (isinstance(c, ast.ClassDef) and c.name not in known and not c.decorator_list and not c.keywords):
                continue
            if any(not (isinstance(b, ast.Name) and b.id == "object") for b in c.bases):
                continue
            ms = {m.name: m for m in c.body if isinstance(m, ast.FunctionDef)}
            rest = [x for x in c.body if not isinstance(x, ast.FunctionDef) and not (isinstance(x, ast.Expr) and isinstance(x.value, ast.Constant)) and not isinstance(x, ast.Pass)]
            if rest or set(ms) - {"__init__", "__enter__", "__exit__"} or not {"__enter__", "__exit__"} <= set(ms):
                continue
            if any(m.decorator_list or m.args.vararg or m.args.kwarg or m.args.kwonlyargs for m in ms.values()):
                continue
            ex = ms["__exit__"]
            exargs = {a.arg for a in ex.args.args[1:]}
            body_ex = [x for x in ex.body if not (isinstance(x, ast.Expr) and isinstance(x.value, ast.Constant))]
            if body_ex and isinstance(body_ex[-1], ast.Return) and (body_ex[-1].value is None or (isinstance(body_ex[-1].value, ast.Constant) and body_ex[-1].value.value in (False, None))):
                body_ex = body_ex[:-1]
            if any(isinstance(y, (ast.Return, ast.Yield, ast.YieldFrom, ast.Await)) for x in body_ex for y in ast.walk(x)):
                continue
            if any(isinstance(y, ast.Name) and y.id in exargs for x in body_ex for y in ast.walk(x)):
                continue
            en = ms["__enter__"]
            body_en = [x for x in en.body if not (isinstance(x, ast.Expr) and isinstance(x.value, ast.Constant))]
            ret_self = False
            if body_en and isinstance(body_en[-1], ast.Return):
                r = body_en[-1].value
                if r is None or (isinstance(r, ast.Constant) and r.value is None):
                    pass
                elif isinstance(r, ast.Name) and r.id == "self":
                    ret_self = True
                else:
                    continue
                body_en = body_en[:-1]
            if any(isinstance(y, (ast.Return, ast.Yield, ast.YieldFrom, ast.Await)) for x in body_en for y in ast.walk(x)):
                continue
            ini = ms.get("__init__")
            body_in = [x for x in ini.body if not (isinstance(x, ast.Expr) and isinstance(x.value, ast.Constant))] if ini else []
            if any(isinstance(y, (ast.Return, ast.Yield, ast.YieldFrom, ast.Await)) for x in body_in for y in ast.walk(x)):
                continue
            # self only as `self.attr`
            okself = True
            for b in (body_in, body_en, body_ex):
                for x in b:
                    attr_selfs = {id(y.value) for y in ast.walk(x) if isinstance(y, ast.Attribute) and isinstance(y.value, ast.Name) and y.value.id == "self"}
                    if any(isinstance(y, ast.Name) and y.id == "self" and id(y) not in attr_selfs for y in ast.walk(x)):
                        okself = False
            if not okself or (ini and ini.args.defaults):
                continue
            cms[c.name] = (mod, c, [a.arg for a in ini.args.args[1:]] if ini else [], body_in, body_en, body_ex, ret_self)
    if not cms:
        return []
    notes = []
    counter = [0]

    def subst(stmts, k, binds):
        class S(ast.NodeTransformer):
            def visit_Attribute(self, n):
                if isinstance(n.value, ast.Name) and n.value.id == "self":
                    return ast.copy_location(ast.Name(id="_cm%d_%s" % (k, n.attr.lstrip("_")), ctx=n.ctx), n)
                self.generic_visit(n)
                return n

            def visit_Name(self, n):
                if n.id in binds and isinstance(n.ctx, ast.Load):
                    return ast.copy_location(_clone(binds[n.id]), n)
                return n
        return [S().visit(_clone(x)) for x in stmts]

    def ctor(e):
        return isinstance(e, ast.Call) and isinstance(e.func, ast.Name) and e.func.id in cms and not e.keywords \
            and not any(isinstance(a, ast.Starred) for a in e.args) and len(e.args) == len(cms[e.func.id][2]) and all(_pure_path(a) for a in e.args)
    for mod, t in trees.items():
        for scope, owner, fn in list(scopes(t)):
            withs = [w for w in ast.walk(fn) if isinstance(w, ast.With) and len(w.items) == 1]
            for w in withs:
                it = w.items[0]
                site = None
                if ctor(it.context_expr):
                    call = it.context_expr
                elif isinstance(it.context_expr, ast.Name):
                    nm = it.context_expr.id
                    asg = [x for x in ast.walk(fn) if isinstance(x, ast.Assign) and len(x.targets) == 1 and isinstance(x.targets[0], ast.Name) and x.targets[0].id == nm]
                    refs = [x for x in ast.walk(fn) if isinstance(x, ast.Name) and x.id == nm]
                    if len(asg) != 1 or len(refs) != 2 or not ctor(asg[0].value):
                        continue
                    site, call = asg[0], asg[0].value
                else:
                    continue
                mod_c, c, params, body_in, body_en, body_ex, ret_self = cms[call.func.id]
                if it.optional_vars is not None:
                    # `as x` with __enter__ returning the object: x must not be used
                    if not isinstance(it.optional_vars, ast.Name) or any(isinstance(y, ast.Name) and y.id == it.optional_vars.id and y is not it.optional_vars for y in ast.walk(fn)):
                        continue
                counter[0] += 1
                k = counter[0]
                binds = dict(zip(params, call.args))
                # a parameter the constructor re-binds cannot be substituted
                if any(isinstance(y, ast.Name) and y.id in binds and isinstance(y.ctx, ast.Store) for x in body_in + body_en + body_ex for y in ast.walk(x)):
                    continue
                # an attribute that only passes a constructor argument on (`self._graph = graph`) is that argument, when the argument is a
                # path nothing in the function re-binds
                passed = {}
                stored_names = {y.id for y in ast.walk(fn) if isinstance(y, ast.Name) and isinstance(y.ctx, (ast.Store, ast.Del))}
                nbind = {}
                for y in ast.walk(fn):
                    if isinstance(y, ast.Name) and isinstance(y.ctx, (ast.Store, ast.Del)):
                        nbind[y.id] = nbind.get(y.id, 0) + 1
                stored_attrs = {y.attr for y in ast.walk(fn) if isinstance(y, ast.Attribute) and isinstance(y.ctx, (ast.Store, ast.Del))}
                body_in2 = []
                for x in body_in:
                    if isinstance(x, ast.Assign) and len(x.targets) == 1 and isinstance(x.targets[0], ast.Attribute) and isinstance(x.targets[0].value, ast.Name) \
                            and x.targets[0].value.id == "self" and isinstance(x.value, ast.Name) and x.value.id in binds:
                        arg = binds[x.value.id]
                        roots = [y.id for y in ast.walk(arg) if isinstance(y, ast.Name)]
                        attrs_ = [y.attr for y in ast.walk(arg) if isinstance(y, ast.Attribute)]
                        if all(nbind.get(r, 0) <= 1 for r in roots) and not (set(attrs_) & stored_attrs) and sum(
                                1 for b in (body_in, body_en, body_ex) for z in b for y in ast.walk(z)
                                if isinstance(y, ast.Attribute) and isinstance(y.value, ast.Name) and y.value.id == "self" and y.attr == x.targets[0].attr
                                and isinstance(y.ctx, (ast.Store, ast.Del))) == 1:
                            passed[x.targets[0].attr] = arg
                            continue
                    body_in2.append(x)

                def subst(stmts, k, binds, passed=passed, _s=subst):
                    names = {"_cm%d_%s" % (k, a.lstrip("_")): v for a, v in passed.items()}

                    class P(ast.NodeTransformer):
                        def visit_Name(self, n):
                            if n.id in names and isinstance(n.ctx, ast.Load):
                                return ast.copy_location(_clone(names[n.id]), n)
                            return n
                    return [P().visit(x) for x in _s(stmts, k, binds)]
                body_in = body_in2
                pre = subst(body_in, k, binds)
                ent = subst(body_en, k, binds)
                fin = subst(body_ex, k, binds)
                tr = ast.Try(body=w.body, handlers=[], orelse=[], finalbody=fin or [ast.Pass()])
                for blk_owner in list(ast.walk(fn)):
                    for fld in ("body", "orelse", "finalbody"):
                        blk = getattr(blk_owner, fld, None)
                        if not (isinstance(blk, list) and blk and isinstance(blk[0], ast.stmt)):
                            continue
                        for st in list(blk):
                            i = next(j for j, z in enumerate(blk) if z is st) if any(z is st for z in blk) else None
                            if i is None:
                                continue
                            if st is w:
                                seq = ([] if site is not None else pre) + ent + [tr]
                                last_line = max([getattr(y, "lineno", 0) or 0 for b in w.body for y in ast.walk(b)] + [w.lineno])
                                for z in (pre if site is None else []) + ent:
                                    for y in ast.walk(z):
                                        if hasattr(y, "lineno"):
                                            y.lineno = y.end_lineno = w.lineno
                                ast.copy_location(tr, w)
                                for z in tr.finalbody:
                                    for y in ast.walk(z):
                                        if hasattr(y, "lineno"):
                                            y.lineno = y.end_lineno = last_line
                                blk[i:i + 1] = seq
                            elif site is not None and st is site:
                                for z in pre:
                                    for y in ast.walk(z):
                                        if hasattr(y, "lineno"):
                                            y.lineno = site.lineno
                                            y.end_lineno = site.lineno
                                blk[i:i + 1] = pre or [ast.copy_location(ast.Pass(), site)]
                ast.fix_missing_locations(fn)
                notes.append("new context manager %s read as the try / finally it stands for in %s" % (c.name, fn.name))
    return notes


def unroll_new_literal_loops(trees, inv):
    """`for a, b in zip(("x", "y"), (p, q)): BODY` / `for a in ("x", "y"): BODY` in a function that has more loops than the inventory's
    version of it (the loop arrived with a helper, or replaced a run of statements): BODY once per element, the loop variables written
    out.  Only bodies without break / continue / else whose loop variables are neither re-bound inside nor read after the loop."""
    notes = []
    for mod, t in trees.items():
        for scope, owner, fn in list(scopes(t)):
            q = (scope + "." if scope else "") + fn.name
            toks = inv.get("functions", {}).get(mod, {}).get(q)
            if toks is None:
                continue
            if sum(1 for x in ast.walk(fn) if isinstance(x, ast.For)) <= toks.count("For"):
                continue
            done = 0
            # a new local that is nothing but a list of other locals (`blank = [typ, parent]`, `blank += [pwr]`), read only as the sequence
            # of `for` loops that come after its last binding, none of the listed names being re-bound from its first binding on
            name_lists = {}
            new_l = genuinely_new_locals(fn, mod, q, inv) or set()
            for nm in new_l:
                binds_ = [x for x in ast.walk(fn) if (isinstance(x, ast.Assign) and len(x.targets) == 1 and isinstance(x.targets[0], ast.Name) and x.targets[0].id == nm)
                          or (isinstance(x, ast.AugAssign) and isinstance(x.target, ast.Name) and x.target.id == nm and isinstance(x.op, ast.Add))]
                stores_ = [y for y in ast.walk(fn) if isinstance(y, ast.Name) and y.id == nm and isinstance(y.ctx, (ast.Store, ast.Del))]
                loads_ = [y for y in ast.walk(fn) if isinstance(y, ast.Name) and y.id == nm and isinstance(y.ctx, ast.Load)]
                uses_ = [x for x in ast.walk(fn) if isinstance(x, ast.For) and isinstance(x.iter, ast.Name) and x.iter.id == nm]
                if not binds_ or len(binds_) != len(stores_) or len(uses_) != len(loads_) or not uses_:
                    continue
                if not isinstance(binds_[0], ast.Assign) or not all(isinstance(b.value, (ast.List, ast.Tuple)) and all(isinstance(e, ast.Name) for e in b.value.elts) for b in binds_):
                    continue
                binds_.sort(key=lambda b: b.lineno)
                if any(isinstance(b, ast.Assign) for b in binds_[1:]):
                    continue
                # all bindings in one block, in a row of that block's statements; every use after the last binding
                blk_of = None
                for bo in ast.walk(fn):
                    for fld_ in ("body", "orelse", "finalbody"):
                        bl = getattr(bo, fld_, None)
                        if isinstance(bl, list) and any(z is binds_[0] for z in bl):
                            blk_of = bl
                if blk_of is None or not all(any(z is b for z in blk_of) for b in binds_):
                    continue
                first, last = binds_[0].lineno, binds_[-1].lineno
                if any(u.lineno <= last for u in uses_):
                    continue
                elts = [e for b in binds_ for e in b.value.elts]
                names_ = {e.id for e in elts}
                if len(names_) != len(elts):
                    continue
                until = max(getattr(u, "end_lineno", u.lineno) or u.lineno for u in uses_)
                if any(isinstance(y, ast.Name) and y.id in names_ and isinstance(y.ctx, (ast.Store, ast.Del)) and first <= y.lineno <= until for y in ast.walk(fn)):
                    continue
                # the whole thing sits inside one enclosing loop body or none: a use in a later iteration of an outer loop sees the lists of
                # that iteration only if the bindings are re-made there too (same block: checked above)
                name_lists[nm] = ast.List(elts=elts, ctx=ast.Load())
                name_lists[nm]._binds = binds_
            for _round in range(3):
                hit = False
                for blk_owner in list(ast.walk(fn)):
                    for fld in ("body", "orelse", "finalbody"):
                        blk = getattr(blk_owner, fld, None)
                        if not (isinstance(blk, list) and blk and isinstance(blk[0], ast.stmt)):
                            continue
                        i = 0
                        while i < len(blk):
                            st = blk[i]
                            rows = None
                            drop_binding = None
                            if isinstance(st, ast.For) and not st.orelse:
                                it = st.iter
                                if isinstance(it, ast.Name) and it.id in name_lists:
                                    it = name_lists[it.id]
                                if isinstance(it, (ast.Tuple, ast.List)) and 1 <= len(it.elts) <= 24 and all(isinstance(e, ast.Name) for e in it.elts) \
                                        and isinstance(st.iter, ast.Name) and not any(isinstance(e, ast.Starred) for e in it.elts):
                                    rows = list(it.elts)
                                elif isinstance(it, (ast.Tuple, ast.List)) and 1 <= len(it.elts) <= 8 and not any(isinstance(e, ast.Starred) for e in it.elts):
                                    rows = list(it.elts)
                                elif isinstance(it, ast.Call) and isinstance(it.func, ast.Name) and it.func.id == "zip" and not it.keywords and len(it.args) >= 2 \
                                        and all(isinstance(a, (ast.Tuple, ast.List)) and not any(isinstance(e, ast.Starred) for e in a.elts) for a in it.args) \
                                        and len({len(a.elts) for a in it.args}) == 1 and 1 <= len(it.args[0].elts) <= 8:
                                    rows = [ast.Tuple(elts=[a.elts[k] for a in it.args], ctx=ast.Load()) for k in range(len(it.args[0].elts))]
                                elif isinstance(it, ast.Call) and isinstance(it.func, ast.Attribute) and it.func.attr == "items" and not it.args and not it.keywords \
                                        and isinstance(it.func.value, ast.Name):
                                    # a local bound once to a dictionary display just for this loop
                                    dn = it.func.value.id
                                    refs = [y for y in ast.walk(fn) if isinstance(y, ast.Name) and y.id == dn]
                                    asg = [y for y in blk[:i] if isinstance(y, ast.Assign) and len(y.targets) == 1 and isinstance(y.targets[0], ast.Name) and y.targets[0].id == dn]
                                    if len(refs) == 2 and len(asg) == 1 and isinstance(asg[0].value, ast.Dict) and 1 <= len(asg[0].value.keys) <= 8 \
                                            and all(isinstance(k, ast.Constant) for k in asg[0].value.keys) and blk[i - 1] is asg[0]:
                                        rows = [ast.Tuple(elts=[k, v], ctx=ast.Load()) for k, v in zip(asg[0].value.keys, asg[0].value.values)]
                                        drop_binding = asg[0]
                            if rows is not None:
                                tv = [y.id for y in ast.walk(st.target) if isinstance(y, ast.Name)]
                                flat = isinstance(st.target, ast.Name) or (isinstance(st.target, (ast.Tuple, ast.List)) and all(isinstance(e, ast.Name) for e in st.target.elts))
                                inner_ctl = any(isinstance(y, (ast.Break, ast.Continue)) for b in st.body for y in ast.walk(b))
                                rebound = any(isinstance(y, ast.Name) and y.id in tv and isinstance(y.ctx, (ast.Store, ast.Del)) for b in st.body for y in ast.walk(b))
                                inside = {id(y) for y in ast.walk(st)}
                                # (another loop that binds the same variable itself reads its own binding, not this one's)
                                for other in ast.walk(fn):
                                    if isinstance(other, (ast.For, ast.comprehension)) and other is not st and \
                                            {y.id for y in ast.walk(other.target) if isinstance(y, ast.Name)} >= set(tv):
                                        inside |= {id(y) for y in ast.walk(other)}
                                for other in ast.walk(fn):
                                    if isinstance(other, (ast.ListComp, ast.SetComp, ast.DictComp, ast.GeneratorExp)) and any(
                                            {y.id for y in ast.walk(g.target) if isinstance(y, ast.Name)} >= set(tv) for g in other.generators):
                                        inside |= {id(y) for y in ast.walk(other)}
                                read_after = any(isinstance(y, ast.Name) and y.id in tv and id(y) not in inside for y in ast.walk(fn))
                                # every element must be usable by value: only names / constants / paths / empty displays are copied
                                def simple(e):
                                    return _pure_path(e) or (isinstance(e, (ast.Dict, ast.List, ast.Tuple)) and not (getattr(e, "keys", None) or getattr(e, "elts", None)))
                                if isinstance(st.target, ast.Name):
                                    cells = [[r] for r in rows]
                                else:
                                    cells = [list(r.elts) if isinstance(r, (ast.Tuple, ast.List)) and len(r.elts) == len(tv) else None for r in rows]
                                if flat and not inner_ctl and not rebound and not read_after and all(c is not None and all(simple(e) for e in c) for c in cells):
                                    seq = []
                                    for c in cells:
                                        b = dict(zip(tv, c))

                                        class S(ast.NodeTransformer):
                                            def visit_Name(self, n):
                                                if n.id in b and isinstance(n.ctx, ast.Load):
                                                    return ast.copy_location(_clone(b[n.id]), n)
                                                return n
                                        seq += [S().visit(_clone(x)) for x in st.body]
                                    for k, z in enumerate(seq):
                                        z._inl = getattr(st, "_inl", 0)
                                    if drop_binding is not None:
                                        blk[i - 1:i + 1] = seq
                                        i -= 1
                                    else:
                                        blk[i:i + 1] = seq
                                    i += len(seq)
                                    done += 1
                                    hit = True
                                    continue
                            i += 1
                if not hit:
                    break
            for nm, lst in name_lists.items():
                if not any(isinstance(y, ast.Name) and y.id == nm and isinstance(y.ctx, ast.Load) for y in ast.walk(fn)):
                    for bo in ast.walk(fn):
                        for fld_ in ("body", "orelse", "finalbody"):
                            bl = getattr(bo, fld_, None)
                            if isinstance(bl, list) and any(any(z is b for b in lst._binds) for z in bl):
                                bl[:] = [z for z in bl if not any(z is b for b in lst._binds)] or [ast.Pass()]
            if done:
                ast.fix_missing_locations(fn)
                notes.append("loops over literal sequences written out in %s: %d" % (q, done))
    return notes


def fold_none_tests_on_containers(trees, touched_only=None):
    """`x is None` / `x is not None` where the local x (no parameter) is only ever bound to a display, a comprehension or a constant other
    than None: decided (such tests arrive with written-out helpers whose optional argument was given)"""
    notes = []
    for mod, t in trees.items():
        for scope, owner, fn in list(scopes(t)):
            params = {a.arg for a in fn.args.posonlyargs + fn.args.args + fn.args.kwonlyargs} | ({fn.args.vararg.arg} if fn.args.vararg else set()) | \
                ({fn.args.kwarg.arg} if fn.args.kwarg else set())
            tests = [c for c in ast.walk(fn) if isinstance(c, ast.Compare) and len(c.ops) == 1 and isinstance(c.ops[0], (ast.Is, ast.IsNot)) and isinstance(c.left, ast.Name)
                     and isinstance(c.comparators[0], ast.Constant) and c.comparators[0].value is None and c.left.id not in params]
            if not tests:
                continue
            never_none = {}
            for nm in {c.left.id for c in tests}:
                stores = [y for y in ast.walk(fn) if isinstance(y, ast.Name) and y.id == nm and isinstance(y.ctx, (ast.Store, ast.Del))]
                asg = [a for a in ast.walk(fn) if isinstance(a, ast.Assign) and len(a.targets) == 1 and isinstance(a.targets[0], ast.Name) and a.targets[0].id == nm]
                aug = [a for a in ast.walk(fn) if isinstance(a, ast.AugAssign) and isinstance(a.target, ast.Name) and a.target.id == nm and isinstance(a.op, ast.Add)
                       and isinstance(a.value, (ast.List, ast.ListComp))]
                if stores and asg and len(asg) + len(aug) == len(stores) and all(
                        isinstance(a.value, (ast.List, ast.Dict, ast.Tuple, ast.Set, ast.ListComp, ast.DictComp, ast.SetComp)) or
                        (isinstance(a.value, ast.Constant) and a.value.value is not None) for a in asg) \
                        and not any(isinstance(g, (ast.Global, ast.Nonlocal)) and nm in g.names for g in ast.walk(fn)):
                    never_none[nm] = True
            if not never_none:
                continue
            hit = [0]

            class F(ast.NodeTransformer):
                def visit_Compare(self, c):
                    self.generic_visit(c)
                    if any(c is x for x in tests) and c.left.id in never_none:
                        hit[0] += 1
                        return ast.copy_location(ast.Constant(value=isinstance(c.ops[0], ast.IsNot)), c)
                    return c
            fn.body = [F().visit(x) for x in fn.body]
            if hit[0]:
                fn.body = [_Fold().visit(x) for x in fn.body]
                fn.body = _fold_block(fn.body) or [ast.Pass()]
                ast.fix_missing_locations(fn)
                notes.append("None tests on locals that hold containers decided in %s" % fn.name)
    return notes


def enumerate_index_only(trees, inv):
    """`for i, _ in enumerate(X)` whose element variable is never read is `for i in range(len(X))` (loops and comprehensions), in
    functions whose inventory version does not use enumerate"""
    notes = []
    for mod, t in trees.items():
        for scope, owner, fn in list(scopes(t)):
            q = (scope + "." if scope else "") + fn.name
            toks = inv.get("functions", {}).get(mod, {}).get(q)
            if toks is None or "N:enumerate" in toks:
                continue
            n = 0

            def fix(target, it, readers):
                if isinstance(target, ast.Tuple) and len(target.elts) == 2 and all(isinstance(e, ast.Name) for e in target.elts) \
                        and isinstance(it, ast.Call) and isinstance(it.func, ast.Name) and it.func.id == "enumerate" and len(it.args) == 1 and not it.keywords \
                        and _pure_path(it.args[0]):
                    el = target.elts[1].id
                    if not any(isinstance(y, ast.Name) and y.id == el and isinstance(y.ctx, ast.Load) for r in readers for y in ast.walk(r)):
                        new_it = ast.copy_location(ast.Call(func=ast.Name(id="range", ctx=ast.Load()), args=[
                            ast.Call(func=ast.Name(id="len", ctx=ast.Load()), args=[it.args[0]], keywords=[])], keywords=[]), it)
                        return ast.copy_location(ast.Name(id=target.elts[0].id, ctx=ast.Store()), target), new_it
                return None
            # `for i, x in enumerate(S)` / `enumerate(S[a:], start=a)` where the inventory's version walks indices: `for i in range(a, len(S))`
            # with S[i] for x (S a path the body neither re-binds nor changes in place, x not re-bound, neither read after the loop)
            if "N:range" in toks:
                for x in ast.walk(fn):
                    if not (isinstance(x, ast.For) and isinstance(x.target, ast.Tuple) and len(x.target.elts) == 2 and all(isinstance(e, ast.Name) for e in x.target.elts)
                            and isinstance(x.iter, ast.Call) and isinstance(x.iter.func, ast.Name) and x.iter.func.id == "enumerate" and len(x.iter.args) == 1):
                        continue
                    seq, start = x.iter.args[0], 0
                    kws = {k.arg: k.value for k in x.iter.keywords}
                    if set(kws) - {"start"}:
                        continue
                    if "start" in kws:
                        if not (isinstance(kws["start"], ast.Constant) and type(kws["start"].value) is int):
                            continue
                        start = kws["start"].value
                    lo = 0
                    if isinstance(seq, ast.Subscript) and isinstance(seq.slice, ast.Slice) and seq.slice.upper is None and seq.slice.step is None \
                            and isinstance(seq.slice.lower, ast.Constant) and type(seq.slice.lower.value) is int and seq.slice.lower.value >= 0:
                        lo, seq = seq.slice.lower.value, seq.value
                    if lo != start or not _pure_path(seq) or isinstance(seq, ast.Constant):
                        continue
                    iv, ev = x.target.elts[0].id, x.target.elts[1].id
                    roots = {y.id for y in ast.walk(seq) if isinstance(y, ast.Name)}
                    inside = {id(y) for y in ast.walk(x)}
                    if any(isinstance(y, ast.Name) and y.id in ({iv, ev} | roots) and isinstance(y.ctx, (ast.Store, ast.Del)) for b in x.body for y in ast.walk(b)):
                        continue
                    if any(isinstance(y, ast.Name) and y.id in (iv, ev) and id(y) not in inside for y in ast.walk(fn)):
                        continue
                    if _touches(x.body, roots - {"self"}, False) or not any(isinstance(y, ast.Name) and y.id == ev and isinstance(y.ctx, ast.Load) for b in x.body for y in ast.walk(b)):
                        continue

                    class SubEl(ast.NodeTransformer):
                        def visit_Name(self, n_):
                            if n_.id == ev and isinstance(n_.ctx, ast.Load):
                                return ast.copy_location(ast.Subscript(value=_clone(seq), slice=ast.Name(id=iv, ctx=ast.Load()), ctx=ast.Load()), n_)
                            return n_
                    x.body = [SubEl().visit(b) for b in x.body]
                    x.target = ast.copy_location(ast.Name(id=iv, ctx=ast.Store()), x.target)
                    rargs = ([ast.Constant(value=start)] if start else []) + [ast.Call(func=ast.Name(id="len", ctx=ast.Load()), args=[_clone(seq)], keywords=[])]
                    x.iter = ast.copy_location(ast.Call(func=ast.Name(id="range", ctx=ast.Load()), args=rargs, keywords=[]), x.iter)
                    n += 1
            for x in ast.walk(fn):
                if isinstance(x, ast.For):
                    after = [y for y in ast.walk(fn) if isinstance(y, ast.Name)]
                    r = fix(x.target, x.iter, x.body + x.orelse)
                    if r and isinstance(x.target, ast.Tuple):
                        el = x.target.elts[1].id
                        inside = {id(y) for y in ast.walk(x)}
                        if any(y.id == el and isinstance(y.ctx, ast.Load) and id(y) not in inside for y in after):
                            continue
                        x.target, x.iter = r
                        n += 1
                elif isinstance(x, (ast.ListComp, ast.SetComp, ast.GeneratorExp, ast.DictComp)):
                    for g in x.generators:
                        readers = ([x.key, x.value] if isinstance(x, ast.DictComp) else [x.elt]) + list(g.ifs) + [h.iter for h in x.generators if h is not g] + \
                            [c for h in x.generators if h is not g for c in h.ifs]
                        r = fix(g.target, g.iter, readers)
                        if r:
                            g.target, g.iter = r
                            n += 1
            if n:
                ast.fix_missing_locations(fn)
                notes.append("enumerate() used for its index only read as range(len()) in %s" % q)
    return notes


def truth_of_filtered_literals(trees, inv):
    """`missing = [k for k in ("a", "b", z) if k not in D]` ... `if missing:`: a new local bound once to a comprehension that filters a short
    literal sequence is, where only its truth is asked, the disjunction of the filter over the elements"""
    notes = []
    for mod, t in trees.items():
        for scope, owner, fn in list(scopes(t)):
            q = (scope + "." if scope else "") + fn.name
            new = genuinely_new_locals(fn, mod, q, inv)
            if not new:
                continue
            stored = {}
            for y in ast.walk(fn):
                if isinstance(y, ast.Name) and isinstance(y.ctx, (ast.Store, ast.Del)):
                    stored[y.id] = stored.get(y.id, 0) + 1
            done = []
            for a in [x for x in ast.walk(fn) if isinstance(x, ast.Assign)]:
                if not (len(a.targets) == 1 and isinstance(a.targets[0], ast.Name) and a.targets[0].id in new and stored.get(a.targets[0].id) == 1
                        and isinstance(a.value, ast.ListComp) and len(a.value.generators) == 1):
                    continue
                g = a.value.generators[0]
                if not (isinstance(g.target, ast.Name) and isinstance(g.iter, (ast.Tuple, ast.List)) and 1 <= len(g.iter.elts) <= 8 and g.ifs
                        and all(_pure_path(e) for e in g.iter.elts) and all(_effect_free(c) for c in g.ifs)):
                    continue
                free = {y.id for c in g.ifs for y in ast.walk(c) if isinstance(y, ast.Name)} | {y.id for e in g.iter.elts for y in ast.walk(e) if isinstance(y, ast.Name)}
                free.discard(g.target.id)
                if any(stored.get(f, 0) > 0 for f in free):
                    continue
                nm = a.targets[0].id
                terms = []
                for e in g.iter.elts:
                    class S(ast.NodeTransformer):
                        def visit_Name(self, n):
                            if n.id == g.target.id and isinstance(n.ctx, ast.Load):
                                return ast.copy_location(_clone(e), n)
                            return n
                    cs = [S().visit(_clone(c)) for c in g.ifs]
                    terms.append(cs[0] if len(cs) == 1 else ast.BoolOp(op=ast.And(), values=cs))
                disj = terms[0] if len(terms) == 1 else ast.BoolOp(op=ast.Or(), values=terms)
                hit = 0
                for x in ast.walk(fn):
                    if isinstance(x, (ast.If, ast.While, ast.IfExp)):
                        if isinstance(x.test, ast.Name) and x.test.id == nm:
                            x.test = ast.copy_location(_clone(disj), x.test)
                            hit += 1
                        elif isinstance(x.test, ast.UnaryOp) and isinstance(x.test.op, ast.Not) and isinstance(x.test.operand, ast.Name) and x.test.operand.id == nm:
                            x.test.operand = ast.copy_location(_clone(disj), x.test.operand)
                            hit += 1
                if hit:
                    done.append(nm)
            if done:
                ast.fix_missing_locations(fn)
                notes.append("truth of a filtered literal sequence written as the disjunction it is in %s: %s" % (q, ", ".join(done)))
    return notes


def drop_guards_of_the_lookup_that_follows(trees, inv):
    """`if k not in D: raise KeyError(..)` directly before a statement that evaluates `D[k]` unconditionally says (with a better message) what
    the lookup says itself: the guard is dropped.  Only in functions the inventory does not know or that did not have the guard."""
    notes = []
    for mod, t in trees.items():
        for scope, owner, fn in list(scopes(t)):
            n = 0
            q = (scope + "." if scope else "") + fn.name
            if "N:KeyError" in inv.get("functions", {}).get(mod, {}).get(q, ()):
                continue        # a function that raised KeyError itself in the inventory keeps its guards (the rules read them there)
            for blk_owner in list(ast.walk(fn)):
                for fld in ("body", "orelse", "finalbody"):
                    blk = getattr(blk_owner, fld, None)
                    if not (isinstance(blk, list) and blk and isinstance(blk[0], ast.stmt)):
                        continue
                    i = 0
                    while i + 1 < len(blk):
                        st, nxt = blk[i], blk[i + 1]
                        hit = False
                        if isinstance(st, ast.If) and not st.orelse and len(st.body) == 1 and isinstance(st.body[0], ast.Raise) and st.body[0].exc is not None:
                            exc = st.body[0].exc
                            cls_ = exc.func if isinstance(exc, ast.Call) else exc
                            tst = st.test
                            neg = False
                            if isinstance(tst, ast.UnaryOp) and isinstance(tst.op, ast.Not):
                                tst, neg = tst.operand, True
                            if isinstance(cls_, ast.Name) and cls_.id == "KeyError" and isinstance(tst, ast.Compare) and len(tst.ops) == 1 \
                                    and isinstance(tst.ops[0], ast.In if neg else ast.NotIn) and _pure_path(tst.left) and _pure_path(tst.comparators[0]) \
                                    and (not isinstance(exc, ast.Call) or all(_effect_free(a) for a in exc.args)):
                                want = ast.dump(ast.Subscript(value=tst.comparators[0], slice=tst.left, ctx=ast.Load()))
                                # statements between the guard and the lookup that only bind effect-free values (and none of the names the
                                # guard reads) are stepped over
                                gnames = {y.id for y in ast.walk(tst) if isinstance(y, ast.Name)}
                                j = i + 1
                                while j + 1 < len(blk) and isinstance(blk[j], ast.Assign) and _effect_free(blk[j].value) and ast.dump(blk[j].value).find(want) < 0 \
                                        and not any(isinstance(y, ast.Name) and y.id in gnames and isinstance(y.ctx, ast.Store) for y in ast.walk(blk[j])) \
                                        and all(isinstance(t_, ast.Name) for t_ in blk[j].targets):
                                    j += 1
                                nxt = blk[j]
                                val = nxt.value if isinstance(nxt, (ast.Return, ast.Assign, ast.Expr)) else None
                                if val is not None:
                                    if ast.dump(val) == want:
                                        hit = True
                                    elif isinstance(val, ast.Call) and not any(isinstance(a, ast.Starred) for a in val.args) and _pure_path(val.func) \
                                            and any(ast.dump(a) == want for a in val.args) and all(_effect_free(a) for a in val.args) and all(_effect_free(k.value) for k in val.keywords):
                                        hit = True
                        if hit:
                            del blk[i]
                            n += 1
                            continue
                        i += 1
            if n:
                notes.append("KeyError guard of the lookup that follows it dropped in %s" % fn.name)
    return notes


def cycles_to_indices(trees, inv):
    """`c = itertools.cycle(L)` ... `x = next(c)`: a new local that is only ever advanced with next() as a whole statement's value is the
    round-robin index it hides: `c_i = 0` where c was made, `x = L[c_i]; c_i = (c_i + 1) % len(L)` where it is advanced.  L must be a
    local list the function neither re-binds nor changes in place after c was made (cycle() would have kept its own copy)."""
    notes = []
    for mod, t in trees.items():
        for scope, owner, fn in list(scopes(t)):
            q = (scope + "." if scope else "") + fn.name
            new = genuinely_new_locals(fn, mod, q, inv)
            if not new:
                continue
            for nm in sorted(new):
                asg = [x for x in ast.walk(fn) if isinstance(x, ast.Assign) and len(x.targets) == 1 and isinstance(x.targets[0], ast.Name) and x.targets[0].id == nm]
                refs = [y for y in ast.walk(fn) if isinstance(y, ast.Name) and y.id == nm]
                if len(asg) != 1:
                    continue
                v = asg[0].value
                if not (isinstance(v, ast.Call) and ((isinstance(v.func, ast.Attribute) and v.func.attr == "cycle" and isinstance(v.func.value, ast.Name) and v.func.value.id == "itertools")
                                                     or (isinstance(v.func, ast.Name) and v.func.id == "cycle")) and len(v.args) == 1 and not v.keywords and isinstance(v.args[0], ast.Name)):
                    continue
                L = v.args[0].id
                nexts = [x for x in ast.walk(fn) if isinstance(x, ast.Assign) and len(x.targets) == 1 and isinstance(x.targets[0], ast.Name) and isinstance(x.value, ast.Call)
                         and isinstance(x.value.func, ast.Name) and x.value.func.id == "next" and len(x.value.args) == 1 and isinstance(x.value.args[0], ast.Name) and x.value.args[0].id == nm]
                if not nexts or len(refs) != 1 + len(nexts):
                    continue
                # L: not re-bound / mutated from the cycle's creation on
                later = [y for y in ast.walk(fn) if getattr(y, "lineno", 0) >= asg[0].lineno]
                if any(isinstance(y, ast.Name) and y.id == L and isinstance(y.ctx, (ast.Store, ast.Del)) for y in later):
                    continue
                if any(isinstance(y, ast.Call) and isinstance(y.func, ast.Attribute) and isinstance(y.func.value, ast.Name) and y.func.value.id == L and y.func.attr in MUTATORS for y in later):
                    continue
                if any(isinstance(y, ast.Subscript) and isinstance(y.value, ast.Name) and y.value.id == L and isinstance(y.ctx, (ast.Store, ast.Del)) for y in later):
                    continue
                idx = nm + "_i"
                if idx in _bound_names(fn):
                    continue
                asg[0].value = ast.copy_location(ast.Constant(value=0), v)
                asg[0].targets[0].id = idx
                for blk_owner in list(ast.walk(fn)):
                    for fld in ("body", "orelse", "finalbody"):
                        blk = getattr(blk_owner, fld, None)
                        if not (isinstance(blk, list) and blk and isinstance(blk[0], ast.stmt)):
                            continue
                        i = 0
                        while i < len(blk):
                            st = blk[i]
                            if any(st is x for x in nexts):
                                st.value = ast.copy_location(ast.Subscript(value=ast.Name(id=L, ctx=ast.Load()), slice=ast.Name(id=idx, ctx=ast.Load()), ctx=ast.Load()), st.value)
                                adv = ast.parse("%s = (%s + 1) %% len(%s)" % (idx, idx, L)).body[0]
                                for y in ast.walk(adv):
                                    if hasattr(y, "lineno") or isinstance(y, (ast.expr, ast.stmt)):
                                        y.lineno = y.end_lineno = st.lineno
                                        y.col_offset = y.end_col_offset = 0
                                blk.insert(i + 1, adv)
                                i += 1
                            i += 1
                ast.fix_missing_locations(fn)
                notes.append("itertools.cycle read as the round-robin index it is in %s: %s" % (q, nm))
    return notes


def fromkeys_to_dictcomps(trees, inv):
    """`d = dict.fromkeys(IT[, V])` is `{k: V for k in IT}` (first-seen order, duplicates collapse): written as the comprehension so
    that the comprehension passes below see it.  Only as the whole right-hand side of a local's assignment."""
    notes = []
    for mod, t in trees.items():
        for scope, owner, fn in list(scopes(t)):
            q = (scope + "." if scope else "") + fn.name
            for st in ast.walk(fn):
                if not (isinstance(st, ast.Assign) and len(st.targets) == 1 and isinstance(st.targets[0], ast.Name)):
                    continue
                c = st.value
                if not (isinstance(c, ast.Call) and isinstance(c.func, ast.Attribute) and c.func.attr == "fromkeys" and isinstance(c.func.value, ast.Name)
                        and c.func.value.id == "dict" and not c.keywords and 1 <= len(c.args) <= 2):
                    continue
                val = c.args[1] if len(c.args) == 2 else ast.Constant(value=None)
                if not isinstance(val, ast.Constant):
                    continue
                it = c.args[0]
                if isinstance(it, (ast.GeneratorExp, ast.ListComp)) and len(it.generators) == 1:
                    dc = ast.DictComp(key=it.elt, value=val, generators=it.generators)
                else:
                    k = "_k_%s" % st.targets[0].id
                    dc = ast.DictComp(key=ast.Name(id=k, ctx=ast.Load()), value=val,
                                      generators=[ast.comprehension(target=ast.Name(id=k, ctx=ast.Store()), iter=it, ifs=[], is_async=0)])
                ast.copy_location(dc, c)
                st.value = dc
                ast.fix_missing_locations(st)
                notes.append("dict.fromkeys read as the dictionary comprehension it abbreviates in %s: %s" % (q, st.targets[0].id))
    return notes


def next_scans_to_loops(trees, inv):
    """`r = next((E for T in IT if C), D)` is the first-match scan `r = D; for T in IT: if C: r = E; break`"""
    notes = []
    for mod, t in trees.items():
        for scope, owner, fn in list(scopes(t)):
            q = (scope + "." if scope else "") + fn.name
            if "GeneratorExp" in inv.get("functions", {}).get(mod, {}).get(q, ["GeneratorExp"]):
                continue
            for blk_owner in list(ast.walk(fn)):
                for fld in ("body", "orelse", "finalbody"):
                    blk = getattr(blk_owner, fld, None)
                    if not (isinstance(blk, list) and blk and isinstance(blk[0], ast.stmt)):
                        continue
                    i = 0
                    while i < len(blk):
                        st = blk[i]
                        v = getattr(st, "value", None)
                        # `g = (E for ..)` directly before `r = next(g, D)`, g used nowhere else: the generator written into the call
                        if i > 0 and isinstance(st, ast.Assign) and isinstance(v, ast.Call) and isinstance(v.func, ast.Name) and v.func.id == "next" and len(v.args) == 2 \
                                and isinstance(v.args[0], ast.Name):
                            prev = blk[i - 1]
                            gname = v.args[0].id
                            if isinstance(prev, ast.Assign) and len(prev.targets) == 1 and isinstance(prev.targets[0], ast.Name) and prev.targets[0].id == gname \
                                    and isinstance(prev.value, ast.GeneratorExp) and sum(1 for y in ast.walk(fn) if isinstance(y, ast.Name) and y.id == gname) == 2:
                                v.args[0] = prev.value
                                del blk[i - 1]
                                i -= 1
                                st = blk[i]
                                v = st.value
                        if isinstance(st, ast.Assign) and len(st.targets) == 1 and isinstance(st.targets[0], ast.Name) and isinstance(v, ast.Call) \
                                and isinstance(v.func, ast.Name) and v.func.id == "next" and len(v.args) == 2 and not v.keywords \
                                and isinstance(v.args[0], ast.GeneratorExp) and len(v.args[0].generators) == 1 and _effect_free(v.args[1]):
                            g = v.args[0].generators[0]
                            r = st.targets[0].id
                            if r in {y.id for y in ast.walk(v.args[0]) if isinstance(y, ast.Name)}:
                                i += 1
                                continue
                            hit = [ast.Assign(targets=[ast.Name(id=r, ctx=ast.Store())], value=v.args[0].elt), ast.Break()]
                            body = hit
                            for c in reversed(g.ifs):
                                body = [ast.If(test=c, body=body, orelse=[])]
                            tgt = _clone(g.target)
                            for y in ast.walk(tgt):
                                if isinstance(y, (ast.Name, ast.Tuple, ast.List)):
                                    y.ctx = ast.Store()
                            init = ast.Assign(targets=[ast.Name(id=r, ctx=ast.Store())], value=v.args[1])
                            loop = ast.For(target=tgt, iter=g.iter, body=body, orelse=[])
                            for nnode in (init, loop):
                                ast.copy_location(nnode, st)
                                for y in ast.walk(nnode):
                                    if not hasattr(y, "lineno"):
                                        ast.copy_location(y, st)
                                ast.fix_missing_locations(nnode)
                            blk[i:i + 1] = [init, loop]
                            notes.append("next(...) scan read as a loop in %s" % q)
                            i += 2
                            continue
                        i += 1
    return notes


def unwrap_bool_in_tests(tree):
    """`if bool(x):` is `if x:` - also under `not`, `and`, `or`"""
    def strip(e):
        if isinstance(e, ast.Call) and isinstance(e.func, ast.Name) and e.func.id == "bool" and len(e.args) == 1 and not e.keywords:
            return strip(e.args[0])
        if isinstance(e, ast.UnaryOp) and isinstance(e.op, ast.Not):
            e.operand = strip(e.operand)
        elif isinstance(e, ast.BoolOp):
            e.values = [strip(v) for v in e.values]
        return e
    for n in ast.walk(tree):
        if isinstance(n, (ast.If, ast.While, ast.IfExp)):
            n.test = strip(n.test)


# ------------------------------------------------------------------------------------------------ driver
def canonicalise(trees, specialise=True):
    """in place; -> notes (what was rewritten), for the evidence file"""
    inv = inventory()
    notes = []
    if inv:
        notes += erase_new_namedtuples(trees, inv)
    for mod, t in trees.items():
        strip_diagnostics(t)
    if not inv:
        return notes
    propagate_new_constants(trees, inv)
    if specialise:
        notes += specialise_new_parameters(trees, inv)
    fren, news = detect_function_renames(trees, inv)
    aren = detect_attr_renames(trees, inv)
    applied = apply_renames(trees, fren, aren)
    for k, v in sorted(applied.items()):
        notes.append("renamed back: %s -> %s" % (k, v))
    for k, v in sorted(rename_registry_keys(trees, inv).items()):
        notes.append("registry key renamed back: %s -> %s" % (k, v))
    if applied:
        # the set of unknown functions shrinks by the renamed ones
        _, news = detect_function_renames(trees, inv)
    notes += new_context_managers_to_try(trees, inv)
    notes += enumerate_index_only(trees, inv)
    notes += truth_of_filtered_literals(trees, inv)
    notes += cycles_to_indices(trees, inv)
    notes += drop_guards_of_the_lookup_that_follows(trees, inv)
    notes += fromkeys_to_dictcomps(trees, inv)
    notes += listcomps_to_loops(trees, inv)
    scans = next_scans_to_loops(trees, inv)
    notes += scans
    if scans:
        notes += enumerate_index_only(trees, inv)
    done = inline_new_helpers(trees, inv, news)
    for c, h in done:
        notes.append("inlined new helper %s into %s" % (h, c))
    if done:
        notes += drop_guards_of_the_lookup_that_follows(trees, inv)
        notes += fold_none_tests_on_containers(trees)
        notes += enumerate_index_only(trees, inv)
    notes += split_new_tuple_locals(trees, inv)
    notes += unroll_new_literal_loops(trees, inv)
    notes += inline_new_aliases(trees, inv)
    notes += inline_new_values(trees, inv)
    if notes:
        for t in trees.values():
            unwrap_bool_in_tests(t)
    for t in trees.values():
        ast.fix_missing_locations(t)
    return notes
