"""Constructor layer: path summaries of the eleven __init__ methods, the interpolator classes and the table
flattening idiom (serves C10, C11)."""
import ast
from .core import AnalysisError, KINDS
from .terms import RF, lift, Unsupported
from .guards import Ctx, A, Not, And, Or, atoms_of, ev, literals, show_f
from .summ import Summarizer, State, Sym, ListV, DictV, BoolV, vkey, show_value, to_num, signed
from .sysrules import is_name

MAGNITUDE = {"rs", "rt", "iq", "iis", "ig", "pwr", "pwrs", "ii", "vdrop"}
TABLE_PARAMS = {"eff", "vdrop", "ig", "iq"}


class CtorHooks:
    """parameters are signed reals (sign x magnitude) unless a dict / list branch says otherwise"""

    def __init__(self, model, kind):
        self.model, self.kind = model, kind
        self.flat = []

    def name(self, id):
        return None

    def attr(self, base, attr):
        if isinstance(base, Sym) and base.key == ("name", "self") and attr == "_params":
            return Sym(("PARAMS",))
        return None

    def call(self, sm, node, fname, args, kwargs, st):
        if fname == "isinstance" and len(args) == 2:
            t = args[1]
            names = []
            if isinstance(t, Sym) and t.key[0] == "name":
                names = [t.key[1]]
            elif isinstance(t, tuple):
                names = [x.key[1] for x in t if isinstance(x, Sym) and x.key[0] == "name"]
            return BoolV(A(("ISA", vkey(self.root(args[0])), tuple(sorted(names)))))
        if fname in ("_Interp0d", "_Interp1d", "_Interp2d"):
            st.events.append(("interp", fname, tuple(args), node.lineno))
            return Sym(("interp", fname, tuple(vkey(a) for a in args)))
        if fname in ("_check_interp", "_check_limits"):
            st.events.append(("check", fname, tuple(args), node.lineno))
            return Sym(("call", fname, tuple(vkey(a) for a in args)))
        if fname in ("np.min", "np.max", "np.amin", "np.amax", "min", "max") and len(args) == 1:
            return RF.atom(("fr", Sym(("call", fname.replace("amin", "min").replace("amax", "max"), (vkey(args[0]),)))))
        if fname == "warn":
            return Sym(("warn",))
        from .effects import quantifier_value
        q = quantifier_value(sm, node, fname, st)
        if q is not None:
            return q
        return None

    def root(self, v):
        """a signed scalar built from parameter p is 'p' for isinstance purposes"""
        if isinstance(v, RF):
            ats = [a for a in v.atoms() if a[0] in ("s", "m")]
            if ats:
                return Sym(("name", ats[0][1]))
        return v

    def subscript(self, base, idx):
        # param["key"] of a table parameter
        if isinstance(base, RF):
            r = self.root(base)
            if isinstance(r, Sym):
                return Sym(("sub", r, vkey(idx)))
        return None

    def truthy(self, v):
        return None

    def inline(self, fname):
        """module-level helpers a constructor delegates to (validators are modelled by the call hook, which comes first)"""
        if fname.isidentifier() and ("components", fname) in self.model.funcs and not fname.startswith("_check") and not fname.startswith("_get"):
            from .core import inline_pure_aliases
            return inline_pure_aliases(self.model.funcs[("components", fname)]), False
        return None

    def table_params(self):
        """parameters of this constructor that may be given as a table: those tested with isinstance(p, dict)"""
        if not hasattr(self, "_tp"):
            owner, fn = self.model.method(self.kind, "__init__")
            tested = set()
            for c in ast.walk(fn):
                if isinstance(c, ast.Call) and isinstance(c.func, ast.Name) and c.func.id == "isinstance" and len(c.args) == 2 and isinstance(c.args[0], ast.Name) \
                        and "dict" in ast.unparse(c.args[1]):
                    tested.add(c.args[0].id)
            params = {a.arg for a in fn.args.posonlyargs + fn.args.args + fn.args.kwonlyargs}
            # a local that is a plain copy of a parameter (igc = iq) stands for that parameter
            for s in ast.walk(fn):
                if isinstance(s, ast.Assign) and len(s.targets) == 1 and isinstance(s.targets[0], ast.Name) and s.targets[0].id in tested and isinstance(s.value, ast.Name):
                    tested.add(s.value.id)
            self._tp = tested & params
        return self._tp

    def truthy_first(self, sm, v):
        """bare truthiness of a parameter that may be a table: a number is true when non-zero, a dict when non-empty"""
        if isinstance(v, RF):
            for p in self.table_params():
                if v == signed(p):
                    isd = A(("ISA", vkey(Sym(("name", p))), ("dict",)))
                    from .guards import f_zero
                    return Or(And(isd, A(("NONEMPTY", p))), And(Not(isd), Not(f_zero(v, sm.ctx))))
        return None

    def comprehension(self, sm, n, st):
        if isinstance(n, (ast.ListComp, ast.GeneratorExp)) and len(n.generators) == 1 and isinstance(n.generators[0].target, ast.Name) and not n.generators[0].ifs:
            g = n.generators[0]
            it = sm.expr(g.iter, st)
            s2 = st.fork()
            s2.guards = list(st.guards)
            s2.env[g.target.id] = Sym(("bound",))
            elt = sm.expr(n.elt, s2)
            return Sym(("listcomp", vkey(elt), vkey(self.root(it))))
        return None

    def loop(self, sm, node, st):
        """the table flattening loop is recorded as an idiom instance, its results become opaque flats; any other loop
        (a validation loop over list items, say) is read like everywhere else: one symbolic iteration"""
        it_txt = ast.unparse(node.iter).replace('"', "'") if isinstance(node, ast.For) else ""
        if not it_txt.endswith("['vi']"):
            from .effects import EditHooks
            return EditHooks.loop(self, sm, node, st)
        info = flatten_idiom(node)
        if "table" in info:
            info["root"] = self.root(st.env.get(info["table"]))
        st.events.append(("flatten", info, node.lineno))
        for x in ast.walk(node):
            if isinstance(x, ast.Name) and isinstance(x.ctx, ast.Store):
                st.env[x.id] = Sym(("flat", x.id, node.lineno))
        return [(st, None)]


def flatten_idiom(loop):
    """for v in T["vi"]: cur += T["io"]; volt += len(T["io"]) * [v]; z = np.asarray(T[K]).reshape(1, -1)[0].tolist()
    -> dict(table, zkey, cur, volt, z) or dict(deviant=<reason>)"""
    if not isinstance(loop, ast.For) or not isinstance(loop.target, ast.Name):
        return {"deviant": "not a for loop over a name"}
    it = loop.iter
    if not (isinstance(it, ast.Subscript) and isinstance(it.value, ast.Name) and isinstance(it.slice, ast.Constant) and it.slice.value == "vi"):
        return {"deviant": "does not iterate over T['vi'] in the given order: %s" % ast.unparse(it)}
    T = it.value.id
    v = loop.target.id
    out = {"table": T}
    for s in loop.body:
        src = ast.unparse(s).replace('"', "'").replace(" ", "")
        if isinstance(s, ast.AugAssign) and isinstance(s.target, ast.Name) and src == "%s+=%s['io']" % (s.target.id, T):
            out["cur"] = s.target.id
        elif isinstance(s, ast.AugAssign) and isinstance(s.target, ast.Name) and src in ("%s+=len(%s['io'])*[%s]" % (s.target.id, T, v), "%s+=[%s]*len(%s['io'])" % (s.target.id, v, T)):
            out["volt"] = s.target.id
        elif isinstance(s, ast.Assign) and isinstance(s.targets[0], ast.Name):
            t = s.targets[0].id
            import re
            m = re.fullmatch(r"%s=np\.asarray\(%s\['([a-z]+)'\]\)\.reshape\(1,-1\)\[0\]\.tolist\(\)" % (re.escape(t), re.escape(T)), src)
            m2 = re.fullmatch(r"%s=np\.asarray\(%s\['([a-z]+)'\]\)\.flatten\(\)\.tolist\(\)" % (re.escape(t), re.escape(T)), src)
            m3 = re.fullmatch(r"%s=np\.ravel\(%s\['([a-z]+)'\]\)\.tolist\(\)" % (re.escape(t), re.escape(T)), src)
            mm = m or m2 or m3
            if mm:
                out["z"], out["zkey"] = t, mm.group(1)
            else:
                return {"deviant": "unrecognised statement in the flattening loop: %s" % ast.unparse(s)}
        else:
            return {"deviant": "unrecognised statement in the flattening loop: %s" % ast.unparse(s)}
    for k in ("cur", "volt"):
        if k not in out:
            return {"deviant": "flattening loop lacks the %s part" % k}
    if "z" not in out:
        out["z"], out["zkey"] = None, None      # the (loop-invariant) value list may be built next to the loop
    return out


def ctor_args(fn):
    env = {"self": Sym(("name", "self"))}
    for a in fn.args.posonlyargs + fn.args.args + fn.args.kwonlyargs:
        if a.arg in ("self",):
            continue
        if a.arg in ("name", "limits", "loss"):
            env[a.arg] = Sym(("name", a.arg))
        else:
            env[a.arg] = signed(a.arg)
    return env


def ctor_paths(model, kind):
    cache = model.__dict__.setdefault("_ctor_paths", {})
    if kind in cache:
        return cache[kind]
    owner, fn = model.method(kind, "__init__")
    from .core import inline_pure_aliases
    fn = inline_pure_aliases(fn)      # io_axis = eff["io"] ... len(io_axis): the idiom matcher reads one spelling
    hooks = CtorHooks(model, kind)
    sm = Summarizer(hooks, Ctx())
    try:
        leaves = sm.summarize(fn, ctor_args(fn))
    except Unsupported as e:
        raise AnalysisError("%s.__init__: %s" % (kind, e))
    cache[kind] = (owner, fn, leaves)
    return cache[kind]


def final_params(leaf):
    """last value stored into self._params[k] on this path"""
    out = {}
    for e in leaf.events:
        if e[0] == "store" and e[1][0] == "sub" and e[1][1] == Sym(("PARAMS",)) and isinstance(e[1][2], str):
            out[e[1][2]] = (e[2], e[3])
    return out


def value_roots(v):
    """constructor parameters a value is built from"""
    out = set()
    if isinstance(v, RF):
        for a in v.atoms():
            if a[0] in ("s", "m", "nn", "fr") and isinstance(a[1], str):
                out.add(a[1])
            else:
                out |= value_roots(a)
    elif isinstance(v, Sym):
        out |= value_roots(v.key)
    elif isinstance(v, (tuple, list)):
        if len(v) == 2 and v[0] == "name" and isinstance(v[1], str):
            out.add(v[1])
        else:
            for x in v:
                out |= value_roots(x)
    elif isinstance(v, ListV):
        for x in v.items:
            out |= value_roots(x)
    return out


def stored_is_used_rule(model, rep, rule):
    """what a constructor hands to its interpolator is what it stores in _params (the row params()/save() report and
    from_file() feeds back into the constructor): on every accepting path the parameter the interpolator is built from is
    the root of a stored entry"""
    rel = model.rel("components")
    n = 0
    for kind in KINDS:
        owner, fn, leaves = ctor_paths(model, kind)
        params = {a.arg for a in fn.args.posonlyargs + fn.args.args + fn.args.kwonlyargs} - {"self", "name", "limits"}
        ok = True
        npaths = 0
        for lf in leaves:
            if lf.kind == "raise":
                continue
            stored = {}
            for k, (v, line) in final_params(lf).items():
                for r in value_roots(v) & params:
                    stored.setdefault(r, k)
            flat_root = None
            for e in lf.events:
                used = set()
                if e[0] == "flatten":
                    flat_root = value_roots(e[1].get("root")) & params if e[1].get("root") is not None else set()
                    continue
                if e[0] != "interp":
                    continue
                npaths += 1
                for a in e[2]:
                    if isinstance(a, Sym) and a.key[0] == "flat":
                        used |= flat_root or set()
                    else:
                        used |= value_roots(a) & params
                if not used:
                    raise AnalysisError("%s.__init__: the interpolator at line %d is built from no recognisable parameter" % (kind, e[3]))
                for p in sorted(used - set(stored)):
                    ok = False
                    rep.violation(rule, "components.%s.__init__" % kind, "%s:%d" % (rel, e[3]),
                                  "the interpolator is built from parameter '%s' but no _params entry stores it on this path (stored: %s): params(), save() and a reloaded system see another value than the one the component computes with" % (
                                      p, ", ".join("%s<-%s" % (k, r) for r, k in sorted(stored.items()))), "interpolator parameter %s not stored" % p)
        rep.instance(rule, "components.%s.__init__ stores what its interpolator uses" % kind, "%s:%d" % (rel, fn.lineno), ok, "%d interpolator sites on accepting paths" % npaths)
        n += 1
    rep.floor(rule, n, 11)
