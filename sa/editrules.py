"""Rules over the path summaries of the edit / configuration methods (C14 obligations, C15 effect order, C16 registries)."""
import ast
import itertools
from .core import AnalysisError, KINDS
from .guards import Ctx, A, Not, And, Or, atoms_of, ev, literals, show_f
from .terms import RF
from .summ import Summarizer, State, Sym, ListV, DictV, BoolV, vkey, show_value
from .effects import EditHooks, GuardedSummarizer, method_paths, classify_store
from . import sysrules

EDIT_METHODS = ["add_source", "add_comp", "change_comp", "del_comp", "set_sys_phases", "set_comp_phases"]
HELPERS = ("_chk_parent", "_chk_comp", "_chk_name")
LOCKSTEP = ("nodes", "phase_conf", "groups", "rails")

def paths(model, r, mname):
    cache = model.__dict__.setdefault("_edit_paths", {})
    if mname not in cache:
        cache[mname] = method_paths(model, r, mname, inline=HELPERS)
    return cache[mname]


def is_effect(e):
    if e[0] == "effect":
        return ("GRAPH", e[2])
    if e[0] == "call" and isinstance(e[1], str) and e[1].startswith("self.") and e[1][5:] in EDIT_METHODS:
        return ("GRAPH", "edit through " + e[1][5:])        # an edit / configuration method called from another one modifies the system
    if e[0] == "store":
        c = classify_store(e[1])
        if c is not None and c[0] in ("REG", "REGALL", "GRAPH", "PARAM", "SELF", "ATTR"):
            return c
    if e[0] == "del":
        c = classify_store(e[1])
        if c is not None:
            return ("DEL",) + c[1:]
    return None


def first_effect_index(leaf, ctor=False):
    """index of the first modification; in the constructor the graph is what is being built: only graph calls and
    registry stores count there (`self._g = None` before the argument checks is not a modification of a system)"""
    for i, e in enumerate(leaf.events):
        c = is_effect(e)
        if c and not (ctor and c[0] in ("SELF", "REGALL", "ATTR")):
            return i
    return None


def prefix_guards(leaf, ctor=False):
    k = first_effect_index(leaf, ctor)
    evs = leaf.events if k is None else leaf.events[:k]
    return [e[1] for e in evs if e[0] == "guard"]


def implies(guards, formula, limit=16):
    """do the guard formulas propositionally imply `formula`?  (enumeration over the atoms involved)"""
    conj = And(*guards)
    atoms = sorted(atoms_of(conj) | atoms_of(formula), key=repr)
    lits = {}
    for g in guards:
        literals(g, True, lits)
    free = [a for a in atoms if a not in lits]
    if len(free) > limit:
        raise AnalysisError("obligation check: too many free atoms (%d)" % len(free))
    for bits in itertools.product((False, True), repeat=len(free)):
        al = dict(lits)
        al.update(zip(free, bits))
        if ev(conj, al) is True and ev(formula, al) is not True:
            return False, al
    return True, None


# ------------------------------------------------------------------------------------------------ obligations (C14)
NODES = 'self._g.attrs["nodes"]'
RAILS = 'self._g.attrs["rails"]'


def _uniq(nm):
    return "not (%s in %s or %s in %s.values())" % (nm, NODES, nm, RAILS)


def _mentions(v, pred):
    """does the symbolic value contain a sub-value satisfying pred?"""
    if pred(v):
        return True
    if isinstance(v, Sym):
        return any(_mentions(x, pred) for x in v.key)
    if isinstance(v, (tuple, list)):
        return any(_mentions(x, pred) for x in v)
    items = getattr(v, "items", None)
    if isinstance(items, (list, tuple)):
        return any(_mentions(x, pred) for x in items)
    return False


def unique_resolved_parents(guards):
    """`parent` may name a component by its name or by its rail, so two different strings can be one component.  The obligation is met when,
    on the path, either parent is not a list, or some comparison of len(X) with len(set(X)) has been decided in favour of 'all distinct'
    where the elements of X are *resolved* components (results of _get_index over the elements of parent).  The comparison is recognised by
    what it says (it must hold when both counts are equal and fail when the set is smaller), not by how it is spelled."""
    lits = {}
    for g in guards:
        literals(g, True, lits)
    if lits.get(("ISA", Sym(("name", "parent")), Sym(("name", "list")))) is False:
        return True
    for key, val in lits.items():
        if key[0] not in ("POS", "ZP"):
            continue
        ats = list(key[1].atoms())
        ln = [a for a in ats if isinstance(a, tuple) and len(a) == 2 and isinstance(a[1], Sym) and a[1].key[0] == "len"]
        full = [a for a in ln if not (isinstance(a[1].key[1], Sym) and a[1].key[1].key[0] == "set")]
        sets = [a for a in ln if isinstance(a[1].key[1], Sym) and a[1].key[1].key[0] == "set"]
        if len(ats) != 2 or len(full) != 1 or len(sets) != 1 or sets[0][1].key[1].key[1] != full[0][1].key[1]:
            continue
        coll = full[0][1].key[1]
        # the elements are results of _get_index and the collection is computed from `parent` (element by element, in a loop or a comprehension)
        resolved = _mentions(coll, lambda x: isinstance(x, Sym) and x.key[0] == "call" and x.key[1] == "self._get_index") \
            and _mentions(coll, lambda y: y == Sym(("name", "parent")))
        if not resolved:
            continue

        def holds(nfull, nset):
            t = key[1].subst({full[0]: RF.const(nfull), sets[0]: RF.const(nset)})
            if not t.is_const():
                return None
            c = t.const_value()
            return (c > 0) if key[0] == "POS" else (c == 0)
        a, b = holds(3, 3), holds(3, 2)
        if a is None or b is None:
            continue
        if (a == val) and (b != val):
            return True
    return False


OBLIGATIONS = {
    # method: [(id, reason, [alternative reference conditions - any one implied suffices])]
    "__init__": [   # the constructor establishes the invariant the edit methods preserve (registries start empty)
        ("rail-not-name", "a component's rail differs from its own name", ['rail == "" or rail != source._params["name"]']),
        ("is-source", "the roots are exactly the Sources", ["isinstance(source, Source)"]),
    ],
    "add_source": [
        ("name-unique", "names and rails stay unique and disjoint", [_uniq('source._params["name"]')]),
        ("rail-unique", "names and rails stay unique and disjoint", ['rail == "" or ' + _uniq("rail")]),
        ("rail-not-name", "a component's rail differs from its own name", ['rail == "" or rail != source._params["name"]']),
        ("is-source", "the roots are exactly the Sources", ["isinstance(source, Source)"]),
    ],
    "add_comp": [
        ("name-unique", "names and rails stay unique and disjoint", [_uniq('comp._params["name"]')]),
        ("rail-unique", "names and rails stay unique and disjoint", ['rail == "" or ' + _uniq("rail")]),
        ("rail-not-name", "a component's rail differs from its own name", ['rail == "" or rail != comp._params["name"]']),
        ("parent-exists", "every link goes to an existing component",
         ['(isinstance(parent, list) and (ELEM(parent) in %s or ELEM(parent) in %s.values())) or (not isinstance(parent, list) and (parent in %s or parent in %s.values()))' % (NODES, RAILS, NODES, RAILS)]),
        ("multi-parent-only-pmux", "only a PMux has more than one parent", ["not isinstance(parent, list) or comp._component_type == _ComponentTypes.PMUX"]),
        ("no-duplicate-parents", "only a PMux has more than one parent / links are unique: no component is listed twice, whether by its name or by its rail",
         [unique_resolved_parents]),
        ("parent-admits-type", "every link is one add_comp would accept (loads have no children, sources are roots)",
         ['(isinstance(parent, list) and comp._component_type in self._g[self._get_index(ELEM(parent))]._child_types) or (not isinstance(parent, list) and comp._component_type in self._g[self._get_index(parent)]._child_types)']),
        ("single-pmux", "there is at most one PMux",
         ['comp._component_type != _ComponentTypes.PMUX or not (self._g[%s[ELEM(%s)]]._component_type == _ComponentTypes.PMUX)' % (NODES, NODES),
          'comp._component_type != _ComponentTypes.PMUX or not (self._g[ELEM(%s.values())]._component_type == _ComponentTypes.PMUX)' % NODES,
          'comp._component_type != _ComponentTypes.PMUX or not any(self._g[i_]._component_type == _ComponentTypes.PMUX for i_ in %s.values())' % NODES,
          'comp._component_type != _ComponentTypes.PMUX or not any(self._g[%s[k_]]._component_type == _ComponentTypes.PMUX for k_ in %s)' % (NODES, NODES)]),
    ],
    "change_comp": [
        ("target-exists", "the edited component exists", ["name in %s" % NODES]),
        ("name-unique", "names and rails stay unique and disjoint", ['name == comp._params["name"] or ' + _uniq('comp._params["name"]')]),
        ("rail-not-a-name", "rail names and component names are disjoint", ['rail == "" or not (rail in %s)' % NODES]),
        ("rail-unique", "rail names are unique",
         ['rail == "" or not (rail in %s.values())' % RAILS,
          'rail == "" or not (rail in [%s[k] for k in %s if k != name])' % (RAILS, RAILS)]),
        ("rail-not-name", "a component's rail differs from its own name",
         ['rail == "" or rail != comp._params["name"] or (name == comp._params["name"] and name != rail)',
          'rail == "" or (name == comp._params["name"] and name != rail) or (name != comp._params["name"] and rail != comp._params["name"])']),
        ("source-stays-source", "the roots are exactly the Sources",
         ["self._g[self._get_index(name)]._component_type != _ComponentTypes.SOURCE or isinstance(comp, Source)"]),
        ("pmux-stays-pmux", "only a PMux has more than one parent",
         ["self._g[self._get_index(name)]._component_type != _ComponentTypes.PMUX or isinstance(comp, PMux)"]),
        ("no-new-pmux", "there is at most one PMux",
         ['self._g[self._get_index(name)]._component_type == _ComponentTypes.PMUX or comp._component_type != _ComponentTypes.PMUX or not (self._g[%s[ELEM(%s)]]._component_type == _ComponentTypes.PMUX)' % (NODES, NODES),
          'self._g[self._get_index(name)]._component_type == _ComponentTypes.PMUX or comp._component_type != _ComponentTypes.PMUX or not (self._g[ELEM(%s.values())]._component_type == _ComponentTypes.PMUX)' % NODES,
          'self._g[self._get_index(name)]._component_type == _ComponentTypes.PMUX or comp._component_type != _ComponentTypes.PMUX or not any(self._g[i_]._component_type == _ComponentTypes.PMUX for i_ in %s.values())' % NODES,
          'self._g[self._get_index(name)]._component_type == _ComponentTypes.PMUX or comp._component_type != _ComponentTypes.PMUX or not any(self._g[%s[k_]]._component_type == _ComponentTypes.PMUX for k_ in %s)' % (NODES, NODES)]),
        ("parent-admits-type", "every link is one add_comp would accept",
         ["self._get_parents()[self._get_index(name)] == -1 or comp._component_type in self._g[self._get_parents()[self._get_index(name)][0]]._child_types"]),
        ("type-admits-children", "every link is one add_comp would accept (loads have no children)",
         ["self._get_childs()[self._get_index(name)] == -1 or self._g[ELEM(self._get_childs()[self._get_index(name)])]._component_type in comp._child_types"]),
    ],
    "del_comp": [
        ("target-is-component", "the deleted target is a component name", ["name in %s" % NODES]),
        ("root-with-children-only", "the roots are exactly the Sources (children of a deleted source cannot be re-parented)",
         ["self._get_parents()[self._get_index(name)] != -1 or del_childs"]),
        ("not-last-source", "a system keeps at least one source",
         ["self._get_parents()[self._get_index(name)] != -1 or not (len(self._get_sources()) < 2)"]),
    ],
}


def obligation_formulas(model, r, mname, fn):
    hooks = EditHooks(model, r, HELPERS)
    sm = GuardedSummarizer(hooks, Ctx())
    a = fn.args
    env = {x.arg: Sym(("name", x.arg)) for x in a.posonlyargs + a.args + a.kwonlyargs}
    out = []
    for oid, reason, alts in OBLIGATIONS[mname]:
        fs = []
        for text in alts:
            if callable(text):
                fs.append(text)
                continue
            node = ast.parse(text, mode="eval").body
            fs.append(sm.cond(node, State(env)))
        out.append((oid, reason, fs))
    return out


def c14_obligations(model, rep, r):
    rel = model.rel("system")
    total = 0
    for mname in ("__init__", "add_source", "add_comp", "change_comp", "del_comp"):
        fn, leaves = paths(model, r, mname)
        obs = obligation_formulas(model, r, mname, fn)
        accepted = [lf for lf in leaves if lf.kind != "raise"]
        if not accepted:
            raise AnalysisError("%s has no accepting path" % mname)
        if not any(first_effect_index(lf) is not None for lf in accepted):
            raise AnalysisError("%s: no accepting path modifies the system" % mname)
        for oid, reason, fs in obs:
            ok = True
            witness = None
            for lf in accepted:
                if first_effect_index(lf) is None:
                    continue
                g = prefix_guards(lf, mname == "__init__")
                good = False
                for f in fs:
                    imp = f(g) if callable(f) else implies(g, f)[0]
                    if imp:
                        good = True
                        break
                if not good:
                    ok = False
                    witness = lf
                    break
            where = "%s:%d" % (rel, fn.lineno)
            if not ok and oid in ("parent-admits-type", "type-admits-children", "root-with-children-only", "not-last-source"):
                # these obligations are written over the relation tables (_get_parents() / _get_childs()); a method that asks the graph
                # for one node's neighbours itself decides on conditions they do not name
                direct = sorted({x.attr for x in ast.walk(fn) if isinstance(x, ast.Attribute) and x.attr in (
                    "predecessor_indices", "successor_indices", "predecessors", "successors", "in_degree", "out_degree", "in_edges", "out_edges")})
                if direct:
                    raise AnalysisError("%s queries the graph directly (%s): obligation '%s' is written over the relation tables and cannot be decided on it" % (
                        mname, ", ".join(direct), oid))
            if not ok:
                first = witness.events[first_effect_index(witness)]
                rep.violation("R1", "system.System.%s" % mname, where,
                              "obligation '%s' (%s) is not established before the first modification on the accepting path {%s}; required: %s" % (
                                  oid, reason, show_f(And(*prefix_guards(witness)))[:400], " | ".join((f.__doc__.split(".")[0] if callable(f) else show_f(f)) for f in fs)[:300]),
                              "obligation " + oid)
            rep.instance("R1", "system.System.%s obligation %s" % (mname, oid), where, ok, "%d accepting paths" % len(accepted))
            total += 1
    rep.floor("R1", total, 27)


def child_types_rule(model, rep):
    """R2: the eight non-load kinds admit every type but SOURCE, loads admit none"""
    rel = model.rel("components")
    types = [e for e in model.cls("_ComponentTypes").body if isinstance(e, ast.Assign)]
    tnames = [e.targets[0].id for e in types]
    n = 0
    for kind in KINDS:
        owner, fn = model.method(kind, "_child_types")
        src = ast.unparse(ast.Module(body=fn.body, type_ignores=[]))
        if kind in ("PLoad", "ILoad", "RLoad"):
            rets = [x for x in ast.walk(fn) if isinstance(x, ast.Return)]
            ok = len(rets) == 1 and ast.unparse(rets[0].value) in ("[None]", "[]")
            msg = "a load admits children"
        else:
            removed = [ast.unparse(c.args[0]) for c in ast.walk(fn) if isinstance(c, ast.Call) and isinstance(c.func, ast.Attribute) and c.func.attr == "remove"]
            ok = "list(_ComponentTypes)" in src and removed == ["_ComponentTypes.SOURCE"]
            msg = "%s admits %s" % (kind, "a Source as child" if "_ComponentTypes.SOURCE" not in removed else "not every non-source type")
        if not ok:
            rep.violation("R2", "components.%s._child_types" % owner, "%s:%d" % (rel, fn.lineno), msg + ": re-parenting in del_comp(del_childs=False) and the root rule rely on uniform child types", "child types " + kind)
        rep.instance("R2", "components.%s._child_types" % kind, "%s:%d" % (rel, fn.lineno), ok)
        n += 1
    rep.floor("R2", n, 11)


def relink_rule(model, rep, r, rule):
    """del_comp(del_childs=False): every child of the deleted node gets exactly one new parent (the deleted node's first)"""
    rel = model.rel("system")
    fn, leaves = paths(model, r, "del_comp")
    ok = True
    seen = 0
    for lf in leaves:
        if lf.kind == "raise":
            continue
        depth = 0
        per_iter = []
        stack = []
        for e in lf.events:
            if e[0] == "loop":
                stack.append([e[1], 0])
            elif e[0] == "endloop" and stack:
                it, cnt = stack.pop()
                if cnt:
                    per_iter.append((it, cnt, len(stack)))
            elif e[0] == "effect" and e[2] == "add_edge" and stack:
                for fr in stack:
                    fr[1] += 1
        edges = [e for e in lf.events if e[0] == "effect" and e[2] == "add_edge"]
        if not edges:
            continue
        seen += 1
        for e in edges:
            src = e[3][0]
            if not (isinstance(src, Sym) and src.key[0] == "sub" and src.key[2] == sysrules.lift0()):
                ok = False
                rep.violation(rule, "system.System.del_comp", "%s:%d" % (rel, e[4]), "a re-linked child is attached to %s, expected the deleted component's first (only) parent" % show_value(src), "relink source " + show_value(src))
        nested = [p for p in per_iter if p[2] >= 1]
        if nested or any(c > 1 for _, c, _ in per_iter):
            ok = False
            rep.violation(rule, "system.System.del_comp", "%s:%d" % (rel, edges[0][4]), "a re-linked child receives more than one new parent link: a non-PMux component would end up with several parents", "relink multiple parents")
    if seen == 0:
        raise AnalysisError("del_comp: re-link path not found")
    rep.instance(rule, "system.System.del_comp re-links each child to exactly one parent", "%s:%d" % (rel, fn.lineno), ok, "%d path(s)" % seen)


# ------------------------------------------------------------------------------------------------ C15
def key_facts(leaf, upto):
    """registry keys known to be present at event index `upto` on this path"""
    facts = set()
    lits = {}
    for e in leaf.events[:upto]:
        if e[0] == "guard":
            literals(e[1], True, lits)
        elif e[0] == "store":
            c = classify_store(e[1])
            if c and c[0] == "REG":
                facts.add((c[1], vkey(c[2])))
    for k, v in lits.items():
        if k[0] == "IN" and v:
            reg = k[2]
            if isinstance(reg, Sym) and reg.key[0] == "sub" and isinstance(reg.key[2], str):
                facts.add((reg.key[2], k[1]))
    # the four name-keyed registries share their key set (invariant maintained by C16-R1)
    for reg, key in list(facts):
        if reg in LOCKSTEP:
            for r2 in LOCKSTEP:
                facts.add((r2, key))
    return facts


def live_node_name(key):
    """self._g[c]._params["name"] with c a live graph node (element of a graph query)"""
    return isinstance(key, Sym) and key.key[0] == "sub" and key.key[2] == "name" and isinstance(key.key[1], Sym) and key.key[1].key[0] == "attr" \
        and key.key[1].key[2] == "_params" and isinstance(key.key[1].key[1], Sym) and key.key[1].key[1].key[0] == "sub" \
        and isinstance(key.key[1].key[1].key[2], Sym) and key.key[1].key[1].key[2].key[0] == "elem"


def element_of_registry(key):
    """the loop element of `for k in self._g.attrs[<name registry>]` (its .keys() / list(..) too): present by construction"""
    if isinstance(key, Sym) and key.key[0] == "elem":
        txt = show_value(key)
        return any(txt in ("elem(self._g.attrs['%s'])" % r, "elem(self._g.attrs['%s'].keys())" % r, "elem(list(self._g.attrs['%s']))" % r, "elem(list(self._g.attrs['%s'].keys()))" % r) for r in LOCKSTEP)
    return False


def graph_node_name(key):
    """self._g[<index>]._params["name"]: evaluating it succeeds only for a live node (rustworkx raises IndexError otherwise),
    and every live node's name is a key of the name registries (C16-R1 pairing)"""
    return isinstance(key, Sym) and key.key[0] == "sub" and key.key[2] == "name" and isinstance(key.key[1], Sym) and key.key[1].key[0] == "attr" \
        and key.key[1].key[2] == "_params" and isinstance(key.key[1].key[1], Sym) and key.key[1].key[1].key[0] == "sub" \
        and key.key[1].key[1].key[1] == Sym(("attr", Sym(("name", "self")), "_g"))


def c15_effect_order(model, rep, r):
    rel = model.rel("system")
    n = 0
    for mname in EDIT_METHODS:
        fn, leaves = paths(model, r, mname)
        where = "%s:%d" % (rel, fn.lineno)
        ok = True
        nraise = 0
        for lf in leaves:
            k = first_effect_index(lf)
            if lf.kind == "raise":
                nraise += 1
                if k is not None:
                    eff = lf.events[k]
                    ok = False
                    line = eff[-1] if isinstance(eff[-1], int) else fn.lineno
                    rep.violation("R1", "system.System.%s" % mname, "%s:%d" % (rel, lf.line),
                                  "raises %s at line %d after the system was already modified at line %s (%s): a rejected call leaves a half-applied edit" % (
                                      lf.exc, lf.line, line, describe_effect(eff)), "raise after effect: " + describe_effect(eff))
            # a call of another edit / configuration method can be rejected (each has a rejecting path): after a modification that is a raise
            for i, e in enumerate(lf.events):
                if e[0] == "call" and isinstance(e[1], str) and e[1].startswith("self.") and e[1][5:] in EDIT_METHODS and k is not None and k < i:
                    eff = lf.events[k]
                    ok = False
                    rep.violation("R1", "system.System.%s" % mname, "%s:%d" % (rel, e[4]),
                                  "calls %s() at line %d after the system was already modified (%s): when that call rejects its arguments, this call raises and leaves a half-applied edit" % (
                                      e[1][5:], e[4], describe_effect(eff)), "edit call after effect: %s after %s" % (e[1][5:], describe_effect(eff)))
            # warnings.warn raises under an error filter (python -W error): it must not follow a modification either
            for i, e in enumerate(lf.events):
                if e[0] == "warn" and k is not None and k < i:
                    eff = lf.events[k]
                    ok = False
                    rep.violation("R1", "system.System.%s" % mname, "%s:%d" % (rel, e[1]),
                                  "issues a warning at line %d after the system was already modified (%s): with warnings turned into errors the call raises and leaves a half-applied edit" % (
                                      e[1], describe_effect(eff)), "warn after effect: " + describe_effect(eff))
            # implicit KeyError: a registry entry read after a modification with a key nothing on the path shows to be present
            for i, e in enumerate(lf.events):
                if e[0] == "load" and k is not None and k < i and e[1] in LOCKSTEP:
                    if (e[1], vkey(e[2])) in key_facts(lf, i) or live_node_name(e[2]) or element_of_registry(e[2]):
                        continue
                    ok = False
                    rep.violation("R1", "system.System.%s" % mname, "%s:%d" % (rel, e[3]),
                                  "registry '%s' is read with key %s after the system was modified, but nothing on this path establishes that the key is present (a KeyError here leaves a half-applied edit)" % (e[1], show_value(e[2])),
                                  "unguarded read %s[%s]" % (e[1], show_value(e[2])))
            # implicit KeyError: registry deletion with a key that is not known to be present, after a modification
            for i, e in enumerate(lf.events):
                if e[0] == "del":
                    c = classify_store(e[1])
                    if not c or c[0] != "REG":
                        continue
                    fe = first_effect_index(lf)
                    if fe is None or fe >= i:
                        # the delete itself is the first modification: a KeyError here changes nothing yet
                        if not any(is_effect(x) for x in lf.events[:i]):
                            continue
                    key = vkey(c[2])
                    if (c[1], key) in key_facts(lf, i) or live_node_name(c[2]):
                        continue
                    ok = False
                    rep.violation("R1", "system.System.%s" % mname, "%s:%d" % (rel, e[2]),
                                  "registry '%s' entry %s is deleted after the system was modified, but nothing on this path establishes that the key is present (KeyError would leave a half-applied edit)" % (
                                      c[1], show_value(c[2])), "unguarded delete %s[%s]" % (c[1], show_value(c[2])))
        rep.instance("R1", "system.System.%s: no raise after the first modification" % mname, where, ok, "%d paths, %d rejecting" % (len(leaves), nraise))
        n += 1
        if nraise == 0:
            raise AnalysisError("%s has no rejecting path" % mname)
    rep.floor("R1", n, 6)


def describe_effect(e):
    if e[0] == "effect":
        return "graph.%s" % e[2]
    c = is_effect(e)
    if c is None:
        return str(e[0])
    if c[0] in ("REG", "DEL"):
        return "%s registry '%s'[%s]" % ("delete from" if e[0] == "del" else "store to", c[1], show_value(c[2]))
    if c[0] == "REGALL":
        return "registry '%s' replaced" % c[1]
    if c[0] == "GRAPH":
        return "graph node payload replaced"
    return "%s %s" % (c[0], c[1])


PURE_HELPERS = ["_chk_parent", "_chk_comp", "_chk_name", "_get_index", "_get_parents", "_get_childs", "_get_sources", "_get_nodes", "_get_pmux", "_get_topo_sort"]


def c15_checks_pure(model, rep):
    rel = model.rel("system")
    n = 0
    for h in PURE_HELPERS:
        fn = model.own_method("System", h)
        if fn is None:
            if h in ("_chk_parent", "_chk_comp", "_chk_name") and not any(h in sysrules.self_calls(f) for _, _, f in model.all_functions()):
                continue        # the helper was inlined into its callers: their own paths carry its checks
            raise AnalysisError("System.%s not found" % h)
        u, c, mu, rd = sysrules.method_state_effects(fn)
        graph = [x for x in ast.walk(fn) if isinstance(x, ast.Call) and isinstance(x.func, ast.Attribute) and x.func.attr in ("add_node", "add_child", "add_edge", "remove_node", "remove_edge")]
        ok = not (u or c or mu or graph)
        if not ok:
            what = sorted(set(u) | set(c) | set(mu)) + [g.func.attr for g in graph]
            rep.violation("R2", "system.System.%s" % h, "%s:%d" % (rel, fn.lineno), "a validation / query helper modifies the system (%s): a call rejected later would already have changed it" % ", ".join(what), "impure helper " + ",".join(what))
        rep.instance("R2", "system.System.%s is effect-free" % h, "%s:%d" % (rel, fn.lineno), ok)
        n += 1
    rep.floor("R2", n, 8)


# ------------------------------------------------------------------------------------------------ C16
def c16_lockstep(model, rep, r):
    """R1: on every accepting path of an edit method the (op, key) sequence on `nodes` is mirrored on phase_conf, groups, rails"""
    rel = model.rel("system")
    n = 0
    for mname in ("add_source", "add_comp", "change_comp", "del_comp"):
        fn, leaves = paths(model, r, mname)
        ok = True
        nacc = 0
        for lf in leaves:
            if lf.kind == "raise":
                continue
            nacc += 1
            ops = {reg: [] for reg in LOCKSTEP}
            for e in lf.events:
                if e[0] in ("store", "del"):
                    c = classify_store(e[1])
                    if c and c[0] == "REG" and c[1] in LOCKSTEP:
                        ops[c[1]].append(("set" if e[0] == "store" else "del", vkey(c[2])))
            base = ops["nodes"]
            for reg in LOCKSTEP[1:]:
                if ops[reg] != base:
                    ok = False
                    miss = [o for o in base if o not in ops[reg]]
                    extra = [o for o in ops[reg] if o not in base]
                    rep.violation("R1", "system.System.%s" % mname, "%s:%d" % (rel, fn.lineno),
                                  "registry '%s' is not maintained in lock-step with 'nodes': missing %s, extra %s - a later report would list a stale or miss a live component" % (
                                      reg, ["%s %s" % (a, show_value(b)) for a, b in miss], ["%s %s" % (a, show_value(b)) for a, b in extra]),
                                  "lockstep %s missing=%d extra=%d" % (reg, len(miss), len(extra)))
        rep.instance("R1", "system.System.%s name registries move in lock-step" % mname, "%s:%d" % (rel, fn.lineno), ok, "%d accepting paths" % nacc)
        n += 1
    rep.floor("R1", n, 4)
    # what is filed: the group registry holds the `group` argument, the rail registry the `rail` argument (or "" for a load)
    for mname in ("add_source", "add_comp", "change_comp"):
        fn, leaves = paths(model, r, mname)
        params = {a.arg for a in fn.args.args + fn.args.kwonlyargs}
        ok = True
        seen = 0
        for lf in leaves:
            if lf.kind == "raise":
                continue
            for e in lf.events:
                if e[0] != "store":
                    continue
                c = classify_store(e[1])
                if not (c and c[0] == "REG" and c[1] in ("groups", "rails")):
                    continue
                seen += 1
                want = "group" if c[1] == "groups" else "rail"
                if want not in params:
                    continue
                val = e[2]
                good = val == Sym(("name", want)) or (c[1] == "rails" and val == "")
                if not good:
                    ok = False
                    rep.violation("R1", "system.System.%s" % mname, "%s:%d" % (rel, e[3] if len(e) > 3 and isinstance(e[3], int) else fn.lineno),
                                  "registry '%s' receives %s, expected the `%s` argument: the %s shown by params() / tree() / save() is not the one that was configured" % (
                                      c[1], show_value(val), want, want), "registry %s value %s" % (c[1], show_value(val)))
        if seen == 0:
            raise AnalysisError("%s: no store into the group / rail registries found" % mname)
        rep.instance("R1", "system.System.%s files group and rail under their registries" % mname, "%s:%d" % (rel, fn.lineno), ok)
    # every other method that stores into a name registry may only touch the entry of an existing component
    sysc = model.cls("System")
    others = 0
    for fn in sysc.body:
        if not isinstance(fn, ast.FunctionDef) or fn.name in ("add_source", "add_comp", "change_comp", "del_comp", "__init__", "from_file"):
            continue
        writes = [x for x in ast.walk(fn) if isinstance(x, (ast.Assign, ast.AugAssign)) and any(
            isinstance(t, ast.Subscript) and sysrules.registry_of(t.value) in LOCKSTEP for t in (x.targets if isinstance(x, ast.Assign) else [x.target]))]
        if not writes:
            continue
        others += 1
        f2, leaves = paths(model, r, fn.name)
        ok = True
        for lf in leaves:
            if lf.kind == "raise":
                continue
            for i, e in enumerate(lf.events):
                if e[0] != "store":
                    continue
                c = classify_store(e[1])
                if not (c and c[0] == "REG" and c[1] in LOCKSTEP):
                    continue
                if ("nodes", vkey(c[2])) in key_facts(lf, i) or live_node_name(c[2]) or element_of_registry(c[2]) or graph_node_name(c[2]):
                    continue
                ok = False
                rep.violation("R1", "system.System.%s" % fn.name, "%s:%d" % (rel, e[3] if len(e) > 3 and isinstance(e[3], int) else fn.lineno),
                              "stores into registry '%s' under key %s, which nothing on the path shows to be a component name: the registry gains an entry without a component (reports and the save() document then depend on the call history)" % (c[1], show_value(c[2])),
                              "registry %s keyed by non-component in %s" % (c[1], fn.name))
        rep.instance("R1", "system.System.%s stores registry entries of existing components only" % fn.name, "%s:%d" % (rel, fn.lineno), ok)
    if others == 0:
        raise AnalysisError("no configuration method writing a name registry found (set_comp_phases expected)")


def c16_links(model, rep, r):
    """R2: (a) the input-order registry holds node indices (results of graph calls / _get_index), not caller strings;
    (b) every parent link created is paired with a store of the child's input order on the same path"""
    rel = model.rel("system")
    reg = sysrules.order_registry(model)
    n = 0
    for mname in ("add_source", "add_comp", "del_comp", "change_comp"):
        fn, leaves = paths(model, r, mname)
        ok = True
        for lf in leaves:
            if lf.kind == "raise":
                continue
            stores = []
            links = []
            for e in lf.events:
                if e[0] == "store":
                    c = classify_store(e[1])
                    if c and c[0] == "REG" and c[1] == reg:
                        stores.append((c[2], e[2], e[3]))
                if e[0] == "effect" and e[2] in ("add_child", "add_edge"):
                    links.append(e)
            for key, val, line in stores:
                if mentions_caller_string(val, fn):
                    ok = False
                    rep.violation("R2", "system.System.%s" % mname, "%s:%d" % (rel, line),
                                  "the input order stored for %s holds caller-supplied names (%s): a later rename or rail change leaves a stale reference" % (show_value(key), show_value(val)[:120]),
                                  "order registry holds names")
            if links:
                # child of an add_child is the call's result; of an add_edge the second argument
                for e in links:
                    child = Sym(("graph", e[2], e[3], e[4])) if e[2] == "add_child" else e[3][1]
                    if not any(vkey(k) == vkey(child) for k, _, _ in stores):
                        # add_edge of further parents in add_comp refers to the node created by add_child on the same path
                        if e[2] == "add_edge" and any(isinstance(k, Sym) and k.key[0] == "graph" and vkey(k) == vkey(e[3][1]) for k, _, _ in stores):
                            continue
                        ok = False
                        rep.violation("R2", "system.System.%s" % mname, "%s:%d" % (rel, e[4]),
                                      "a parent link to %s is created without recording the child's input order: the order registry and the graph disagree afterwards" % show_value(child),
                                      "link without order record")
            if mname == "del_comp" and any(e[0] == "effect" and e[2] == "remove_node" for e in lf.events):
                # a node is removed while its children stay: on every way through the loop over those children (one arbitrary child) the
                # child's input order is rewritten - otherwise it keeps the index of the removed node, which the graph hands out again
                depth, in_child_loop, had_store, loops = 0, [], [], 0
                for e in lf.events:
                    if e[0] == "loop":
                        is_childs = "_get_childs" in repr(e[1]) or "childs" in repr(e[1])
                        in_child_loop.append(is_childs)
                        had_store.append(False)
                    elif e[0] == "endloop" and in_child_loop:
                        was, st_ = in_child_loop.pop(), had_store.pop()
                        if was:
                            loops += 1
                            if not st_:
                                ok = False
                                rep.violation("R2", "system.System.del_comp", "%s:%d" % (rel, e[1]),
                                              "a child of the removed component can pass the re-linking loop without its input order being rewritten (path {%s}): it keeps the "
                                              "index of the removed node, which the graph re-uses for the next component" % show_f(And(*[g[1] for g in lf.events if g[0] == "guard"]))[:300],
                                              "kept child without order rewrite")
                    elif e[0] == "store" and in_child_loop and any(in_child_loop):
                        c = classify_store(e[1])
                        if c and c[0] == "REG" and c[1] == reg:
                            had_store = [True for _ in had_store]
            if mname in ("add_source",) and not stores:
                ok = False
                rep.violation("R2", "system.System.%s" % mname, "%s:%d" % (rel, fn.lineno), "a new node gets no entry in the input-order registry (a re-used node index would inherit a stale one)", "no order record")
        rep.instance("R2", "system.System.%s links and input-order registry agree" % mname, "%s:%d" % (rel, fn.lineno), ok)
        n += 1
    rep.floor("R2", n, 4)


def mentions_caller_string(val, fn):
    """does a stored value contain a bare parameter of the method (a caller-supplied name / list of names)?"""
    params = {a.arg for a in fn.args.args + fn.args.kwonlyargs} - {"self"}

    def walk(v, under_call=False):
        if isinstance(v, Sym):
            k = v.key
            if k[0] == "name" and k[1] in params:
                return not under_call
            if k[0] in ("call", "mcall", "graph", "dispatch"):
                return False     # results of calls are not the caller's strings
            if k[0] == "elem":
                return walk(k[1], under_call)
            if k[0] == "listcomp":
                # [f(x) for x in it]: the caller's strings survive only if f hands the element through uncalled
                def bare_bound(e, under=False):
                    if isinstance(e, Sym):
                        if e.key == ("bound",):
                            return not under
                        return any(bare_bound(x, under or e.key[0] in ("call", "mcall", "graph", "dispatch")) for x in e.key[1:] if isinstance(x, (Sym, ListV, tuple)))
                    if isinstance(e, ListV):
                        return any(bare_bound(x, under) for x in e.items)
                    if isinstance(e, tuple):
                        return any(bare_bound(x, under) for x in e)
                    return False
                return walk(k[1], under_call) or (bare_bound(k[1]) and walk(k[2], under_call))
            return any(walk(x, under_call) for x in k[1:] if isinstance(x, (Sym, ListV, tuple)))
        if isinstance(v, ListV):
            return any(walk(x, under_call) for x in v.items)
        if isinstance(v, tuple):
            return any(walk(x, under_call) for x in v)
        return False
    return walk(val)


def link_direction_rule(model, rep, r, rule):
    """add_comp links parent -> child for every declared parent: add_child(first parent, comp), then add_edge(k-th parent, new node)
    for k = 1..n-1"""
    rel = model.rel("system")
    fn, leaves = paths(model, r, "add_comp")
    ok = True
    seen = 0
    for lf in leaves:
        if lf.kind == "raise":
            continue
        ch = [e for e in lf.events if e[0] == "effect" and e[2] == "add_child"]
        ed = [e for e in lf.events if e[0] == "effect" and e[2] == "add_edge"]
        if len(ch) != 1:
            ok = False
            rep.violation(rule, "system.System.add_comp", "%s:%d" % (rel, fn.lineno), "an accepting path creates %d nodes" % len(ch), "add_child count %d" % len(ch))
            continue
        seen += 1
        a = ch[0][3]
        lst = None
        if isinstance(a[0], Sym) and a[0].key[0] == "sub" and a[0].key[2] == sysrules.lift0():
            lst = a[0].key[1]
        if lst is None:
            # the first element of the list that is stored as the node's input order, however it was spelled
            from .summ import Summarizer as _S
            from .terms import lift as _lift
            reg = sysrules.order_registry(model)
            for e in lf.events:
                if e[0] == "store":
                    c = classify_store(e[1])
                    if c and c[0] == "REG" and c[1] == reg:
                        try:
                            first = _S(EditHooks(model, r, ()), Ctx()).subscript(e[2], _lift(0))
                        except Exception:
                            continue
                        if vkey(first) == vkey(a[0]):
                            lst = e[2]
        if lst is None or a[1] != Sym(("name", "comp")):
            ok = False
            rep.violation(rule, "system.System.add_comp", "%s:%d" % (rel, ch[0][4]), "the new node is created as add_child(%s, %s), expected (first declared parent, the component)" % (show_value(a[0]), show_value(a[1])), "add_child operands")
            continue
        newnode = Sym(("graph", "add_child", ch[0][3], ch[0][4]))
        for e in ed:
            p, c = e[3][0], e[3][1]
            good = vkey(c) == vkey(newnode) and isinstance(p, Sym) and p.key[0] == "sub" and p.key[1] == lst and isinstance(p.key[2], Sym) and p.key[2].key[0] == "elem"
            if good:
                rng = show_value(p.key[2])
                good = "range(1, " in rng
            else:
                # for extra in lst[1:]: add_edge(extra, new)
                src = p.key[1] if isinstance(p, Sym) and p.key[0] == "elem" else None
                if vkey(c) == vkey(newnode) and isinstance(src, Sym) and src.key[0] == "sub" and vkey(src.key[1]) == vkey(lst):
                    sl = show_value(src.key[2]).replace(" ", "")
                    good = sl in ("slice((1,None,None))", "slice((1,None,1))")
                # [f(x) for x in IT][1:] with the stored list [f(x) for x in IT]
                if vkey(c) == vkey(newnode) and isinstance(src, Sym) and src.key[0] == "listcomp" and isinstance(lst, Sym) and lst.key[0] == "listcomp" \
                        and len(src.key) == 3 and len(lst.key) == 3 and vkey(src.key[1]) == vkey(lst.key[1]) and isinstance(src.key[2], Sym) and src.key[2].key[0] == "sub" \
                        and vkey(src.key[2].key[1]) == vkey(lst.key[2]):
                    sl = show_value(src.key[2].key[2]).replace(" ", "")
                    good = sl in ("slice((1,None,None))", "slice((1,None,1))")
            if not good and vkey(c) == vkey(newnode) and isinstance(lst, Sym) and lst.key[0] == "listcomp" and len(lst.key) == 3:
                # the stored list is [f(x) for x in IT] and the link goes to f(IT[k]), k over range(1, ..): its k-th element
                from .summ import replace_bound

                def elems(v, out):
                    if isinstance(v, Sym):
                        if v.key[0] == "elem" and "range(1, " in show_value(v):
                            out.append(v)
                        for x in v.key[1:]:
                            elems(x, out)
                    elif isinstance(v, (tuple, list)):
                        for x in v:
                            elems(x, out)
                    elif isinstance(v, ListV):
                        elems(v.items, out)
                    return out
                for idx in elems(p, []):
                    if vkey(replace_bound(lst.key[1], Sym(("sub", lst.key[2], idx)))) == vkey(p):
                        good = True
            if not good:
                ok = False
                rep.violation(rule, "system.System.add_comp", "%s:%d" % (rel, e[4]), "a further input is linked as add_edge(%s, %s), expected (k-th declared parent for k >= 1, the new node)" % (show_value(p)[:80], show_value(c)[:60]), "add_edge operands")
        # the stored index list must be the list the links were made from
    if seen == 0:
        raise AnalysisError("add_comp: no accepting path creates a node")
    rep.instance(rule, "system.System.add_comp links every declared parent to the new node, parent -> child", "%s:%d" % (rel, fn.lineno), ok, "%d accepting paths" % seen)


def graph_registry_pairing(model, rep, r, rule):
    """nodes of the graph and keys of the name registry appear and disappear together"""
    rel = model.rel("system")
    n = 0
    for mname in ("add_source", "add_comp", "change_comp", "del_comp"):
        fn, leaves = paths(model, r, mname)
        ok = True
        for lf in leaves:
            if lf.kind == "raise":
                continue
            adds = sum(1 for e in lf.events if e[0] == "effect" and e[2] in ("add_node", "add_child"))
            rems = sum(1 for e in lf.events if e[0] == "effect" and e[2] == "remove_node")
            sets = dels = 0
            setitem = 0
            for e in lf.events:
                if e[0] in ("store", "del"):
                    c = classify_store(e[1])
                    if c and c[0] == "REG" and c[1] == "nodes":
                        if e[0] == "store":
                            sets += 1
                        else:
                            dels += 1
                    if c and c[0] == "GRAPH" and e[0] == "store":
                        setitem += 1
            want_sets = adds + (1 if mname == "change_comp" else 0)
            want_dels = rems + (1 if mname == "change_comp" else 0)
            if sets != want_sets or dels != want_dels or (mname == "change_comp" and setitem != 1):
                ok = False
                rep.violation(rule, "system.System.%s" % mname, "%s:%d" % (rel, fn.lineno),
                              "on an accepting path the graph gains %d / loses %d node(s) but the name registry gains %d / loses %d key(s): graph and registry drift apart" % (adds, rems, sets, dels),
                              "graph/registry pairing +%d-%d vs +%d-%d" % (adds, rems, sets, dels))
                break
        rep.instance(rule, "system.System.%s graph nodes and name registry change together" % mname, "%s:%d" % (rel, fn.lineno), ok)
        n += 1
    rep.floor(rule, n, 4)


# ------------------------------------------------------------------------------------------------ name resolution
def name_resolution_rule(model, rep, r, rule):
    """'' is the value the rail registry holds for 'no rail'.  A helper that resolves a user-supplied string to a component - by name, or
    else by rail - must therefore not take the rail branch for the empty string: otherwise '' "names" the first component without a rail,
    and every caller that relies on the helper to reject unknown names (batt_life, add_comp, set_comp_phases) accepts it.  `_chk_name` already
    guards its rail lookups with `rail != ""`; the rule asks the same of the resolving helpers, on every accepting path."""
    rel = model.rel("system")
    hooks = EditHooks(model, r, ())
    n = 0
    for mname in ("_get_index", "_chk_parent"):
        fn = model.own_method("System", mname)
        if fn is None:
            raise AnalysisError("name-resolution helper %s not found" % mname)
        _, leaves = method_paths(model, r, mname, inline=())
        pn = [a.arg for a in fn.args.args][1]
        sm = GuardedSummarizer(hooks, Ctx())
        env = {x.arg: Sym(("name", x.arg)) for x in fn.args.args}
        want = sm.cond(ast.parse('%s in self._g.attrs["nodes"] or %s != ""' % (pn, pn), mode="eval").body, State(env))
        ok = True
        acc = 0
        for lf in leaves:
            if lf.kind != "return":
                continue
            v = getattr(lf, "value", None)
            if mname == "_get_index":
                from .terms import RF as _RF
                if isinstance(v, _RF) and v.is_const() and v.const_value() == -1:
                    continue
            acc += 1
            g = [e[1] for e in lf.events if e[0] == "guard"]
            imp, al = implies(g, want)
            if not imp:
                ok = False
                rep.violation(rule, "system.System.%s" % mname, "%s:%d" % (rel, fn.lineno),
                              "the empty string is resolved through the rail registry (accepting path {%s}): '' is what the registry holds for 'no rail', so '' "
                              "names the first component without a rail and is not rejected as an unknown name" % show_f(And(*g))[:200],
                              "empty string resolved by rail")
                break
        if acc == 0:
            raise AnalysisError("%s: no accepting path found" % mname)
        rep.instance(rule, "system.System.%s does not resolve '' through the rail registry" % mname, "%s:%d" % (rel, fn.lineno), ok, "%d accepting paths" % acc)
        n += 1
    return n
