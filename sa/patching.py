"""Apply unified diffs to in-memory (LF-normalised) sources, forward or reverse, by exact hunk-text replacement."""
import re


class PatchError(Exception):
    pass


def parse(diff_text):
    """-> {path: [(old_block, new_block)]} with blocks as LF strings (context included)"""
    files = {}
    cur = None
    hunk = None
    for raw in diff_text.replace("\r\n", "\n").split("\n"):
        if raw.startswith("diff --git"):
            cur = None
            hunk = None
            continue
        if raw.startswith("--- "):
            continue
        if raw.startswith("+++ "):
            path = raw[4:].strip()
            if path.startswith("b/"):
                path = path[2:]
            cur = files.setdefault(path, [])
            hunk = None
            continue
        if raw.startswith("@@"):
            if cur is None:
                raise PatchError("hunk before file header")
            hunk = [[], []]
            cur.append(hunk)
            continue
        if hunk is None:
            continue
        if raw.startswith("\\"):
            continue
        line = raw[1:].rstrip("\r")
        if raw.startswith(" ") or raw == "":
            hunk[0].append(line)
            hunk[1].append(line)
        elif raw.startswith("-"):
            hunk[0].append(line)
        elif raw.startswith("+"):
            hunk[1].append(line)
    out = {}
    for p, hs in files.items():
        out[p] = [("\n".join(a), "\n".join(b)) for a, b in hs]
    return out


def apply(provider, diff_text, reverse=False):
    """-> overlay dict path -> patched text"""
    overlay = {}
    for path, hunks in parse(diff_text).items():
        text = overlay.get(path) or provider(path)
        for a, b in hunks:
            src, dst = (b, a) if reverse else (a, b)
            # trailing empty context line produced by the final split
            src_s, dst_s = src.rstrip("\n"), dst.rstrip("\n")
            n = text.count(src_s)
            if n != 1:
                raise PatchError("%s: hunk matches %d times" % (path, n))
            text = text.replace(src_s, dst_s)
        overlay[path] = text
    return overlay
