"""Apply unified diffs to in-memory (LF-normalised) sources, forward or reverse, by exact hunk-text replacement."""
import re


class PatchError(Exception):
    pass


def parse(diff_text):
    """-> {path: [(old_block, new_block)]} with blocks as LF strings (context included)"""
    files = {}
    cur = None
    hunk = None
    for raw in diff_text.replace("\r\n", "\n").split("\n"):
        if raw.startswith("diff --git"):
            cur = None
            hunk = None
            continue
        if raw.startswith("--- "):
            continue
        if raw.startswith("+++ "):
            path = raw[4:].strip()
            if path.startswith("b/") or path.startswith("a/"):
                path = path[2:]
            cur = files.setdefault(path, [])
            hunk = None
            continue
        if raw.startswith("@@"):
            if cur is None:
                raise PatchError("hunk before file header")
            m = re.match(r"@@ -(\d+)(?:,\d+)? \+(\d+)", raw)
            hunk = [[], [], int(m.group(1)) if m else 0, int(m.group(2)) if m else 0]
            cur.append(hunk)
            continue
        if hunk is None:
            continue
        if raw.startswith("\\"):
            continue
        line = raw[1:].rstrip("\r")
        if raw.startswith(" ") or raw == "":
            hunk[0].append(line)
            hunk[1].append(line)
        elif raw.startswith("-"):
            hunk[0].append(line)
        elif raw.startswith("+"):
            hunk[1].append(line)
    out = {}
    for p, hs in files.items():
        out[p] = [("\n".join(h[0]), "\n".join(h[1]), h[2], h[3]) for h in hs]
    return out


def apply(provider, diff_text, reverse=False):
    """-> overlay dict path -> patched text"""
    overlay = {}
    for path, hunks in parse(diff_text).items():
        text = overlay.get(path) or provider(path)
        for a, b, la, lb in hunks:
            src, dst = (b, a) if reverse else (a, b)
            want_line = lb if reverse else la
            # trailing empty context line produced by the final split
            src_s, dst_s = src.rstrip("\n"), dst.rstrip("\n")
            n = text.count(src_s)
            if n == 0:
                raise PatchError("%s: hunk matches 0 times" % path)
            if n == 1:
                text = text.replace(src_s, dst_s)
                continue
            # clone code: pick the occurrence closest to the line the hunk header names
            best, pos = None, -1
            while True:
                pos = text.find(src_s, pos + 1)
                if pos < 0:
                    break
                line = text.count("\n", 0, pos) + 1
                if best is None or abs(line - want_line) < abs(best[1] - want_line):
                    best = (pos, line)
            text = text[:best[0]] + dst_s + text[best[0] + len(src_s):]
        overlay[path] = text
    return overlay
