"""System-level wiring rules (system.py): role resolution, loop-body summaries, comparison with sa/spec_sys.py."""
import ast
import copy
import os
from .core import AnalysisError, VERIF
from .terms import RF, lift, Unsupported
import itertools
from .guards import Ctx, A, Not, And, Or, atoms_of, ev, facts_from, show_f, literals, consistent
from .summ import (Summarizer, State, Sym, ListV, DictV, BoolV, WILD, DONTCARE, vkey, show_value, to_num, Leaf)
from .guards import show_f, Not
from .laws import all_atoms, assignments, select, subst_value, values_equal, show_alpha

OPAQUE_TAGS = {"comp", "lambda", "fstr", "star"}


# ------------------------------------------------------------------------------------------------ roles
def roles(model):
    """structural resolution of the role carriers (DESIGN appendix A)"""
    sysc = model.cls("System")
    r = {}
    want = {"_get_parents": "PARENTS", "_get_childs": "CHILDS", "_get_topo_sort": "TOPO"}
    for fn in sysc.body:
        if not isinstance(fn, ast.FunctionDef):
            continue
        found = {}
        for n in ast.walk(fn):
            if isinstance(n, ast.Assign) and len(n.targets) == 1 and isinstance(n.targets[0], ast.Attribute) \
                    and isinstance(n.targets[0].value, ast.Name) and n.targets[0].value.id == "self" \
                    and isinstance(n.value, ast.Call) and isinstance(n.value.func, ast.Attribute) \
                    and isinstance(n.value.func.value, ast.Name) and n.value.func.value.id == "self" \
                    and n.value.func.attr in want:
                found[want[n.value.func.attr]] = n.targets[0].attr
        if len(found) == 3:
            r.update(found)
            r["REL_UPDATE"] = fn.name
    # PHASE_LKUP: attribute filled while iterating registry phase_conf
    for fn in sysc.body:
        if not isinstance(fn, ast.FunctionDef):
            continue
        for loop in ast.walk(fn):
            if isinstance(loop, ast.For) and "phase_conf" in ast.dump(loop.iter):
                for n in ast.walk(loop):
                    if isinstance(n, ast.Assign) and isinstance(n.targets[0], ast.Subscript) \
                            and isinstance(n.targets[0].value, ast.Attribute) and isinstance(n.targets[0].value.value, ast.Name) \
                            and n.targets[0].value.value.id == "self":
                        r["PHLK"] = n.targets[0].value.attr
                        r["SET_PHLK"] = fn.name
    # ... or built in one expression, self.X = {K: V for T in <phase_conf>...}: read as `self.X = {}` followed by the loop (rewritten in
    # place, once per model: every rule then sees the loop form)
    if "PHLK" not in r:
        for fn in sysc.body:
            if not isinstance(fn, ast.FunctionDef):
                continue
            for i, n in enumerate(fn.body):
                if isinstance(n, ast.Assign) and len(n.targets) == 1 and isinstance(n.targets[0], ast.Attribute) and isinstance(n.targets[0].value, ast.Name) \
                        and n.targets[0].value.id == "self" and isinstance(n.value, ast.DictComp) and len(n.value.generators) == 1 \
                        and "phase_conf" in ast.dump(n.value.generators[0].iter) and not n.value.generators[0].ifs:
                    g = n.value.generators[0]
                    tgt = ast.Attribute(value=ast.Name(id="self", ctx=ast.Load()), attr=n.targets[0].attr, ctx=ast.Load())
                    init = ast.copy_location(ast.Assign(targets=[n.targets[0]], value=ast.Dict(keys=[], values=[])), n)
                    store = ast.Assign(targets=[ast.Subscript(value=tgt, slice=n.value.key, ctx=ast.Store())], value=n.value.value)
                    loop = ast.copy_location(ast.For(target=g.target, iter=g.iter, body=[ast.copy_location(store, n)], orelse=[]), n)
                    for y in ast.walk(loop):
                        if isinstance(y, ast.Name) and any(y is z for z in ast.walk(g.target)):
                            y.ctx = ast.Store()
                    fn.body[i:i + 1] = [init, loop]
                    ast.fix_missing_locations(fn)
                    for node in ast.walk(fn):
                        for ch in ast.iter_child_nodes(node):
                            if not isinstance(ch, (ast.expr_context, ast.operator, ast.cmpop, ast.boolop, ast.unaryop)):
                                ch._parent = node
                    r["PHLK"] = n.targets[0].attr
                    r["SET_PHLK"] = fn.name
                    break
    # SOLVER: method with the only while loop calling two sibling methods
    for fn in sysc.body:
        if isinstance(fn, ast.FunctionDef):
            whiles = [n for n in ast.walk(fn) if isinstance(n, ast.While)]
            if len(whiles) == 1:
                calls = [c.func.attr for c in ast.walk(whiles[0]) if isinstance(c, ast.Call) and isinstance(c.func, ast.Attribute)
                         and isinstance(c.func.value, ast.Name) and c.func.value.id == "self"]
                disp = []
                for cname in calls:
                    m = model.own_method("System", cname)
                    if m is not None:
                        for c in ast.walk(m):
                            if isinstance(c, ast.Call) and isinstance(c.func, ast.Attribute) and c.func.attr in ("_solv_outp_volt", "_solv_inp_curr"):
                                disp.append((cname, c.func.attr))
                d = dict((b, a) for a, b in disp)
                if "_solv_outp_volt" in d and "_solv_inp_curr" in d:
                    r["SOLVER"] = fn.name
                    r["FWD"] = d["_solv_outp_volt"]
                    r["BACK"] = d["_solv_inp_curr"]
    # CHILD_I: method called by both FWD and BACK
    if "FWD" in r:
        def selfcalls(name):
            m = model.own_method("System", name)
            return {c.func.attr for c in ast.walk(m) if isinstance(c, ast.Call) and isinstance(c.func, ast.Attribute)
                    and isinstance(c.func.value, ast.Name) and c.func.value.id == "self"}
        both = selfcalls(r["FWD"]) & selfcalls(r["BACK"])
        if len(both) > 1 and "CHILDS" in r:
            # several shared helpers: the child-current sum is the one that loops over a node's child list
            def sums_children(name):
                m = model.own_method("System", name)
                return m is not None and any(isinstance(l, ast.For) and ast.unparse(l.iter).startswith("self.%s[" % r["CHILDS"]) for l in ast.walk(m))
            both = {b for b in both if sums_children(b)}
        if len(both) == 1:
            r["CHILD_I"] = both.pop()
    return Roles(r)


class Roles(dict):
    """role -> carrier; a role that could not be resolved is an analysis error for the rule that asks for it (and only for that rule:
    a rule about the TOML loader does not depend on the solver loop being readable)"""
    NEED = ["PARENTS", "CHILDS", "TOPO", "PHLK", "SOLVER", "FWD", "BACK", "CHILD_I", "REL_UPDATE", "SET_PHLK"]

    def __missing__(self, k):
        raise AnalysisError("role anchor not found: %s" % k)

    def __deepcopy__(self, memo):
        return Roles(dict(self))


# ------------------------------------------------------------------------------------------------ hooks
class SysHooks:
    def __init__(self, model, roles_, inline_names=()):
        self.model, self.roles = model, roles_
        self.inline_names = set(inline_names)

    def name(self, id):
        if id == "ANY":
            return WILD
        if id == "DONTCARE":
            return DONTCARE
        return None

    def inline(self, fname):
        if fname.startswith("self.") and fname[5:] in self.inline_names:
            m = self.model.own_method("System", fname[5:])
            if m is not None:
                return m, True
        # a small private helper without loops (extracted from a pass or a report) is read as part of its caller
        if fname.startswith("self._") and fname[5:].isidentifier() and fname[5:] not in self.opaque_methods():
            m = self.model.own_method("System", fname[5:])
            if m is not None and not any(isinstance(x, (ast.For, ast.While, ast.Try, ast.With)) for x in ast.walk(m)) \
                    and sum(1 for x in ast.walk(m) if isinstance(x, ast.stmt)) <= 12:
                return m, True
        return None

    def opaque_methods(self):
        """methods the rules refer to by name (roles) or that the reference texts mention: never inlined implicitly"""
        r = self.roles or {}
        return {r.get(k) for k in ("SOLVER", "FWD", "BACK", "CHILD_I", "REL_UPDATE", "SET_PHLK")} | \
            {"_get_index", "_get_parent_name", "_find_domain", "_calc_energy", "_get_parents", "_get_childs", "_get_nodes", "_get_sources", "_get_pmux",
             "_get_topo_sort", "_sys_vars", "_sys_init", "_chk_parent", "_chk_comp", "_chk_name", "_get_applims", "_filt_lim", "_pars_and_limits",
             "_get_childs_tree", "_make_rtree", "_get_params"}

    def comprehension(self, sm, n, st):
        if isinstance(n, (ast.ListComp, ast.GeneratorExp)) and len(n.generators) == 1 and not n.generators[0].ifs \
                and isinstance(n.generators[0].target, ast.Name):
            g = n.generators[0]
            it = sm.expr(g.iter, st)
            s2 = st.fork()
            s2.env[g.target.id] = Sym(("bound",))
            elt = sm.expr(n.elt, s2)
            return Sym(("listcomp", vkey(elt), vkey(it)))
        return None

    def loop(self, sm, node, st):
        """acc = []; for x in it: [t = g(x)]; acc.append(f(x, t))   is the comprehension [f(x, g(x)) for x in it]"""
        if not (isinstance(node, ast.For) and isinstance(node.target, ast.Name) and not node.orelse and node.body):
            return None
        last = node.body[-1]
        acc = None
        if isinstance(last, ast.Expr) and isinstance(last.value, ast.Call) and isinstance(last.value.func, ast.Attribute) and last.value.func.attr == "append" \
                and isinstance(last.value.func.value, ast.Name) and len(last.value.args) == 1:
            acc, item = last.value.func.value.id, last.value.args[0]
        elif isinstance(last, ast.AugAssign) and isinstance(last.op, ast.Add) and isinstance(last.target, ast.Name) and isinstance(last.value, ast.List) and len(last.value.elts) == 1:
            acc, item = last.target.id, last.value.elts[0]
        if acc is None or not isinstance(st.env.get(acc), ListV) or st.env[acc].items:
            return None
        if not all(isinstance(s, ast.Assign) and len(s.targets) == 1 and isinstance(s.targets[0], ast.Name) for s in node.body[:-1]):
            return None
        it = sm.expr(node.iter, st)
        s2 = st.fork()
        s2.env[node.target.id] = Sym(("bound",))
        for s in node.body[:-1]:
            s2.env[s.targets[0].id] = sm.expr(s.value, s2)
        elt = sm.expr(item, s2)
        st.env[acc] = Sym(("listcomp", vkey(elt), vkey(it)))
        return [(st, None)]

    def call(self, sm, node, fname, args, kwargs, st):
        f = node.func
        # dispatch on a graph node payload: self._g[idx].method(...)
        if isinstance(f, ast.Attribute) and isinstance(f.value, ast.Subscript) and isinstance(f.value.value, ast.Attribute) \
                and f.value.value.attr == "_g" and isinstance(f.value.value.value, ast.Name) and f.value.value.value.id == "self":
            recv = sm.expr(f.value.slice, st)
            val = ("dispatch", f.attr, recv, tuple(args))
            st.events.append(("dispatch", f.attr, recv, tuple(args), node.lineno))
            return Sym(("dispatch", f.attr, vkey(recv), tuple(vkey(a) for a in args)))
        # the same through a local alias of the payload: comp = self._g[n]; comp.method(...)
        if isinstance(f, ast.Attribute) and isinstance(f.value, ast.Name) and f.value.id != "self":
            base = st.env.get(f.value.id)
            if isinstance(base, Sym) and base.key[0] == "sub" and base.key[1] == Sym(("attr", Sym(("name", "self")), "_g")):
                recv = base.key[2]
                st.events.append(("dispatch", f.attr, recv, tuple(args), node.lineno))
                return Sym(("dispatch", f.attr, vkey(recv), tuple(vkey(a) for a in args)))
        # degrees are non-negative integers: `== 0`, `> 0`, `!= 0`, `>= 1` then meet in one atom
        if isinstance(f, ast.Attribute) and f.attr in ("in_degree", "out_degree") and len(args) == 1:
            return RF.atom(("nn", Sym(("mcall", vkey(sm.expr(f.value, st)), f.attr, (vkey(args[0]),)))))
        if fname == "DISPATCH":
            st.events.append(("dispatch", args[0], args[1], tuple(args[2:]), node.lineno))
            return Sym(("dispatch", args[0], vkey(args[1]), tuple(vkey(a) for a in args[2:])))
        if fname == "np.array" and len(args) == 1:
            return args[0]
        return None


def spec_functions(roles_):
    p = os.path.join(VERIF, "sa", "spec_sys.py")
    with open(p) as f:
        t = ast.parse(f.read())
    ren = {"_parents": roles_["PARENTS"], "_childs": roles_["CHILDS"], "_phase_lkup": roles_["PHLK"],
           "_child_curr": roles_["CHILD_I"]}
    for n in ast.walk(t):
        if isinstance(n, ast.Attribute) and isinstance(n.value, ast.Name) and n.value.id == "self" and n.attr in ren:
            n.attr = ren[n.attr]
    return {n.name: n for n in t.body if isinstance(n, ast.FunctionDef)}


def has_opaque(v):
    """does a value contain a construct the engine did not read (then a mismatch is no verdict)"""
    if isinstance(v, Sym):
        return _opq_key(v.key)
    if isinstance(v, (tuple, list)):
        return any(has_opaque(x) for x in v)
    if isinstance(v, ListV):
        return any(has_opaque(x) for x in v.items)
    if isinstance(v, DictV):
        return any(has_opaque(x) for _, x in v.items)
    if isinstance(v, RF):
        return any(_opq_key(a) for a in v.atoms())
    return False


def _opq_key(k):
    if isinstance(k, tuple):
        if k and k[0] in OPAQUE_TAGS:
            return True
        return any(_opq_key(x) if isinstance(x, tuple) else has_opaque(x) for x in k)
    return False


# ------------------------------------------------------------------------------------------------ loop bodies
def find_loop(fn, pred, what):
    hits = [n for n in ast.walk(fn) if isinstance(n, (ast.For, ast.While)) and pred(n)]
    if len(hits) > 1:
        # loops nested in another candidate are part of its body
        inner = {id(y) for h in hits for y in ast.walk(h) if y is not h}
        hits = [h for h in hits if id(h) not in inner]
    if len(hits) != 1:
        raise AnalysisError("%s: expected exactly one loop in %s, found %d" % (what, fn.name, len(hits)))
    return hits[0]


def iter_is_role(loop, attr):
    """for <x> in self.<attr>  (optionally sliced / subscripted)"""
    it = loop.iter
    if isinstance(it, ast.Call) and isinstance(it.func, ast.Name) and it.func.id == "reversed" and len(it.args) == 1:
        it = it.args[0]
    while isinstance(it, ast.Subscript):
        it = it.value
    return isinstance(it, ast.Attribute) and it.attr == attr and isinstance(it.value, ast.Name) and it.value.id == "self"


def loop_domain_rule(rep, rule, model, loop, construct, want, what):
    """the loop must range over exactly the documented domain (every node once, in the documented direction)"""
    got = ast.unparse(loop.iter).replace(" ", "")
    ok = got in [w.replace(" ", "") for w in want]
    if not ok:
        rep.violation(rule, construct, "%s:%d" % (model.rel("system"), loop.lineno), "%s ranges over %s, expected %s: nodes are skipped or visited in the wrong order" % (what, ast.unparse(loop.iter), " or ".join(want)), "loop domain " + got)
    rep.instance(rule, construct + " loop domain", "%s:%d" % (model.rel("system"), loop.lineno), ok)
    return ok


def enclosing_chain(fn, node):
    """statements lists from fn.body down to the list containing node: [(list, index)]"""
    def rec(body):
        for i, s in enumerate(body):
            if s is node:
                return [(body, i)]
            for fld in ("body", "orelse", "finalbody"):
                sub = getattr(s, fld, None)
                if isinstance(sub, list):
                    r = rec(sub)
                    if r is not None:
                        return [(body, i)] + r
            if isinstance(s, ast.Try):
                for h in s.handlers:
                    r = rec(h.body)
                    if r is not None:
                        return [(body, i)] + r
            if isinstance(s, ast.With):
                pass
        return None
    r = rec(fn.body)
    if r is None:
        raise AnalysisError("loop not found in %s" % fn.name)
    return r


def pre_env(sm, fn, loop, args):
    """environment at loop entry: straight-line statements that precede the loop on the way down from the
    function body (conditionals before it are skipped unless they are single-path; loop headers bind their
    target to a symbol)"""
    st = State(args)
    for body, idx in enclosing_chain(fn, loop):
        for s in body[:idx]:
            if isinstance(s, (ast.Assign, ast.AugAssign, ast.AnnAssign)) or (isinstance(s, ast.Expr) and isinstance(s.value, ast.Constant)):
                try:
                    outs = sm.stmt(s, st)
                except Unsupported:
                    continue
                if len(outs) == 1 and outs[0][1] is None:
                    st = outs[0][0]
            elif isinstance(s, (ast.If, ast.For, ast.While, ast.With, ast.Try)):
                # names (re)bound under a condition / in a loop before the loop of interest are unknown there
                for x in ast.walk(s):
                    if isinstance(x, ast.Name) and isinstance(x.ctx, ast.Store):
                        st.env[x.id] = Sym(("name", x.id))
        holder = body[idx]
        if holder is not loop and isinstance(holder, ast.For) and isinstance(holder.target, ast.Name):
            st.env[holder.target.id] = Sym(("name", holder.target.id))
    st.events = []
    return st


def body_leaves(model, roles_, cls_method, loop_pred, what, loopvar_sym=None, inline=(), extra_env=None):
    fn = model.own_method("System", cls_method)
    if fn is None:
        raise AnalysisError("System.%s not found" % cls_method)
    loop = find_loop(fn, loop_pred, what)
    hooks = SysHooks(model, roles_, inline)
    sm = Summarizer(hooks, Ctx())
    a = fn.args
    args = {x.arg: Sym(("name", x.arg)) for x in a.posonlyargs + a.args + a.kwonlyargs}
    st = pre_env(sm, fn, loop, args)
    if isinstance(loop, ast.For):
        if not isinstance(loop.target, ast.Name):
            raise AnalysisError("%s: loop target is not a name" % what)
        st.env[loop.target.id] = loopvar_sym or Sym(("name", loop.target.id))
    if extra_env:
        st.env.update(extra_env)
    try:
        leaves = sm.summarize_block(loop.body, st.env)
    except Unsupported as e:
        raise AnalysisError("%s: %s" % (what, e))
    return fn, loop, leaves, st.env


def spec_leaves(model, roles_, name, args, inline=()):
    fn = spec_functions(roles_)[name]
    hooks = SysHooks(model, roles_, inline)
    sm = Summarizer(hooks, Ctx())
    try:
        return sm.summarize(fn, args)
    except Unsupported as e:
        raise AnalysisError("reference %s: %s" % (name, e))


def compare_rows(code_leaves, spec_leaves_, code_val, spec_val, rep, rule, construct, where, what):
    """pairwise truth table: for every (code path, reference path) whose guards can hold together, the values
    extracted by code_val/spec_val must agree under the facts of every consistent joint guard row"""
    ctx = Ctx()
    rows = 0
    bad = {}
    for c in code_leaves:
        clits = {}
        for g in c.guards:
            literals(g, True, clits)
        for s in spec_leaves_:
            lits = dict(clits)
            conflict = False
            slits = {}
            for g in s.guards:
                literals(g, True, slits)
            for k, v in slits.items():
                if lits.setdefault(k, v) != v:
                    conflict = True
                    break
            if conflict:
                continue
            conj = And(*(c.guards + s.guards))
            free = sorted(atoms_of(conj) - set(lits), key=repr)
            if len(free) > 12:
                raise AnalysisError("%s: guard table too large (%d free atoms)" % (what, len(free)))
            for bits in itertools.product((False, True), repeat=len(free)):
                alpha = dict(lits)
                alpha.update(zip(free, bits))
                if ev(conj, alpha) is not True or not consistent(alpha, ctx):
                    continue
                rows += 1
                if s.kind == "return" and s.value is DONTCARE:
                    continue
                if c.kind in ("raise", "break") or s.kind == "raise":
                    if c.kind != s.kind:
                        bad.setdefault(("exit", c.kind, s.kind), alpha)
                    continue
                mp, rctx = facts_from(alpha, ctx)
                cv = code_val(c)
                sv = spec_val(s)
                for label in sv:
                    if label not in cv:
                        raise AnalysisError("%s: %s has no '%s' on this path" % (what, construct, label))
                    x, y = subst_value(cv[label], mp, rctx), subst_value(sv[label], mp, rctx)
                    ok, idx = values_equal(x, y)
                    if not ok:
                        if has_opaque(x):
                            raise AnalysisError("%s: '%s' is computed by a construct the engine does not read: %s" % (what, label, show_value(x)))
                        bad.setdefault((label, show_value(cv[label]), show_value(sv[label]), idx), (alpha, x, y))
    rep.count("guard_rows", rows)
    if rows == 0:
        raise AnalysisError("%s: no joint guard row" % what)
    for key, info in bad.items():
        if key[0] == "exit":
            rep.violation(rule, construct, where, "%s: the loop body exits by '%s' where the reference ends by '%s' (a break abandons the remaining iterations)" % (what, key[1], key[2]), "exit %s/%s" % key[1:])
            continue
        alpha, x, y = info
        label = key[0]
        msg = "%s: '%s' is %s, expected %s on guard row {%s}" % (what, label, show_value(x), show_value(y), show_alpha(alpha))
        rep.violation(rule, construct, where, msg, "%s: code %s | spec %s" % (label, key[1], key[2]))
    return rows, not bad


def dispatch_of(leaf, method, what):
    d = [e for e in leaf.events if e[0] == "dispatch" and e[1] == method]
    if len(d) != 1:
        raise AnalysisError("%s: expected one %s dispatch per path, found %d" % (what, method, len(d)))
    return d[0]


# ------------------------------------------------------------------------------------------------ C01 R4-R6
def c01_wiring(model, rep):
    r = roles(model)
    rep.extra["roles"] = r
    rep.attempt(relation_table_rule, model, rep, "R4")
    rep.attempt(child_current_rule, model, rep, r, "R5")
    rep.attempt(pass_wiring, model, rep, r, "R4")
    rep.attempt(solver_loops_state, model, rep, r, "R4")
    rep.attempt(row_assembly, model, rep, r, "R6", ["Vin (V)", "Vout (V)", "Iin (A)", "Iout (A)", "Parent", "Component", "Type"])


def solver_loops_state(model, rep, r, rule):
    """no node of a solver pass sees what the pass computed for an unrelated node"""
    rel = model.rel("system")
    sol = solver_anatomy(model, r)
    n = 0
    for meth, pred, what, kw in ((r["FWD"], lambda l: iter_is_role(l, r["TOPO"]), "forward pass", {"parent_attr": r["PARENTS"]}),
                                 (r["BACK"], lambda l: iter_is_role(l, r["TOPO"]), "backward pass", {"child_attr": r["CHILDS"]}),
                                 (r["CHILD_I"], lambda l: iter_is_role(l, r["CHILDS"]), "child-current sum", {}),
                                 (sol["init"].value.func.attr, lambda l: True, "initialiser", {"parent_attr": r["PARENTS"]})):
        fn = model.own_method("System", meth)
        if fn is None:
            raise AnalysisError("System.%s not found" % meth)
        loops = [l for l in ast.walk(fn) if isinstance(l, ast.For) and pred(l)]
        if not loops:
            raise AnalysisError("%s: loop not found" % meth)
        for loop in loops:
            kw2 = dict(kw)
            if what == "initialiser" and not iter_is_role(loop, r["TOPO"]):
                kw2.pop("parent_attr", None)        # a parent's slot is only known to be filled when parents come first
            iteration_state_rule(model, rep, rule, "system.System.%s" % meth, "%s:%d" % (rel, loop.lineno), loop, what, **kw2)
            n += 1
    return n


def pass_wiring(model, rep, r, rule):
    """forward / backward pass: which law is evaluated on which operands"""
    rel = model.rel("system")
    n_inst = 0
    for role, specname, method in (("FWD", "fwd_prop__body", "_solv_outp_volt"), ("BACK", "back_prop__body", "_solv_inp_curr")):
        fn, loop, cl, env = body_leaves(model, r, r[role], lambda l: isinstance(l, ast.For) and iter_is_role(l, r["TOPO"]), role + " loop")
        ps = [a.arg for a in fn.args.args][1:]
        if len(ps) != 4:
            raise AnalysisError("%s has %d parameters" % (r[role], len(ps)))
        sargs = {"self": Sym(("name", "self")), "n": Sym(("name", loop.target.id)), "v": env[ps[0]], "i": env[ps[1]], "phase": env[ps[2]], "state": env[ps[3]]}
        sl = spec_leaves(model, r, specname, sargs)

        def cval(lf, method=method, role=role):
            d = dispatch_of(lf, method, role)
            return {"receiver": d[2], "arguments": d[3]}

        def sval(lf, method=method, role=role):
            d = dispatch_of(lf, method, role)
            return {"receiver": d[2], "arguments": d[3]}
        T = "self.%s" % r["TOPO"]
        loop_domain_rule(rep, rule, model, loop, "system.System.%s" % r[role], [T] if role == "FWD" else [T + "[::-1]", "reversed(%s)" % T, "list(reversed(%s))" % T],
                         "the %s pass" % ("forward" if role == "FWD" else "backward"))
        rows, ok = compare_rows(cl, sl, cval, sval, rep, rule, "system.System.%s" % r[role], "%s:%d" % (rel, loop.lineno), role + " pass wiring")
        # result stored at the receiver's own index
        for lf in cl:
            d = dispatch_of(lf, method, role)
            idxs = [e[1][2] for e in lf.events if e[0] == "store" and e[1][0] == "sub"]
            if not idxs or any(vkey(ix) != vkey(d[2]) for ix in idxs):
                ok = False
                rep.violation(rule, "system.System.%s" % r[role], "%s:%d" % (rel, loop.lineno),
                              "%s pass stores the result of node %s at index %s" % (role, show_value(d[2]), ", ".join(show_value(x) for x in idxs)),
                              "result index")
        rep.instance(rule, "system.System.%s loop body" % r[role], "%s:%d" % (rel, loop.lineno), ok, "%d leaves, %d rows" % (len(cl), rows))
        n_inst += 1
    return n_inst


def acc_name(loop, env):
    """the accumulator of a sum loop: the name that is augmented in the body"""
    names = {n.target.id for n in ast.walk(loop) if isinstance(n, ast.AugAssign) and isinstance(n.target, ast.Name)}
    if len(names) != 1:
        raise AnalysisError("sum loop has %d accumulators" % len(names))
    return names.pop()


def check_acc_init(model, rep, fn, loop, acc, rel, rule="R5"):
    env_val = None
    for s in fn.body:
        if s is loop:
            break
        if isinstance(s, ast.Assign):
            tg = s.targets[0]
            if isinstance(tg, ast.Name) and tg.id == acc:
                env_val = s.value
            elif isinstance(tg, ast.Tuple) and isinstance(s.value, ast.Tuple):
                for t, v in zip(tg.elts, s.value.elts):
                    if isinstance(t, ast.Name) and t.id == acc:
                        env_val = v
    ok = isinstance(env_val, ast.Constant) and env_val.value in (0, 0.0)
    rets = [n for n in ast.walk(fn) if isinstance(n, ast.Return)]
    ok2 = len(rets) == 1 and isinstance(rets[0].value, ast.Name) and rets[0].value.id == acc
    if not ok:
        rep.violation(rule, "system.System.%s" % fn.name, "%s:%d" % (rel, fn.lineno), "current sum does not start at 0", "acc init")
    if not ok2:
        rep.violation(rule, "system.System.%s" % fn.name, "%s:%d" % (rel, fn.lineno), "the summed current is not what is returned", "acc return")
    rep.instance(rule, "system.System.%s accumulator" % fn.name, "%s:%d" % (rel, fn.lineno), ok and ok2)


# ------------------------------------------------------------------------------------------------ solve() row body
def sink_map_columns(model, fn, is_row):
    """a column computed after the row loop as one value per row,
           COL = [E(x) for x in <the row loop's iterable>]      or      COL = [E(x) for x in L]  with one `L += [V]` per row,
    is the same column as `COL += [E(n)]` / `COL += [E(V)]` emitted inside the loop: rewritten so (on a copy, cached), names
    bound once to a loop-invariant attribute / subscript chain between the loop and the column are read through"""
    key = "_sunk_" + fn.name
    if key in model.__dict__:
        return model.__dict__[key]
    from .core import clone_ast
    hits = [n for n in ast.walk(fn) if isinstance(n, ast.For) and is_row(n)]
    inner = {id(y) for h in hits for y in ast.walk(h) if y is not h}
    hits = [h for h in hits if id(h) not in inner]
    out = fn
    if len(hits) == 1:
        new = clone_ast(fn)
        row = [n for n in ast.walk(new) if isinstance(n, ast.For) and ast.dump(n) == ast.dump(hits[0])]
        row = row[0] if len(row) == 1 else None
        blk = None
        if row is not None:
            for n in ast.walk(new):
                for fld in ("body", "orelse", "finalbody"):
                    b = getattr(n, fld, None)
                    if isinstance(b, list) and any(x is row for x in b):
                        blk = b
        changed = False
        if blk is not None:
            k = [i for i, x in enumerate(blk) if x is row][0]
            stores = {}
            for x in ast.walk(new):
                if isinstance(x, ast.Name) and isinstance(x.ctx, ast.Store):
                    stores[x.id] = stores.get(x.id, 0) + 1

            def chain(e):
                while isinstance(e, (ast.Attribute, ast.Subscript)):
                    if isinstance(e, ast.Subscript) and not isinstance(e.slice, ast.Constant):
                        return False
                    e = e.value
                return isinstance(e, ast.Name) and e.id == "self"
            alias = {}
            j = k + 1
            while j < len(blk):
                st = blk[j]
                if isinstance(st, ast.Pass):
                    j += 1
                    continue
                if isinstance(st, ast.Assign) and len(st.targets) == 1 and isinstance(st.targets[0], ast.Name) and stores.get(st.targets[0].id) == 1 and chain(st.value):
                    alias[st.targets[0].id] = st.value
                    j += 1
                    continue
                if not (isinstance(st, ast.Assign) and len(st.targets) == 1 and isinstance(st.targets[0], ast.Name) and isinstance(st.value, ast.ListComp)
                        and len(st.value.generators) == 1 and not st.value.generators[0].ifs and isinstance(st.value.generators[0].target, ast.Name)
                        and not any(isinstance(y, ast.Name) and y.id == st.targets[0].id for y in ast.walk(row))):
                    break
                col, g = st.targets[0].id, st.value.generators[0]
                x = g.target.id
                repl, at = None, None
                if ast.dump(g.iter) == ast.dump(row.iter) and isinstance(row.target, ast.Name):
                    repl, at = ast.Name(id=row.target.id, ctx=ast.Load()), len(row.body)
                elif isinstance(g.iter, ast.Name):
                    L = g.iter.id
                    emits = [(i, e) for i, e in enumerate(row.body) for e in [_emitted(e, L)] if e is not None]
                    nested = sum(1 for y in ast.walk(row) if _emitted(y, L) is not None)
                    if len(emits) == 1 and nested == 1:
                        repl, at = emits[0][1], emits[0][0] + 1
                if repl is None:
                    break

                class Sub(ast.NodeTransformer):
                    def visit_Name(self, n):
                        if isinstance(n.ctx, ast.Load) and n.id == x:
                            return clone_ast(repl)
                        if isinstance(n.ctx, ast.Load) and n.id in alias:
                            return clone_ast(alias[n.id])
                        return n
                elt = Sub().visit(clone_ast(st.value.elt))
                row.body.insert(at, ast.copy_location(ast.AugAssign(target=ast.Name(id=col, ctx=ast.Store()), op=ast.Add(), value=ast.List(elts=[elt], ctx=ast.Load())), st))
                blk[j] = ast.copy_location(ast.Pass(), st)
                blk.insert(k, ast.copy_location(ast.Assign(targets=[ast.Name(id=col, ctx=ast.Store())], value=ast.List(elts=[], ctx=ast.Load())), row))
                k += 1
                j += 2
                changed = True
        if changed:
            ast.fix_missing_locations(new)
            for node in ast.walk(new):
                for ch in ast.iter_child_nodes(node):
                    if not isinstance(ch, (ast.expr_context, ast.operator, ast.cmpop, ast.boolop, ast.unaryop)):
                        ch._parent = node
            out = new
    model.__dict__[key] = out
    return out


def _emitted(stmt, L):
    """L += [V] / L.append(V) -> V"""
    if isinstance(stmt, ast.AugAssign) and isinstance(stmt.op, ast.Add) and is_name(stmt.target, L) and isinstance(stmt.value, ast.List) and len(stmt.value.elts) == 1:
        return stmt.value.elts[0]
    if isinstance(stmt, ast.Expr) and isinstance(stmt.value, ast.Call) and isinstance(stmt.value.func, ast.Attribute) and stmt.value.func.attr == "append" \
            and is_name(stmt.value.func.value, L) and len(stmt.value.args) == 1:
        return stmt.value.args[0]
    return None


def solve_anchors(model, r):
    """ROW LOOP / PHASE LOOP / V,I,STATE / channel map of System.solve"""
    fn = model.own_method("System", "solve")
    if fn is None:
        raise AnalysisError("System.solve not found")
    if "_solve_inlined" not in model.__dict__:
        from .core import inline_nested_defs
        model.__dict__["_solve_inlined"] = inline_nested_defs(fn)
    fn = model.__dict__["_solve_inlined"]
    fn = sink_map_columns(model, fn, lambda l: isinstance(l, ast.For) and iter_is_role(l, r["TOPO"]))
    def _is_row(l):
        return isinstance(l, ast.For) and iter_is_role(l, r["TOPO"])

    def _has_power_law(l):
        return any(isinstance(c, ast.Call) and isinstance(c.func, ast.Attribute) and c.func.attr == "_solv_pwr_loss" for c in ast.walk(l))
    cands = [n for n in ast.walk(fn) if _is_row(n)]
    if len([c for c in cands if _has_power_law(c)]) == 1 and len(cands) > 1:
        # several loops over the nodes: the one that evaluates the power / loss law builds the rows, the others prepare values for it
        row = find_loop(fn, lambda l: _is_row(l) and _has_power_law(l), "row loop")
    else:
        row = find_loop(fn, _is_row, "row loop")
    chain = enclosing_chain(fn, row)
    phase_loop = None
    for body, idx in chain:
        if isinstance(body[idx], ast.For) and body[idx] is not row:
            phase_loop = body[idx]
    if phase_loop is None:
        raise AnalysisError("row loop of solve is not nested in a phase loop")
    # values the rows read from a container that another loop of the same phase iteration fills: either the simple per-node form
    # `for m in nodes: X[m] = E(m)` (then X[n] is E(n), written out here), or something the row reader does not follow
    row_reads = {y.value.id for y in ast.walk(row) if isinstance(y, ast.Subscript) and isinstance(y.ctx, ast.Load) and isinstance(y.value, ast.Name)}
    for lp in [x for x in ast.walk(phase_loop) if isinstance(x, (ast.For, ast.While)) and x is not row and not any(y is x for y in ast.walk(row))
               and not any(y is row for y in ast.walk(x))]:
        filled = set()
        for y in ast.walk(lp):
            if isinstance(y, ast.Subscript) and isinstance(y.ctx, ast.Store) and isinstance(y.value, ast.Name):
                filled.add(y.value.id)
            if isinstance(y, ast.AugAssign) and isinstance(y.target, ast.Subscript) and isinstance(y.target.value, ast.Name):
                filled.add(y.target.value.id)
        hit = filled & row_reads
        if hit and getattr(lp, "lineno", 0) < getattr(row, "lineno", 0):
            raise AnalysisError("solve: the rows read %s, which another loop of the same phase iteration fills beforehand: a two-pass row assembly the reader does not follow" % ", ".join(sorted(hit)))
    # V, I, ITERS, STATE: tuple targets of the SOLVER call
    vis = None
    for n in ast.walk(phase_loop):
        if isinstance(n, ast.Assign) and isinstance(n.value, ast.Call) and isinstance(n.value.func, ast.Attribute) \
                and n.value.func.attr == r["SOLVER"] and isinstance(n.targets[0], ast.Tuple) and len(n.targets[0].elts) == 4:
            vis = [e.id for e in n.targets[0].elts]
            solver_call = n
    if vis is None:
        raise AnalysisError("solver call with 4 results not found in solve")
    # channels: res["header"] = name
    chan = {}
    for n in ast.walk(phase_loop):
        if isinstance(n, ast.Assign) and isinstance(n.targets[0], ast.Subscript) and isinstance(n.targets[0].value, ast.Name) \
                and isinstance(n.targets[0].slice, ast.Constant) and isinstance(n.targets[0].slice.value, str) and isinstance(n.value, ast.Name):
            chan.setdefault(n.targets[0].slice.value, n.value.id)
    # the first entries may be given as a dict literal: res = {"Component": names, "Type": typ}
    resvars = {n.targets[0].value.id for n in ast.walk(phase_loop) if isinstance(n, ast.Assign) and isinstance(n.targets[0], ast.Subscript)
               and isinstance(n.targets[0].value, ast.Name) and isinstance(n.targets[0].slice, ast.Constant) and n.targets[0].slice.value in chan}
    for n in ast.walk(phase_loop):
        if isinstance(n, ast.Assign) and len(n.targets) == 1 and isinstance(n.targets[0], ast.Name) and n.targets[0].id in resvars and isinstance(n.value, ast.Dict):
            for k, v in zip(n.value.keys, n.value.values):
                if isinstance(k, ast.Constant) and isinstance(k.value, str) and isinstance(v, ast.Name):
                    chan.setdefault(k.value, v.id)
    # a column that exists only under a switch: header -> the test of the `if` whose body stores it
    chan_cond = {}
    for n in ast.walk(phase_loop):
        if isinstance(n, ast.If):
            for b in n.body:
                if isinstance(b, ast.Assign) and isinstance(b.targets[0], ast.Subscript) and isinstance(b.targets[0].slice, ast.Constant) \
                        and isinstance(b.targets[0].slice.value, str) and isinstance(b.value, ast.Name) and chan.get(b.targets[0].slice.value) == b.value.id:
                    chan_cond[b.targets[0].slice.value] = ast.unparse(n.test)
    return {"fn": fn, "row": row, "phase_loop": phase_loop, "V": vis[0], "I": vis[1], "ITERS": vis[2], "STATE": vis[3],
            "solver_call": solver_call, "chan": chan, "chan_cond": chan_cond}


_ROW_CACHE = {}
_ROW_PRE = {}


def row_pre_env(model, r):
    row_summary(model, r)
    return model.__dict__["_row_pre"]


def row_summary(model, r):
    key = id(model)
    if "_row_summary" in model.__dict__:
        return model.__dict__["_row_summary"]
    an = solve_anchors(model, r)
    fn, row = an["fn"], an["row"]
    hooks = SysHooks(model, r, ("_get_parent_name",))
    sm = Summarizer(hooks, Ctx())
    a = fn.args
    args = {x.arg: Sym(("name", x.arg)) for x in a.posonlyargs + a.args + a.kwonlyargs}
    st = pre_env(sm, fn, row, args)
    st.env[row.target.id] = Sym(("name", "n"))
    # per-row lists start empty so that after one iteration each holds exactly the emitted value
    for hdr, var in an["chan"].items():
        st.env[var] = ListV([])
    for v in (an["V"], an["I"], an["STATE"]):
        st.env[v] = Sym(("name", {an["V"]: "v", an["I"]: "i", an["STATE"]: "state"}[v]))
    st.env[an["phase_loop"].target.id] = Sym(("name", "ph"))
    model.__dict__["_row_pre"] = dict(st.env)
    try:
        leaves = sm.summarize_block(row.body, st.env)
    except Unsupported as e:
        raise AnalysisError("solve row body: %s" % e)
    sargs = {"self": Sym(("name", "self")), "n": Sym(("name", "n")), "v": Sym(("name", "v")), "i": Sym(("name", "i")),
             "state": Sym(("name", "state")), "ph": Sym(("name", "ph")), "ta": args.get("ta", Sym(("name", "ta")))}
    sl = spec_leaves(model, r, "solve__row", sargs, inline=())
    model.__dict__["_row_summary"] = (an, leaves, sl)
    return an, leaves, sl


def row_assembly(model, rep, r, rule, headers, construct="system.System.solve"):
    an, leaves, sl = row_summary(model, r)
    rel = model.rel("system")
    where = "%s:%d" % (rel, an["row"].lineno)
    for h in headers:
        if h not in an["chan"]:
            raise AnalysisError("solve: no result column '%s'" % h)

    def cval(lf):
        out = {}
        for h in headers:
            v = lf.env.get(an["chan"][h])
            if not isinstance(v, ListV) or len(v.items) != 1:
                raise AnalysisError("solve: column '%s' does not receive exactly one value per row" % h)
            out[h] = v.items[0]
        return out

    def sval(lf):
        if not isinstance(lf.value, DictV):
            raise AnalysisError("reference row is not a dict")
        return {h: lf.value.get(h) for h in headers}
    loop_domain_rule(rep, rule, model, an["row"], construct, ["self.%s" % r["TOPO"]], "the row loop of solve()")
    rows, ok = compare_rows(leaves, sl, cval, sval, rep, rule, construct, where, "row assembly")
    rep.instance(rule, "%s row body: %s" % (construct, ", ".join(headers)), where, ok, "%d leaves, %d rows" % (len(leaves), rows))
    rep.sample({"row_body_paths": len(leaves), "columns": headers})
    return ok


# ------------------------------------------------------------------------------------------------ C02 R6 / C09 R6
def c02_call_agreement(model, rep):
    r = roles(model)
    row_assembly(model, rep, r, "R6", ["Power (W)", "Loss (W)", "Efficiency (%)"])


# ------------------------------------------------------------------------------------------------ solver loop anatomy
def solver_normal_form(fn, model=None):
    """`return E` inside the solver's while loop, where the statement right after the loop is `return E` too, is the same as
    `break`: rewritten on a copy so that one exit discipline is analysed"""
    from .core import clone_ast, decontinue, inline_single_return_calls, inline_single_use_temps
    if model is not None:
        fn = inline_single_return_calls(decontinue(inline_single_use_temps(clone_ast(fn), only_bool=True)), model, "System")
        fn.body = [s for s in fn.body if not isinstance(s, ast.FunctionDef)]
        for node in ast.walk(fn):
            for ch in ast.iter_child_nodes(node):
                if not isinstance(ch, (ast.expr_context, ast.operator, ast.cmpop, ast.boolop, ast.unaryop)):
                    ch._parent = node
    loops = [s for s in fn.body if isinstance(s, ast.While)]
    if len(loops) != 1:
        return fn
    k = fn.body.index(loops[0])
    if k + 1 >= len(fn.body) or not isinstance(fn.body[k + 1], ast.Return) or fn.body[k + 1].value is None:
        return fn
    tail = ast.unparse(fn.body[k + 1].value)
    inner = [x for x in ast.walk(loops[0]) if isinstance(x, ast.Return) and x.value is not None and ast.unparse(x.value) == tail]
    if not inner or any(isinstance(x, (ast.For, ast.While)) and x is not loops[0] and any(y in inner for y in ast.walk(x)) for x in ast.walk(loops[0])):
        return fn
    new = clone_ast(fn)
    lp = [s for s in new.body if isinstance(s, ast.While)][0]

    def rewrite(stmts):
        for i, s in enumerate(stmts):
            if isinstance(s, ast.Return) and s.value is not None and ast.unparse(s.value) == tail:
                stmts[i] = ast.copy_location(ast.Break(), s)
            for fld in ("body", "orelse"):
                blk = getattr(s, fld, None)
                if isinstance(blk, list) and not isinstance(s, (ast.For, ast.While)):
                    rewrite(blk)
    rewrite(lp.body)
    for i, s in enumerate(list(lp.body)):
        if isinstance(s, ast.If) and s.orelse and isinstance(s.orelse[-1], ast.Break) and not isinstance(s.body[-1], (ast.Break, ast.Continue, ast.Return, ast.Raise)):
            neg = s.test.operand if isinstance(s.test, ast.UnaryOp) and isinstance(s.test.op, ast.Not) else ast.UnaryOp(op=ast.Not(), operand=s.test)
            lp.body[i:i + 1] = [ast.copy_location(ast.If(test=neg, body=s.orelse, orelse=[]), s)] + s.body
            break
    ast.fix_missing_locations(new)
    for node in ast.walk(new):
        for ch in ast.iter_child_nodes(node):
            if not isinstance(ch, (ast.expr_context, ast.operator, ast.cmpop, ast.boolop, ast.unaryop)):
                ch._parent = node
    return new


def solver_anatomy(model, r):
    """structure of the SOLVER method: while loop, forward/backward calls, carried triple, convergence test"""
    fn = solver_normal_form(model.own_method("System", r["SOLVER"]), model)
    loop = find_loop(fn, lambda l: isinstance(l, ast.While), "solver loop")
    an = {"fn": fn, "loop": loop}
    fwd = bwd = None
    for s in loop.body:
        if isinstance(s, ast.Assign) and isinstance(s.value, ast.Call) and isinstance(s.value.func, ast.Attribute) \
                and isinstance(s.value.func.value, ast.Name) and s.value.func.value.id == "self":
            if s.value.func.attr == r["FWD"]:
                fwd = s
            elif s.value.func.attr == r["BACK"]:
                bwd = s
    if fwd is None or bwd is None:
        raise AnalysisError("solver loop does not call the forward and backward pass at its top level")
    if not (isinstance(fwd.targets[0], ast.Tuple) and len(fwd.targets[0].elts) == 2 and all(isinstance(e, ast.Name) for e in fwd.targets[0].elts)):
        raise AnalysisError("forward pass result is not unpacked into (voltages, states)")
    if not isinstance(bwd.targets[0], ast.Name):
        raise AnalysisError("backward pass result is not bound to a name")
    an["fwd"], an["bwd"] = fwd, bwd
    an["VNEW"], an["SNEW"] = (e.id for e in fwd.targets[0].elts)
    an["INEW"] = bwd.targets[0].id
    # carried triple: the call of _sys_init before the loop
    init = None
    for s in fn.body:
        if s is loop:
            break
        if isinstance(s, ast.Assign) and isinstance(s.targets[0], ast.Tuple) and len(s.targets[0].elts) == 3 and isinstance(s.value, ast.Call):
            init = s
    if init is None:
        raise AnalysisError("solver does not initialise a (v, i, state) triple before the loop")
    an["init"] = init
    an["V"], an["I"], an["S"] = (e.id for e in init.targets[0].elts)
    # the carry assignment
    carry = [s for s in loop.body if isinstance(s, ast.Assign) and isinstance(s.targets[0], ast.Tuple)
             and [getattr(e, "id", None) for e in s.targets[0].elts] == [an["V"], an["I"], an["S"]]]
    an["carry"] = carry
    rets = [n for n in ast.walk(fn) if isinstance(n, ast.Return)]
    an["returns"] = rets
    return an


def call_args(call, fn_def):
    """bind positional and keyword arguments of a call to the parameter names of fn_def (self dropped)"""
    params = [a.arg for a in fn_def.args.posonlyargs + fn_def.args.args][1:] + [a.arg for a in fn_def.args.kwonlyargs]
    out = {}
    for p, a in zip(params, call.args):
        out[p] = a
    for kw in call.keywords:
        out[kw.arg] = kw.value
    return out


def is_name(node, name):
    return isinstance(node, ast.Name) and node.id == name


def c04_propagation(model, rep):
    r = roles(model)
    rel = model.rel("system")
    an = solver_anatomy(model, r)
    fn = an["fn"]
    where = "%s:%d" % (rel, an["loop"].lineno)
    # (a) the forward pass receives the carried (v, i, state); the carry replaces them by this sweep's results
    fwd_def = model.own_method("System", r["FWD"])
    fa = call_args(an["fwd"].value, fwd_def)
    fps = [a.arg for a in fwd_def.args.args][1:]
    ok = len(fps) == 4 and is_name(fa.get(fps[0]), an["V"]) and is_name(fa.get(fps[1]), an["I"]) and is_name(fa.get(fps[3]), an["S"])
    if not ok:
        rep.violation("R3", "system.System.%s" % fn.name, where, "forward pass is not called with the carried (voltages, currents, states)", "fwd args")
    rep.instance("R3", "system.System.%s forward-pass operands" % fn.name, where, ok)
    ok = len(an["carry"]) == 1 and isinstance(an["carry"][0].value, ast.Tuple) and \
        [getattr(e, "id", None) for e in an["carry"][0].value.elts] == [an["VNEW"], an["INEW"], an["SNEW"]]
    if not ok:
        rep.violation("R3", "system.System.%s" % fn.name, where, "the carried (v, i, state) is not replaced by this sweep's (forward voltages, backward currents, forward states)", "carry")
    rep.instance("R3", "system.System.%s carried triple" % fn.name, where, ok)
    # (b) _sys_init
    init_name = an["init"].value.func.attr if isinstance(an["init"].value.func, ast.Attribute) else None
    if init_name is None or model.own_method("System", init_name) is None:
        raise AnalysisError("solver initialiser not resolved")
    ifn, loop, cl, env = body_leaves(model, r, init_name, lambda l: isinstance(l, ast.For), "init loop")
    # every node once: the node list, or the topological order (needed when a node's seed looks at what was recorded for its parents)
    loop_domain_rule(rep, "R3", model, loop, "system.System.%s" % init_name, ["self._get_nodes()", "self.%s" % r["TOPO"]], "the solver initialisation")
    ps = [a.arg for a in ifn.args.args][1:]
    # the three vectors: targets of the tuple assignment from the vector constructor
    vec = None
    for s in ifn.body:
        if isinstance(s, ast.Assign) and isinstance(s.targets[0], ast.Tuple) and len(s.targets[0].elts) == 3 and isinstance(s.value, ast.Call):
            vec = [e.id for e in s.targets[0].elts]
    if vec is None:
        raise AnalysisError("%s does not create its three vectors" % init_name)
    sargs = {"self": Sym(("name", "self")), "n": Sym(("name", loop.target.id)), "phase": env[ps[0]],
             "v": env[vec[0]], "i": env[vec[1]], "state": env[vec[2]]}
    sl = spec_leaves(model, r, "sys_init__body", sargs)
    nvar = Sym(("name", loop.target.id))

    def cval(lf):
        out = {}
        for e in lf.events:
            if e[0] == "store" and e[1][0] == "sub":
                base, idx = e[1][1], e[1][2]
                for nm, v in (("v", env[vec[0]]), ("i", env[vec[1]]), ("state", env[vec[2]])):
                    if base == vkey(v) and idx == vkey(nvar):
                        out[nm] = e[2]
                    # state[n]["off"] = [...]
                    if nm == "state" and base == Sym(("sub", vkey(v), vkey(nvar))) and idx == "off":
                        out["state"] = DictV([("off", e[2])])
        return out

    def sval(lf):
        return {k: lf.value.get(k) for k in ("v", "i", "state")}
    rows_, ok = compare_rows(cl, sl, cval, sval, rep, "R3", "system.System.%s" % init_name, "%s:%d" % (rel, loop.lineno), "solver initialisation")
    rep.instance("R3", "system.System.%s loop body" % init_name, "%s:%d" % (rel, loop.lineno), ok, "%d leaves, %d rows" % (len(cl), rows_))


# ------------------------------------------------------------------------------------------------ C06 R3-R5
def names_read(node):
    """names loaded by an expression / statement; targets of comprehensions inside it are local to them"""
    local = set()
    for c in ast.walk(node):
        if isinstance(c, (ast.ListComp, ast.SetComp, ast.DictComp, ast.GeneratorExp)):
            for g in c.generators:
                local |= assigned_names(g.target)
        elif isinstance(c, ast.Lambda):
            local |= {a.arg for a in c.args.args}
    return {n.id for n in ast.walk(node) if isinstance(n, ast.Name) and isinstance(n.ctx, ast.Load) and n.id not in local}


CONTAINER_MUTATORS = {"append", "extend", "insert", "remove", "pop", "clear", "update", "setdefault", "add", "discard", "sort", "reverse", "popitem"}


def container_state(loop):
    """containers created outside the loop body that the body both mutates (x[k] = v, x[k] += v, del x[k], x.append(..), ...)
    and reads: {name: [(line, read expression text)]}.  Append-only lists that are never read in the body are not state."""
    body = ast.Module(body=loop.body, type_ignores=[])
    bound = set()
    for s in ast.walk(body):
        if isinstance(s, ast.Assign):
            for t in s.targets:
                bound |= assigned_names(t)
        elif isinstance(s, (ast.For, ast.comprehension)):
            bound |= assigned_names(s.target)
        elif isinstance(s, ast.AnnAssign) and isinstance(s.target, ast.Name):
            bound.add(s.target.id)
    mutated = {}
    for s in ast.walk(body):
        tgts = []
        if isinstance(s, ast.Assign):
            tgts = s.targets
        elif isinstance(s, (ast.AugAssign, ast.AnnAssign)):
            tgts = [s.target]
        elif isinstance(s, ast.Delete):
            tgts = s.targets
        for t in tgts:
            if isinstance(t, ast.Subscript) and isinstance(t.value, ast.Name):
                mutated.setdefault(t.value.id, s.lineno)
        if isinstance(s, ast.Call) and isinstance(s.func, ast.Attribute) and s.func.attr in CONTAINER_MUTATORS and isinstance(s.func.value, ast.Name):
            mutated.setdefault(s.func.value.id, s.lineno)
    out = {}
    parent = {}
    for x in ast.walk(body):
        for c in ast.iter_child_nodes(x):
            parent[c] = x
    for name in mutated:
        if name in bound:
            continue            # rebuilt inside the iteration
        reads = []
        for x in ast.walk(body):
            if isinstance(x, ast.Name) and x.id == name and isinstance(x.ctx, ast.Load):
                p = parent.get(x)
                # the mutation itself (x[k] = .., x.append(..)) is not a read
                if isinstance(p, ast.Subscript) and p.value is x and isinstance(p.ctx, (ast.Store, ast.Del)):
                    continue
                if isinstance(p, ast.Attribute) and p.value is x and p.attr in CONTAINER_MUTATORS and isinstance(parent.get(p), ast.Call) and parent[p].func is p:
                    continue
                top = p
                while top in parent and not isinstance(top, ast.stmt) and not isinstance(parent.get(top), ast.stmt):
                    top = parent[top]
                reads.append((x.lineno, ast.unparse(p) if p is not None else name, p))
        if reads:
            out[name] = reads
    return out


def assigned_names(target, acc=None):
    acc = set() if acc is None else acc
    if isinstance(target, ast.Name):
        acc.add(target.id)
    elif isinstance(target, (ast.Tuple, ast.List)):
        for e in target.elts:
            assigned_names(e, acc)
    elif isinstance(target, ast.Starred):
        assigned_names(target.value, acc)
    return acc


def upward_exposed(stmts, defined, exposed, written, appends):
    """must-defined forward walk: names read before being defined on some path (inner loops assumed to run once).
    appends: names only ever augmented with a list (x += [..]) - recorded separately"""
    for s in stmts:
        if isinstance(s, ast.Assign):
            reads = names_read(s.value)
            for t in s.targets:
                if not isinstance(t, (ast.Name, ast.Tuple, ast.List)):
                    reads |= names_read(t)
            exposed |= {(n, s.lineno) for n in reads if n not in defined}
            for t in s.targets:
                w = assigned_names(t)
                written |= w
                defined |= w
        elif isinstance(s, ast.AugAssign):
            reads = names_read(s.value)
            exposed |= {(n, s.lineno) for n in reads if n not in defined}
            if isinstance(s.target, ast.Name):
                if s.target.id not in defined:
                    if isinstance(s.op, ast.Add) and isinstance(s.value, ast.List):
                        appends.add(s.target.id)
                    else:
                        exposed.add((s.target.id, s.lineno))
                written.add(s.target.id)
            else:
                exposed |= {(n, s.lineno) for n in names_read(s.target) if n not in defined}
        elif isinstance(s, ast.If):
            exposed |= {(n, s.lineno) for n in names_read(s.test) if n not in defined}
            d1, d2 = set(defined), set(defined)
            upward_exposed(s.body, d1, exposed, written, appends)
            upward_exposed(s.orelse, d2, exposed, written, appends)
            t1 = bool(s.body) and isinstance(s.body[-1], (ast.Raise, ast.Return, ast.Continue, ast.Break))
            t2 = bool(s.orelse) and isinstance(s.orelse[-1], (ast.Raise, ast.Return, ast.Continue, ast.Break))
            if t1 and not t2:
                defined |= d2
            elif t2 and not t1:
                defined |= d1
            else:
                defined |= (d1 & d2)
        elif isinstance(s, (ast.For, ast.While)):
            if isinstance(s, ast.For):
                exposed |= {(n, s.lineno) for n in names_read(s.iter) if n not in defined}
                w = assigned_names(s.target)
                written |= w
                defined |= w
            else:
                exposed |= {(n, s.lineno) for n in names_read(s.test) if n not in defined}
            upward_exposed(s.body, defined, exposed, written, appends)   # one-trip assumption: body's definitions survive
        elif isinstance(s, ast.With):
            for it in s.items:
                exposed |= {(n, s.lineno) for n in names_read(it.context_expr) if n not in defined}
                if it.optional_vars is not None:
                    w = assigned_names(it.optional_vars)
                    written |= w
                    defined |= w
            upward_exposed(s.body, defined, exposed, written, appends)
        elif isinstance(s, ast.Try):
            upward_exposed(s.body, defined, exposed, written, appends)
            for h in s.handlers:
                upward_exposed(h.body, set(defined), exposed, written, appends)
            upward_exposed(s.finalbody, defined, exposed, written, appends)
        elif isinstance(s, (ast.Expr, ast.Return, ast.Raise, ast.Delete, ast.Assert)):
            exposed |= {(n, s.lineno) for n in names_read(s) if n not in defined}
        elif isinstance(s, (ast.Pass, ast.Break, ast.Continue, ast.Import, ast.ImportFrom)):
            pass
        else:
            raise AnalysisError("statement %s at line %d not handled by the loop-carried analysis" % (type(s).__name__, s.lineno))


def loop_carried(loop):
    """names written in the loop body that may be read in a later iteration before being rewritten"""
    defined, exposed, written, appends = set(), set(), set(), set()
    if isinstance(loop, ast.For):
        defined |= assigned_names(loop.target)
    upward_exposed(loop.body, defined, exposed, written, appends)
    carried = {}
    for n, line in exposed:
        if n in written:
            carried.setdefault(n, line)
    # append-only accumulators: written only through `x += [..]`; any other read of them inside the loop is a carry
    acc = set()
    for n in appends:
        other_reads = [x for x in ast.walk(loop) if isinstance(x, ast.Name) and x.id == n and isinstance(x.ctx, ast.Load)]
        plain_writes = [x for x in ast.walk(loop) if isinstance(x, ast.Name) and x.id == n and isinstance(x.ctx, ast.Store)
                        and not isinstance(getattr(x, "_parent", None), ast.AugAssign)]
        if other_reads or plain_writes:
            carried.setdefault(n, loop.lineno)
        else:
            acc.add(n)
    return carried, acc


def const_key_stores(stmts, name):
    """constant keys K for which `name[K] = ..` is executed on every path through stmts (inner loops may run zero times)"""
    have = set()
    for s in stmts:
        if isinstance(s, ast.Assign):
            for t in s.targets:
                if isinstance(t, ast.Subscript) and is_name(t.value, name) and isinstance(t.slice, ast.Constant):
                    have.add(t.slice.value)
        elif isinstance(s, ast.If):
            a, b = const_key_stores(s.body, name), const_key_stores(s.orelse, name)
            t1 = bool(s.body) and isinstance(s.body[-1], (ast.Raise, ast.Return, ast.Continue, ast.Break))
            t2 = bool(s.orelse) and isinstance(s.orelse[-1], (ast.Raise, ast.Return, ast.Continue, ast.Break))
            have |= b if (t1 and not t2) else (a if (t2 and not t1) else (a & b))
        elif isinstance(s, ast.With):
            have |= const_key_stores(s.body, name)
    return have


def rekeyed_before_read(loop, name, read_line):
    """every mutation of `name` in the loop is `name[<const>] = ..` and all those keys are stored, on every path, before the
    statement at read_line: the container carries nothing over although it was created outside the loop"""
    keys = set()
    body = ast.Module(body=loop.body, type_ignores=[])
    for s in ast.walk(body):
        if isinstance(s, ast.Call) and isinstance(s.func, ast.Attribute) and s.func.attr in CONTAINER_MUTATORS and is_name(s.func.value, name):
            return False
        tgts = s.targets if isinstance(s, (ast.Assign, ast.Delete)) else ([s.target] if isinstance(s, (ast.AugAssign, ast.AnnAssign)) else [])
        for t in tgts:
            if isinstance(t, ast.Subscript) and is_name(t.value, name):
                if not (isinstance(s, ast.Assign) and isinstance(t.slice, ast.Constant)):
                    return False
                keys.add(t.slice.value)
    # statements of the loop body (top level) that complete before the reading statement starts
    before = []
    for s in loop.body:
        if s.lineno <= read_line <= getattr(s, "end_lineno", s.lineno):
            # the read is inside s: descend along the branch that holds it
            cur = s
            while True:
                nxt = None
                if isinstance(cur, ast.If):
                    for blk in (cur.body, cur.orelse):
                        for i, y in enumerate(blk):
                            if y.lineno <= read_line <= getattr(y, "end_lineno", y.lineno):
                                before = before + blk[:i]
                                nxt = y
                                break
                        if nxt is not None:
                            break
                if nxt is None or nxt is cur:
                    break
                cur = nxt
            break
        before.append(s)
    return keys <= const_key_stores(before, name)


def iteration_state_rule(model, rep, rule, construct, where, loop, what, parent_attr=None, child_attr=None, allow=()):
    """one iteration of `loop` must not depend on what an earlier iteration left behind, except through
    (a) append-only result lists and numeric accumulators that are not read inside the loop,
    (b) a container slot addressed by the loop variable itself (the node's own slot),
    (c) a slot addressed through the node's parent (child) list, when the loop runs in (reverse) topological order,
    (d) a dict whose constant keys are all stored again before it is read."""
    carried, acc = loop_carried(loop)
    ok = True
    lv = loop.target.id if isinstance(loop, ast.For) and isinstance(loop.target, ast.Name) else None
    for n, line in sorted(carried.items()):
        # numeric accumulator / counter: only ever `x += <expr>` and never read otherwise inside the loop
        writes = [x for x in ast.walk(loop) if isinstance(x, (ast.Assign, ast.AnnAssign)) and n in set().union(*[assigned_names(t) for t in (x.targets if isinstance(x, ast.Assign) else [x.target])])]
        augs = [x for x in ast.walk(loop) if isinstance(x, ast.AugAssign) and is_name(x.target, n)]
        other = [x for x in ast.walk(loop) if isinstance(x, ast.Name) and x.id == n and isinstance(x.ctx, ast.Load)]
        if augs and not writes and not other:
            acc.add(n)
            continue
        if n in allow:
            continue
        ok = False
        rep.violation(rule, construct, "%s:%d" % (model.rel("system"), line),
                      "%s: '%s' may still hold the value left by the previous iteration when it is read at line %d" % (what, n, line), "carried %s in %s" % (what, construct))
    for name, reads in sorted(container_state(loop).items()):
        for line, text, node in reads:
            good = False
            if isinstance(node, ast.Subscript) and is_name(node.value, name):
                idx = node.slice
                if lv and is_name(idx, lv):
                    good = True                                   # (b) own slot
                root = idx
                while isinstance(root, ast.Subscript):
                    root = root.value
                itxt = ast.unparse(idx)
                for attr in (parent_attr, child_attr):
                    if attr and lv and itxt.startswith("self.%s[%s]" % (attr, lv)):
                        good = True                               # (c) slot of a parent / child
                    # p = self._parents[n]; x[p[0]]
                    if attr and lv and isinstance(root, ast.Name):
                        for s in ast.walk(loop):
                            if isinstance(s, ast.Assign) and len(s.targets) == 1 and is_name(s.targets[0], root.id) and ast.unparse(s.value) == "self.%s[%s]" % (attr, lv):
                                good = True
                    # x[k] for k in self._parents[n]  /  for k in p  with p = self._parents[n]  (comprehension or inner loop)
                    if attr and lv and isinstance(idx, ast.Name):
                        plist = {"self.%s[%s]" % (attr, lv)}
                        for s in ast.walk(loop):
                            if isinstance(s, ast.Assign) and len(s.targets) == 1 and isinstance(s.targets[0], ast.Name) and ast.unparse(s.value) == "self.%s[%s]" % (attr, lv):
                                plist.add(s.targets[0].id)
                        for g in ast.walk(loop):
                            if isinstance(g, (ast.comprehension, ast.For)) and g is not loop and is_name(g.target, idx.id) and ast.unparse(g.iter) in plist:
                                good = True
            if not good and rekeyed_before_read(loop, name, line):
                good = True                                       # (d)
            if not good:
                ok = False
                rep.violation(rule, construct, "%s:%d" % (model.rel("system"), line),
                              "%s: `%s` reads container '%s', which is created outside the loop and modified inside it, at a slot that is neither the current element's nor its parent's: the result depends on earlier iterations" % (what, text, name),
                              "container state %s in %s" % (what, construct))
    rep.instance(rule, "%s: %s carries no state between iterations" % (construct, what), where, ok, "accumulators: %s" % ", ".join(sorted(acc)))
    return ok


def c06_plumbing(model, rep):
    r = roles(model)
    rel = model.rel("system")
    an = solve_anchors(model, r)
    fn, ploop = an["fn"], an["phase_loop"]
    where = "%s:%d" % (rel, ploop.lineno)
    phvar = ploop.target.id if isinstance(ploop.target, ast.Name) else None
    if phvar is None:
        raise AnalysisError("phase loop target is not a name")
    # ---- R3 plumbing: solve -> SOLVER -> init / fwd / back
    solver_def = model.own_method("System", r["SOLVER"])
    sa_ = call_args(an["solver_call"].value, solver_def)
    sparams = [a.arg for a in solver_def.args.args][1:]
    phase_param = sparams[-1]
    ok = is_name(sa_.get(phase_param), phvar)
    if not ok:
        rep.violation("R3", "system.System.solve", "%s:%d" % (rel, an["solver_call"].lineno), "the solver is not called with the phase-loop variable as its phase", "solver phase arg")
    rep.instance("R3", "system.System.solve -> %s phase argument" % r["SOLVER"], "%s:%d" % (rel, an["solver_call"].lineno), ok)
    sol = solver_anatomy(model, r)
    for what, call, dname in (("init", sol["init"].value, sol["init"].value.func.attr), ("forward", sol["fwd"].value, r["FWD"]), ("backward", sol["bwd"].value, r["BACK"])):
        d = model.own_method("System", dname)
        ca = call_args(call, d)
        pp = [a.arg for a in d.args.args][1:]
        pname = [p for p in pp if p == "phase"]
        if not pname:
            raise AnalysisError("%s has no phase parameter" % dname)
        ok = is_name(ca.get("phase"), phase_param)
        if not ok:
            rep.violation("R3", "system.System.%s" % r["SOLVER"], "%s:%d" % (rel, call.lineno), "%s pass is not given the solver's phase" % what, what + " phase arg")
        rep.instance("R3", "system.System.%s -> %s phase argument" % (r["SOLVER"], dname), "%s:%d" % (rel, call.lineno), ok)
    # phase lookup: registry phase_conf[name] -> index of that name
    lfn = model.own_method("System", r["SET_PHLK"])
    loop = find_loop(lfn, lambda l: isinstance(l, ast.For), "phase lookup loop")
    ok = False
    for s in ast.walk(loop):
        if isinstance(s, ast.Assign) and isinstance(s.targets[0], ast.Subscript):
            key, val = s.targets[0].slice, s.value
            kd, vd = ast.dump(key), ast.dump(val)
            # key: self._get_index(<name part>), value: <conf part> of the same item
            if isinstance(key, ast.Call) and isinstance(key.func, ast.Attribute) and key.func.attr == "_get_index":
                it = ast.dump(loop.iter)
                if "phase_conf" in it and ".items" in ast.unparse(loop.iter):
                    tgt = loop.target
                    if isinstance(tgt, ast.Name):
                        ok = ast.unparse(key.args[0]) == tgt.id + "[0]" and ast.unparse(val) == tgt.id + "[1]"
                    elif isinstance(tgt, ast.Tuple) and len(tgt.elts) == 2:
                        ok = ast.unparse(key.args[0]) == tgt.elts[0].id and ast.unparse(val) == tgt.elts[1].id
                elif "phase_conf" in it:
                    tgt = loop.target
                    ok = isinstance(tgt, ast.Name) and ast.unparse(key.args[0]) == tgt.id and ast.unparse(val).replace("'", '"').endswith('["phase_conf"][%s]' % tgt.id)
    if not ok:
        rep.violation("R3", "system.System.%s" % r["SET_PHLK"], "%s:%d" % (rel, loop.lineno), "the per-node phase table is not the registry entry of the same component", "phase lookup map")
    rep.instance("R3", "system.System.%s name -> index map" % r["SET_PHLK"], "%s:%d" % (rel, loop.lineno), ok)
    # the lookup is rebuilt by the initialiser of every solve
    init_def = model.own_method("System", sol["init"].value.func.attr)
    ok = r["SET_PHLK"] in uncond_closure(model, init_def.body)
    if not ok:
        rep.violation("R3", "system.System.%s" % init_def.name, "%s:%d" % (rel, init_def.lineno), "the phase lookup is not rebuilt (unconditionally) before solving", "phase lookup refresh")
    rep.instance("R3", "system.System.%s rebuilds the phase lookup" % init_def.name, "%s:%d" % (rel, init_def.lineno), ok)
    pass_wiring(model, rep, r, "R3")
    # ---- R4 phase independence
    iteration_state_rule(model, rep, "R4", "system.System.solve", where, ploop, "phase loop")
    iteration_state_rule(model, rep, "R4", "system.System.solve", "%s:%d" % (rel, an["row"].lineno), an["row"], "row loop", parent_attr=r["PARENTS"])
    # ---- R4b / R5 phase list and unknown phase
    phase_list_rule(model, rep, r, an)


def phase_list_rule(model, rep, r, an, labels=("R4", "R5")):
    rel = model.rel("system")
    fn, ploop = an["fn"], an["phase_loop"]
    pre = []
    for s in fn.body:
        if s is ploop:
            break
        pre.append(s)
    hooks = SysHooks(model, r)
    sm = Summarizer(hooks, Ctx())
    a = fn.args
    args = {x.arg: Sym(("name", x.arg)) for x in a.posonlyargs + a.args + a.kwonlyargs}
    # drop statements that do not concern the phase list (calls, accumulator initialisations)
    it = ploop.iter
    if not isinstance(it, ast.Name):
        raise AnalysisError("phase loop does not iterate over a name")
    def only_rejects(s):
        """an if / for whose only possible outcome besides falling through is a raise, and that binds nothing"""
        if isinstance(s, (ast.Raise, ast.Pass)):
            return True
        if isinstance(s, ast.If):
            return all(only_rejects(x) for x in s.body + s.orelse)
        if isinstance(s, ast.For):
            return all(only_rejects(x) for x in s.body + s.orelse)
        return False

    def concerns_phases(s):
        names = {y.id for y in ast.walk(s) if isinstance(y, ast.Name)}
        return "phase" in names or it.id in names or any(isinstance(y, ast.Constant) and y.value == "phases" for y in ast.walk(s))
    # up-front validation of other arguments (raise or fall through, nothing bound, phases not mentioned) is not the phase list's business
    pre = [s for s in pre if not (isinstance(s, (ast.If, ast.For)) and only_rejects(s) and not concerns_phases(s))]
    try:
        leaves = sm.summarize_block([s for s in pre if not (isinstance(s, ast.Expr) and isinstance(s.value, ast.Call))], args)
    except Unsupported as e:
        raise AnalysisError("solve prologue: %s" % e)
    phases_keys = None
    ok_list, ok_raise = True, True
    nrows = 0
    phase = args["phase"]
    for lf in leaves:
        lits = {}
        for g in lf.guards:
            literals(g, True, lits)
        # classify the path by the two questions: is a phase requested, is it known
        req = None
        for k, v in lits.items():
            if k[0] == "EQ" and "" in k[1:] and phase in k[1:]:
                req = not v
        if req is None:
            raise AnalysisError("solve prologue does not test phase != ''")
        nrows += 1
        if lf.kind == "raise":
            if not (req and lf.exc == "ValueError"):
                ok_raise = False
            continue
        val = lf.env.get(it.id)
        if req:
            if not (isinstance(val, ListV) and val.items == [phase]):
                ok_list = False
        else:
            # either [""] (no phases) or the registry's keys in declared order
            if isinstance(val, ListV) and val.items == [""]:
                continue
            s = show_value(val)
            if not (isinstance(val, Sym) and s.replace(" ", "") in ("list(self._g.attrs['phases'].keys())", "list(self._g.attrs['phases'])")):
                ok_list = False
    has_raise = any(lf.kind == "raise" and lf.exc == "ValueError" for lf in leaves)
    if not has_raise:
        ok_raise = False
    where = "%s:%d" % (rel, fn.lineno)
    if not ok_list:
        rep.violation(labels[0], "system.System.solve", where, "the phase list is not [phase] for a requested phase / all phases in declared order otherwise", "phase list")
    if not ok_raise:
        rep.violation(labels[1], "system.System.solve", where, "an unknown phase is not rejected with ValueError before the phase loop", "unknown phase")
    rep.instance(labels[0], "system.System.solve phase list", where, ok_list, "%d prologue paths" % nrows)
    rep.instance(labels[1], "system.System.solve unknown phase -> ValueError", where, ok_raise)


def name_containment_rule(model, rep, rule, registries, what):
    """names (of phases, components, rails, groups) are matched by equality or by membership in a registry, never by
    containment IN a name: `x in p` with p an element of a name registry is a substring test"""
    rel = model.rel("system")
    n = 0
    ok = True
    for mod, qn, fn in model.all_functions():
        if mod != "system":
            continue
        elems = {}
        for x in ast.walk(fn):
            tg = None
            if isinstance(x, (ast.For, ast.comprehension)) and isinstance(x.target, ast.Name):
                it = x.iter
                while isinstance(it, ast.Call) and ((isinstance(it.func, ast.Name) and it.func.id in ("list", "iter", "sorted", "tuple")) or (isinstance(it.func, ast.Attribute) and it.func.attr == "keys")):
                    it = it.args[0] if isinstance(it.func, ast.Name) and it.args else (it.func.value if isinstance(it.func, ast.Attribute) else None)
                    if it is None:
                        break
                reg = registry_of(it) if it is not None else None
                if reg in registries:
                    elems[x.target.id] = reg
                    n += 1
        for x in ast.walk(fn):
            if isinstance(x, ast.Compare) and len(x.ops) == 1 and isinstance(x.ops[0], (ast.In, ast.NotIn)) and isinstance(x.comparators[0], ast.Name) and x.comparators[0].id in elems:
                ok = False
                rep.violation(rule, "system.%s" % qn, "%s:%d" % (rel, x.lineno), "`%s` tests containment in a %s name ('%s' registry element): names are matched by equality, a fragment of a name is not the name" % (ast.unparse(x), what, elems[x.comparators[0].id]), "substring match in " + qn)
    rep.instance(rule, "%s names are never matched by containment in a name" % what, rel + ":1", ok, "%d iteration(s) over the registries %s" % (n, "/".join(sorted(registries))))


# ------------------------------------------------------------------------------------------------ C05 helpers
def child_current_rule(model, rep, r, rule):
    rel = model.rel("system")
    fn, loop, cl, env = body_leaves(model, r, r["CHILD_I"], lambda l: isinstance(l, ast.For) and iter_is_role(l, r["CHILDS"]), "child-current loop")
    params = [a.arg for a in fn.args.args][1:]
    acc = acc_name(loop, env)
    sargs = {"self": Sym(("name", "self")), "node": env[params[0]], "i": env[params[1]], "v": env[params[2]], "state": env[params[3]],
             "c": Sym(("name", loop.target.id)), "io": env[acc]}
    sl = spec_leaves(model, r, "child_curr__body", sargs)
    loop_domain_rule(rep, rule, model, loop, "system.System.%s" % r["CHILD_I"], ["self.%s[%s]" % (r["CHILDS"], params[0])], "the child-current sum")
    rows, ok = compare_rows(cl, sl, lambda lf: {"sum": lf.env[acc]}, lambda lf: {"sum": lf.value}, rep, rule,
                            "system.System.%s" % r["CHILD_I"], "%s:%d" % (rel, loop.lineno), "child-current sum")
    rep.instance(rule, "system.System.%s loop body" % r["CHILD_I"], "%s:%d" % (rel, loop.lineno), ok, "%d leaves, %d rows" % (len(cl), rows))
    check_acc_init(model, rep, fn, loop, acc, rel, rule)


def registry_of(node):
    """self._g.attrs["<r>"] -> r"""
    if isinstance(node, ast.Subscript) and isinstance(node.slice, ast.Constant) and isinstance(node.slice.value, str) \
            and isinstance(node.value, ast.Attribute) and node.value.attr == "attrs" and isinstance(node.value.value, ast.Attribute) \
            and node.value.value.attr == "_g":
        return node.slice.value
    return None


def is_registry_sub(node, reg):
    """self._g.attrs[reg][<key>]"""
    return isinstance(node, ast.Subscript) and registry_of(node.value) == reg


def order_registry(model):
    """registry stored to with a node-index key and a list value in add_comp (DESIGN appendix A: 'order registry')"""
    add = model.own_method("System", "add_comp")
    cands = set()
    for s in ast.walk(add):
        if isinstance(s, ast.Assign) and isinstance(s.targets[0], ast.Subscript):
            reg = registry_of(s.targets[0].value)
            if reg and isinstance(s.targets[0].slice, ast.Name) and isinstance(s.value, ast.Name):
                # key is the result of add_child / add_node
                key = s.targets[0].slice.id
                for a in ast.walk(add):
                    if isinstance(a, ast.Assign) and is_name(a.targets[0], key) and isinstance(a.value, ast.Call) and isinstance(a.value.func, ast.Attribute) \
                            and a.value.func.attr in ("add_child", "add_node"):
                        cands.add(reg)
    if len(cands) != 1:
        raise AnalysisError("order registry not identified in add_comp (%s)" % sorted(cands))
    return cands.pop()


def list_provenance(fn, name):
    """name = []; for x in SRC: name += [f(x)]   ->  (SRC name, per-item expr)   |   name = SRC  -> (SRC, None)"""
    init = None
    aug = []
    for n in ast.walk(fn):
        if isinstance(n, ast.Assign) and any(is_name(t, name) for t in n.targets):
            init = n
        if isinstance(n, ast.AugAssign) and is_name(n.target, name):
            aug.append(n)
        if isinstance(n, ast.Call) and isinstance(n.func, ast.Attribute) and n.func.attr == "append" and is_name(n.func.value, name):
            aug.append(n)
    if init is None:
        return None
    inits = [n for n in ast.walk(fn) if isinstance(n, ast.Assign) and any(is_name(t, name) for t in n.targets)]
    # name = [f(x) for x in SRC]
    if not aug and len(inits) == 1 and isinstance(inits[0].value, ast.ListComp) and len(inits[0].value.generators) == 1:
        g = inits[0].value.generators[0]
        if isinstance(g.iter, ast.Name) and isinstance(g.target, ast.Name) and not g.ifs \
                and g.target.id in {x.id for x in ast.walk(inits[0].value.elt) if isinstance(x, ast.Name)}:
            return g.iter.id, ast.unparse(inits[0].value.elt)
    if not aug and all(isinstance(n.value, ast.Name) or (isinstance(n.value, ast.List) and len(n.value.elts) == 1 and isinstance(n.value.elts[0], ast.Name)) for n in inits):
        return name, None   # the name is itself the (copied) source list
    if isinstance(init.value, ast.List) and not init.value.elts and len(aug) == 1:
        a = aug[0]
        lp = getattr(a, "_parent", None)
        while lp is not None and not isinstance(lp, ast.For):
            lp = getattr(lp, "_parent", None)
        if lp is None or not isinstance(lp.iter, ast.Name) or not isinstance(lp.target, ast.Name):
            return None
        item = a.value.elts[0] if isinstance(a, ast.AugAssign) and isinstance(a.value, ast.List) and len(a.value.elts) == 1 else (a.args[0] if isinstance(a, ast.Call) else None)
        if item is None:
            return None
        # the appended item may be a local computed from the loop variable just before: idx = f(p); name.append(idx)
        if isinstance(item, ast.Name) and item.id != lp.target.id:
            defs = [y for y in ast.walk(lp) if isinstance(y, ast.Assign) and len(y.targets) == 1 and is_name(y.targets[0], item.id)]
            if len(defs) == 1 and defs[0].lineno < a.lineno:
                item = defs[0].value
        uses = {x.id for x in ast.walk(item) if isinstance(x, ast.Name)}
        if lp.target.id not in uses:
            return None
        return lp.iter.id, ast.unparse(item)
    return None


def simple_provenance(fn, name):
    """set of source texts a name is assigned from"""
    out = set()
    for n in ast.walk(fn):
        if isinstance(n, ast.Assign) and any(is_name(t, name) for t in n.targets):
            out.add(ast.unparse(n.value))
    return out


def cmp_text(node):
    """canonical text of a comparison, operands of == / != in sorted order"""
    if isinstance(node, ast.Compare) and len(node.ops) == 1 and isinstance(node.ops[0], (ast.Eq, ast.NotEq)):
        a, b = sorted([ast.unparse(node.left).replace(" ", ""), ast.unparse(node.comparators[0]).replace(" ", "")])
        return "%s%s%s" % (a, "==" if isinstance(node.ops[0], ast.Eq) else "!=", b)
    return ast.unparse(node).replace(" ", "")


def relation_table_rule(model, rep, rule):
    """_get_parents / _get_childs: an entry per node - the predecessor (successor) list when the node has any, -1 otherwise.
    Decided on the paths of the per-node loop body: the table slot of the node is stored exactly on the paths where the
    degree is positive, with a value derived from the graph's predecessor (successor) view of that node."""
    from .effects import EditHooks, GuardedSummarizer
    from .editrules import implies
    rel = model.rel("system")
    r = roles(model)
    for mname, deg, idxs in (("_get_parents", "in_degree", "predecessor_indices"), ("_get_childs", "out_degree", "successor_indices")):
        fn = model.own_method("System", mname)
        if fn is None:
            raise AnalysisError("System.%s not found" % mname)
        fn = inline_pure_aliases_keep_parent(fn)
        rets = [x for x in ast.walk(fn) if isinstance(x, ast.Return) and isinstance(x.value, ast.Name)]
        if len(rets) != 1:
            raise AnalysisError("%s does not return one table" % mname)
        T = rets[0].value.id
        init = [a for a in fn.body if isinstance(a, ast.Assign) and is_name(a.targets[0], T)]
        init_ok = len(init) == 1 and "-np.ones(" in ast.unparse(init[0].value).replace(" ", "")
        loops = []
        for lp in fn.body:
            if isinstance(lp, ast.For) and isinstance(lp.target, ast.Name):
                srcs = {ast.unparse(lp.iter)}
                if isinstance(lp.iter, ast.Name):
                    srcs |= {ast.unparse(a.value) for a in ast.walk(fn) if isinstance(a, ast.Assign) and is_name(a.targets[0], lp.iter.id)}
                if "self._get_nodes()" in srcs:
                    loops.append(lp)
        if len(loops) != 1:
            raise AnalysisError("%s: the loop over the live nodes was not found" % mname)
        lp = loops[0]
        N = lp.target.id
        hooks = EditHooks(model, r, ())
        sm = GuardedSummarizer(hooks, Ctx())
        env = {"self": Sym(("name", "self")), N: Sym(("name", "n")), T: Sym(("name", "TABLE"))}
        try:
            leaves = sm.summarize_block(lp.body, env)
            want = sm.cond(ast.parse("self._g.%s(%s) > 0" % (deg, N), mode="eval").body, State(dict(env)))
        except Unsupported as e:
            raise AnalysisError("%s: %s" % (mname, e))
        ok = init_ok
        for lf in leaves:
            if lf.kind == "raise":
                continue
            stores = [e for e in lf.events if e[0] == "store" and e[1][0] == "sub" and e[1][1] == Sym(("name", "TABLE"))]
            own = [e for e in stores if vkey(e[1][2]) == vkey(Sym(("name", "n")))]
            if len(own) != len(stores):
                ok = False
                continue
            pos, _ = implies(lf.guards, want)
            neg, _ = implies(lf.guards, Not(want))
            if pos:
                txt = show_value(own[-1][2]) if own else ""
                if not own or ("%s(n)" % idxs) not in txt.replace("self._g.", ""):
                    ok = False
            elif neg:
                if own:
                    ok = False
            else:
                ok = False
        if not ok:
            rep.violation(rule, "system.System.%s" % mname, "%s:%d" % (rel, fn.lineno), "the relation table does not hold, for every live node, its %s list when it has any and -1 otherwise" % ("parent" if deg == "in_degree" else "child"), "relation table " + mname)
        rep.instance(rule, "system.System.%s relation table" % mname, "%s:%d" % (rel, fn.lineno), ok, "%d paths of the node loop" % len(leaves))


def inline_pure_aliases_keep_parent(fn):
    from .core import inline_pure_aliases
    fn = inline_pure_aliases(fn)
    for node in ast.walk(fn):
        for ch in ast.iter_child_nodes(node):
            if not isinstance(ch, (ast.expr_context, ast.operator, ast.cmpop, ast.boolop, ast.unaryop)):
                ch._parent = node
    return fn


def parents_reader_rule(model, rep, gp, reg, rule):
    rel = model.rel("system")
    ok = False
    gp = inline_pure_aliases_keep_parent(gp)
    reads = [n for n in ast.walk(gp) if isinstance(n, ast.Subscript) and registry_of(n.value) == reg and isinstance(n.ctx, ast.Load)]
    if not reads:
        rep.violation(rule, "system.System._get_parents", "%s:%d" % (rel, gp.lineno), "the stored input order is not consulted when the parents of a multi-input node are listed", "order not read")
        return False
    # accepted: ind[i] = <reg>[n][i]  inside  for i in range(len(ind))   |   ind = list(<reg>[n])
    for s in ast.walk(gp):
        if isinstance(s, ast.Assign) and isinstance(s.targets[0], ast.Subscript) and isinstance(s.value, ast.Subscript):
            t, v = s.targets[0], s.value
            if isinstance(v.value, ast.Subscript) and registry_of(v.value.value) == reg and ast.unparse(t.slice) == ast.unparse(v.slice):
                ok = True
        if isinstance(s, ast.Assign) and isinstance(s.targets[0], ast.Subscript) and isinstance(s.value, ast.Call) and len(s.value.args) == 1 \
                and isinstance(s.value.args[0], ast.Subscript):
            # ind[i] = f(<reg>[n][i]) : an element-wise resolver keeps the position
            t, v = s.targets[0], s.value.args[0]
            if isinstance(v.value, ast.Subscript) and registry_of(v.value.value) == reg and ast.unparse(t.slice) == ast.unparse(v.slice):
                ok = True
        if isinstance(s, ast.Assign) and isinstance(s.value, (ast.Subscript, ast.Call)):
            v = s.value
            if isinstance(v, ast.Call) and isinstance(v.func, ast.Name) and v.func.id == "list" and len(v.args) == 1:
                v = v.args[0]
            if isinstance(v, ast.Subscript) and registry_of(v.value) == reg and isinstance(s.targets[0], ast.Name):
                ok = True
        # ind = [<reg>[n][k] for k in range(len(ind))]
        if isinstance(s, ast.Assign) and isinstance(s.targets[0], ast.Name) and isinstance(s.value, ast.ListComp) and len(s.value.generators) == 1:
            g, e = s.value.generators[0], s.value.elt
            if isinstance(g.target, ast.Name) and not g.ifs and isinstance(e, ast.Subscript) and is_name(e.slice, g.target.id) \
                    and isinstance(e.value, ast.Subscript) and registry_of(e.value.value) == reg \
                    and ast.unparse(g.iter).replace(" ", "").startswith("range(len("):
                ok = True
    for n in ast.walk(gp):
        if isinstance(n, ast.Call) and isinstance(n.func, ast.Name) and n.func.id in ("sorted", "set", "reversed"):
            if any(registry_of(x.value) == reg for x in ast.walk(n) if isinstance(x, ast.Subscript)):
                ok = False
    if not ok:
        rep.violation(rule, "system.System._get_parents", "%s:%d" % (rel, gp.lineno), "the stored input order is not read back position by position", "order reader")
    return ok


class _Quiet:
    def violation(self, *a, **k):
        pass

    def instance(self, *a, **k):
        pass


def reads_back_in_order(model, fn, reg):
    """does this function, which lists predecessors itself, put them into the stored input order position by position
    (the shape parents_reader_rule accepts for _get_parents)?"""
    try:
        return bool(parents_reader_rule(model, _Quiet(), fn, reg, "-"))
    except AnalysisError:
        return False


def find_domain_rule(model, rep, r, rule):
    """_find_domain against its reference text (sa/spec_sys.py): a source is its own domain, a mux belongs to the root source
    above its first input that carries a voltage, everything else inherits; decided by reference comparison of the path
    summaries (the index scan in any of its spellings is read as FIRST(..), a scan that keeps the last match as LAST(..))"""
    from . import refcmp
    rel = model.rel("system")
    fn = model.own_method("System", "_find_domain")
    if fn is None:
        raise AnalysisError("System._find_domain not found")
    where = "%s:%d" % (rel, fn.lineno)
    # the reference is written over self._parents: map the role attribute
    ref = refcmp.spec_function("spec_sys", "_find_domain")
    if r["PARENTS"] != "_parents":
        import copy
        ref = copy.deepcopy(ref)
        for x in ast.walk(ref):
            if isinstance(x, ast.Attribute) and x.attr == "_parents":
                x.attr = r["PARENTS"]
    ok, rows = refcmp.compare(model, r, fn, ref, rep, rule, "system.System._find_domain", where, "domain lookup", free=("rx",))
    rep.instance(rule, "system.System._find_domain", where, ok, "%d guard rows" % rows)
    return ok


ORDER_BREAKERS = {"sorted", "set", "reversed", "frozenset"}


def order_breakers(model, rep, reg, rule):
    """every store into the order registry: the stored value (and the names it is built from, within the function)
    must not pass through sorted / set / reversed / .sort() / .reverse()"""
    rel = model.rel("system")
    found = False
    for mod, qn, fn in model.all_functions():
        if mod != "system":
            continue
        stores = [s for s in ast.walk(fn) if isinstance(s, ast.Assign) and any(is_registry_sub(t, reg) for t in s.targets)]
        if not stores:
            continue
        tracked = set()
        for s in stores:
            tracked |= {x.id for x in ast.walk(s.value) if isinstance(x, ast.Name)}
            for n in ast.walk(s.value):
                if isinstance(n, ast.Call) and isinstance(n.func, ast.Name) and n.func.id in ORDER_BREAKERS:
                    found = True
                    rep.violation(rule, "system.%s" % qn, "%s:%d" % (rel, n.lineno), "the input order stored in '%s' passes through %s()" % (reg, n.func.id), "order breaker %s in %s" % (n.func.id, qn))
        # one step of provenance: names assigned from an order breaker applied to a tracked name
        for _ in range(3):
            for a in ast.walk(fn):
                if isinstance(a, ast.Assign) and any(isinstance(t, ast.Name) and t.id in tracked for t in a.targets):
                    tracked |= {x.id for x in ast.walk(a.value) if isinstance(x, ast.Name)}
        for a in ast.walk(fn):
            if isinstance(a, ast.Assign) and any(isinstance(t, ast.Name) and t.id in tracked for t in a.targets):
                for n in ast.walk(a.value):
                    if isinstance(n, ast.Call) and isinstance(n.func, ast.Name) and n.func.id in ORDER_BREAKERS:
                        found = True
                        rep.violation(rule, "system.%s" % qn, "%s:%d" % (rel, n.lineno), "the input order stored in '%s' passes through %s()" % (reg, n.func.id), "order breaker %s in %s" % (n.func.id, qn))
            if isinstance(a, ast.Call) and isinstance(a.func, ast.Attribute) and a.func.attr in ("sort", "reverse") and isinstance(a.func.value, ast.Name) and a.func.value.id in tracked:
                found = True
                rep.violation(rule, "system.%s" % qn, "%s:%d" % (rel, a.lineno), "the input order stored in '%s' is re-ordered by .%s()" % (reg, a.func.attr), "order breaker %s in %s" % (a.func.attr, qn))
    return found


# ------------------------------------------------------------------------------------------------ object state
MUTATORS = {"append", "extend", "update", "pop", "clear", "remove", "insert", "setdefault", "add", "discard", "popitem", "sort", "reverse"}


def self_state_key(node):
    """self.X -> 'X' ; self._g.attrs["k"] -> 'attrs[k]' ; else None"""
    if isinstance(node, ast.Attribute) and is_name(node.value, "self"):
        return node.attr
    reg = registry_of(node)
    if reg is not None and isinstance(node.value.value.value, ast.Name) and node.value.value.value.id == "self":
        return "attrs[%s]" % reg
    return None


def method_state_effects(fn):
    """(unconditional wholesale assignments, conditional assignments, in-place mutations, reads) of self-attached state"""
    uncond, cond, mut, reads = {}, {}, {}, {}
    # top-level statements reached on every call: those before the first statement that can leave the function early
    top = set()
    for s in fn.body:
        top.add(id(s))
        if any(isinstance(x, (ast.Return, ast.Raise)) for x in ast.walk(s)) and not isinstance(s, (ast.Return, ast.Raise)):
            break
    for n in ast.walk(fn):
        if isinstance(n, (ast.Assign, ast.AugAssign, ast.AnnAssign)):
            tgts = n.targets if isinstance(n, ast.Assign) else [n.target]
            flat = []
            for t in tgts:
                flat += list(t.elts) if isinstance(t, (ast.Tuple, ast.List)) else [t]
            for t in flat:
                k = self_state_key(t)
                if k is not None:
                    (uncond if id(n) in top and isinstance(n, ast.Assign) else cond).setdefault(k, n.lineno)
                elif isinstance(t, ast.Subscript):
                    base = t.value
                    while isinstance(base, ast.Subscript) and self_state_key(base) is None:
                        base = base.value
                    k = self_state_key(base)
                    if k is not None:
                        mut.setdefault(k, n.lineno)
        elif isinstance(n, ast.Delete):
            for t in n.targets:
                for x in ast.walk(t):
                    k = self_state_key(x)
                    if k is not None:
                        mut.setdefault(k, n.lineno)
        elif isinstance(n, ast.Call) and isinstance(n.func, ast.Attribute) and n.func.attr in MUTATORS:
            k = self_state_key(n.func.value)
            if k is not None:
                mut.setdefault(k, n.lineno)
    for n in ast.walk(fn):
        k = self_state_key(n)
        if k is not None and isinstance(getattr(n, "ctx", None), ast.Load):
            reads.setdefault(k, n.lineno)
    return uncond, cond, mut, reads


def self_calls(node):
    return {c.func.attr for c in ast.walk(node) if isinstance(c, ast.Call) and isinstance(c.func, ast.Attribute) and is_name(c.func.value, "self")}


def closure_from(model, nodes):
    todo = set()
    for n in nodes:
        todo |= self_calls(n)
    seen = set()
    while todo:
        m = todo.pop()
        if m in seen:
            continue
        fn = model.own_method("System", m)
        if fn is None:
            continue
        seen.add(m)
        todo |= self_calls(fn) - seen
    return seen


def uncond_self_calls(stmts):
    """self.<m>(..) calls executed on every path through stmts: those in top-level simple statements (and With bodies), not
    under if / for / while / try, nor in the short-circuited part of a conditional expression"""
    out = set()
    for s in stmts:
        if isinstance(s, (ast.Assign, ast.AugAssign, ast.AnnAssign, ast.Expr, ast.Return)):
            skip = set()
            for x in ast.walk(s):
                if isinstance(x, ast.IfExp):
                    skip |= {id(y) for part in (x.body, x.orelse) for y in ast.walk(part)}
                elif isinstance(x, ast.BoolOp):
                    skip |= {id(y) for part in x.values[1:] for y in ast.walk(part)}
                elif isinstance(x, (ast.ListComp, ast.SetComp, ast.DictComp, ast.GeneratorExp, ast.Lambda)):
                    skip |= {id(y) for y in ast.walk(x)}
            for c in ast.walk(s):
                if isinstance(c, ast.Call) and id(c) not in skip and isinstance(c.func, ast.Attribute) and is_name(c.func.value, "self"):
                    out.add(c.func.attr)
        elif isinstance(s, ast.With):
            out |= uncond_self_calls(s.body)
        if isinstance(s, (ast.Return, ast.Raise, ast.Continue, ast.Break)):
            break
        # after a statement that may leave the block early (if ..: return) nothing is executed on every path
        if isinstance(s, (ast.If, ast.Try, ast.For, ast.While)) and any(isinstance(x, (ast.Return, ast.Raise, ast.Continue, ast.Break)) for x in ast.walk(s)):
            break
    return out


def uncond_closure(model, stmts):
    todo = set(uncond_self_calls(stmts))
    seen = set()
    while todo:
        m = todo.pop()
        if m in seen:
            continue
        fn = model.own_method("System", m)
        if fn is None:
            continue
        seen.add(m)
        todo |= uncond_self_calls(fn.body) - seen
    return seen


def object_state_rule(model, rep, r, rule):
    """phase independence through object state: any self-attached state that is mutated in place, or assigned under a
    condition, by code reachable from the phase loop of solve() must be rebuilt unconditionally inside that loop; otherwise
    one phase iteration (or one solve) sees what the previous one left behind"""
    rel = model.rel("system")
    an = solve_anchors(model, r)
    ploop = an["phase_loop"]
    methods = closure_from(model, ploop.body)
    always = uncond_closure(model, ploop.body)
    U, Cn, M, Rd = {}, {}, {}, {}
    for m in sorted(methods):
        fn = model.own_method("System", m)
        u, c, mu, rd = method_state_effects(fn)
        if m not in always:
            # a rebuild that is itself only reached under a condition is a cache, not a rebuild
            c = dict(c)
            for k, line in u.items():
                c.setdefault(k, line)
            u = {}
        for d, src in ((U, u), (Cn, c), (M, mu)):
            for k, line in src.items():
                d.setdefault(k, (m, line))
    # effects written directly in the loop body
    ok = True
    for k, (m, line) in sorted(list(M.items()) + list(Cn.items())):
        if k in U:
            continue
        ok = False
        rep.violation(rule, "system.System.%s" % m, "%s:%d" % (rel, line),
                      "object state '%s' is modified in place / conditionally by code reachable from the phase loop of solve() but is not rebuilt unconditionally inside it: a later phase (or a later solve) sees the earlier one's value" % k,
                      "carried object state " + k)
    rep.instance(rule, "system.System.solve phase loop: object state rebuilt per phase", "%s:%d" % (rel, ploop.lineno), ok,
                 "reachable methods: %d; rebuilt: %s; mutated: %s" % (len(methods), sorted(U), sorted(M)))
    if not methods:
        raise AnalysisError("phase loop reaches no method")
    return ok


def phase_param_rule(model, rep):
    """inside the phase loop of solve() the phase is the loop variable: the `phase` parameter (the caller's request,
    '' for all phases) must not be read there"""
    r = roles(model)
    rel = model.rel("system")
    an = solve_anchors(model, r)
    ploop = an["phase_loop"]
    fn = an["fn"]
    pname = "phase" if any(a.arg == "phase" for a in fn.args.kwonlyargs + fn.args.args) else None
    if pname is None:
        raise AnalysisError("solve() has no phase parameter")
    ok = True
    for s in ploop.body:
        for n in ast.walk(s):
            if isinstance(n, ast.Name) and n.id == pname and isinstance(n.ctx, ast.Load):
                ok = False
                rep.violation("R3", "system.System.solve", "%s:%d" % (rel, n.lineno),
                              "the caller's `%s` argument is used inside the phase loop where the phase being solved is `%s`" % (pname, ploop.target.id),
                              "phase parameter read in loop")
    rep.instance("R3", "system.System.solve phase loop uses the loop variable only", "%s:%d" % (rel, ploop.lineno), ok)


def set_sys_phases_rule(model, rep, rule):
    """set_sys_phases(P) makes P the phase set: the registry is replaced wholesale by the argument (not merged into)"""
    rel = model.rel("system")
    fn = model.own_method("System", "set_sys_phases")
    if fn is None:
        raise AnalysisError("System.set_sys_phases not found")
    arg = fn.args.args[1].arg
    ok = False
    other = []
    for n in ast.walk(fn):
        if isinstance(n, ast.Assign) and any(registry_of(t) == "phases" for t in n.targets):
            v = ast.unparse(n.value).replace(" ", "")
            if v in (arg, "dict(%s)" % arg, "%s.copy()" % arg, "{**%s}" % arg, "copy.deepcopy(%s)" % arg):
                ok = True
            else:
                other.append("assigned from " + v)
        if isinstance(n, ast.Call) and isinstance(n.func, ast.Attribute) and n.func.attr in MUTATORS and registry_of(n.func.value) == "phases":
            other.append("modified in place by .%s()" % n.func.attr)
        if isinstance(n, (ast.Assign, ast.AugAssign, ast.Delete)):
            tg = n.targets if isinstance(n, (ast.Assign, ast.Delete)) else [n.target]
            for t in tg:
                if isinstance(t, ast.Subscript) and registry_of(t.value) is not None and registry_of(t.value) != "phases":
                    other.append("also writes registry '%s'" % registry_of(t.value))
                if registry_of(t) is not None and registry_of(t) != "phases":
                    other.append("also replaces registry '%s'" % registry_of(t))
    if other or not ok:
        ok = False
        rep.violation(rule, "system.System.set_sys_phases", "%s:%d" % (rel, fn.lineno),
                      "the system phase set is not simply replaced by the argument (%s): phases dropped by the caller stay defined / other configuration changes" % ("; ".join(other) or "no wholesale assignment"),
                      "phase set not replaced: " + ("; ".join(sorted(set(other))) or "none"))
    rep.instance(rule, "system.System.set_sys_phases replaces the phase set", "%s:%d" % (rel, fn.lineno), ok)


def lift0():
    return lift(0)


PHASE_CONF_WRITERS = {"__init__", "from_file", "add_source", "add_comp", "change_comp", "del_comp", "set_comp_phases"}


def _only_called_by(model, name, allowed, depth=3):
    """a private helper is covered by the permission of its callers when every caller (transitively) is permitted"""
    if not name.startswith("_") or depth == 0:
        return False
    callers = [qn.split(".")[-1] for mod, qn, fn in model.all_functions() if mod == "system" and qn.split(".")[-1] != name and name in self_calls(fn)]
    return bool(callers) and all(c in allowed or _only_called_by(model, c, allowed, depth - 1) for c in callers)


def phase_conf_writers_rule(model, rep, rule):
    """who may write the per-component phase configuration (it decides which components are inactive in a phase)"""
    rel = model.rel("system")
    ok = True
    n = 0
    for mod, qn, fn in model.all_functions():
        if mod != "system":
            continue
        parts = qn.split(".")
        short = parts[-1]
        if len(parts) >= 3 and parts[0] == "System":
            short = parts[1]          # a function nested in a method acts for that method
        for x in ast.walk(fn):
            hit = None
            if isinstance(x, (ast.Assign, ast.AugAssign, ast.Delete)):
                tg = x.targets if isinstance(x, (ast.Assign, ast.Delete)) else [x.target]
                for t in tg:
                    for tt in (t.elts if isinstance(t, (ast.List, ast.Tuple)) else [t]):
                        if registry_of(tt) == "phase_conf" or (isinstance(tt, ast.Subscript) and registry_of(tt.value) == "phase_conf"):
                            hit = x
            if isinstance(x, ast.Call) and isinstance(x.func, ast.Attribute) and x.func.attr in MUTATORS and registry_of(x.func.value) == "phase_conf":
                hit = x
            if hit is not None:
                n += 1
                if short not in PHASE_CONF_WRITERS and not _only_called_by(model, short, PHASE_CONF_WRITERS):
                    ok = False
                    rep.violation(rule, "system.%s" % qn, "%s:%d" % (rel, hit.lineno), "%s rewrites the per-component phase configuration: components configured as inactive in a phase can silently become active" % short, "phase_conf written by " + short)
    if n == 0:
        raise AnalysisError("no writer of the phase configuration found")
    rep.instance(rule, "per-component phase configuration written only by the edit / configuration methods", "%s:1" % rel, ok, "%d write sites" % n)


def phase_lookup_rule(model, rep, r, rule):
    """the per-node phase table handed to the laws is the registry entry of the same component, for every kind"""
    rel = model.rel("system")
    lfn = model.own_method("System", r["SET_PHLK"])
    loop = find_loop(lfn, lambda l: isinstance(l, ast.For), "phase lookup loop")
    ok = False
    for s in ast.walk(loop):
        if isinstance(s, ast.Assign) and isinstance(s.targets[0], ast.Subscript):
            key, val = s.targets[0].slice, s.value
            if isinstance(key, ast.Call) and isinstance(key.func, ast.Attribute) and key.func.attr == "_get_index":
                it = ast.dump(loop.iter)
                if "phase_conf" in it and ".items" in ast.unparse(loop.iter):
                    tgt = loop.target
                    if isinstance(tgt, ast.Name):
                        ok = ast.unparse(key.args[0]) == tgt.id + "[0]" and ast.unparse(val) == tgt.id + "[1]"
                    elif isinstance(tgt, ast.Tuple) and len(tgt.elts) == 2:
                        ok = ast.unparse(key.args[0]) == tgt.elts[0].id and ast.unparse(val) == tgt.elts[1].id
                elif "phase_conf" in it:
                    tgt = loop.target
                    ok = isinstance(tgt, ast.Name) and ast.unparse(key.args[0]) == tgt.id and ast.unparse(val).replace("'", '"').endswith('["phase_conf"][%s]' % tgt.id)
    # nothing in the loop may make the entry conditional on the component
    if any(isinstance(x, (ast.If, ast.IfExp)) for x in ast.walk(loop)):
        ok = False
    if not ok:
        rep.violation(rule, "system.System.%s" % r["SET_PHLK"], "%s:%d" % (rel, loop.lineno), "the per-node phase table is not unconditionally the registry entry of the same component", "phase lookup map")
    rep.instance(rule, "system.System.%s name -> index map" % r["SET_PHLK"], "%s:%d" % (rel, loop.lineno), ok)
