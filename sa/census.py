"""Mutation census (thorough tier): systematic single-node mutants of the functions a property is anchored in,
analysed (never run) by the property's rules.  Reports how many the rules flag; never affects the exit code."""


def run(prop):
    return {"mutants": 0, "flagged": 0, "unreadable": 0, "survived": 0, "note": "census not built yet"}
