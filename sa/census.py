"""Mutation census (thorough tier): systematic single-node mutants of the functions a property is anchored in,
analysed (never run) by the property's rules.  Reports how many the rule set flags, how many it cannot read and
which survive, so that the blind spots are visible.  The census never affects the exit code: a surviving mutant may
well be behaviour-preserving (no equivalence check is attempted), so survivors are a reading list, not findings."""
import ast
import copy
import os
import random
import multiprocessing as mp
from .core import disk_provider, overlay_provider, FILES, KINDS

LAW = ["%s.%s" % (k, m) for k in KINDS for m in ("_solv_inp_curr", "_solv_outp_volt", "_solv_pwr_loss")]
CTORS = ["%s.__init__" % k for k in KINDS]
EDIT = ["System.add_source", "System.add_comp", "System.change_comp", "System.del_comp", "System.set_sys_phases", "System.set_comp_phases",
        "System._chk_parent", "System._chk_comp", "System._chk_name"]

ANCHORS = {
    "C01": [("components", [x for x in LAW if not x.endswith("_pwr_loss")] + ["_calc_inp_current"]), ("system", ["System._child_curr", "System._fwd_prop", "System._back_prop", "System.solve"])],
    "C02": [("components", [x for x in LAW if x.endswith("_pwr_loss")] + ["_get_eff"]), ("system", ["System.solve"])],
    "C03": [("system", ["System._solve", "System.solve"]), ("components", [x for x in LAW if x.endswith("_outp_volt")])],
    "C04": [("components", LAW + ["Source._get_state", "_calc_inp_current"]), ("system", ["System._sys_init", "System._solve", "System._set_phase_lkup"])],
    "C05": [("components", ["PMux._get_pri_inp", "PMux._solv_inp_curr", "PMux._solv_outp_volt", "_Component._get_pri_inp"]),
            ("system", ["System._child_curr", "System._find_domain", "System._get_parents", "System.add_comp", "System.solve"])],
    "C06": [("components", [x for x in LAW if x.split(".")[0] in ("PLoad", "ILoad", "RLoad", "Source", "Converter", "LinReg", "PSwitch", "PMux")]),
            ("system", ["System.solve", "System._solve", "System._set_phase_lkup", "System.set_sys_phases", "System._sys_init"])],
    "C07": [("system", ["System.solve", "System._calc_energy", "System._find_domain"])],
    "C08": [("system", ["System.rail_rep", "System.solve"])],
    "C09": [("components", ["_get_warns", "_Component._solv_get_warns", "_Component._get_limits"] + ["%s._get_limits" % k for k in ("Source", "PLoad", "ILoad", "RLoad", "Converter")]), ("system", ["System.solve"])],
    "C10": [("components", ["_Interp1d.__init__", "_Interp1d._interp", "_Interp2d.__init__", "_Interp2d._interp", "_check_interp"] + CTORS)],
    "C11": [("components", CTORS + ["_check_limits", "_check_interp", "_Interp1d.__init__", "_Interp2d.__init__"])],
    "C12": [("system", ["System.save", "System.from_file", "System._get_applims"])],
    "C13": [("components", ["_Component.from_file", "LinReg.from_file"])],
    "C14": [("system", EDIT[:4] + EDIT[6:]), ("components", ["%s._child_types" % k for k in ("Source", "PLoad", "RLoss", "Converter")])],
    "C15": [("system", EDIT)],
    "C16": [("system", EDIT[:4] + ["System._rel_update", "System._get_parents", "System._get_childs", "System._sys_vars", "System._pars_and_limits", "System.phases", "System._filt_lim"])],
    "C17": [("system", ["System.batt_life", "System.solve", "System._set_phase_lkup", "System._sys_vars"]), ("diagram", ["_diag", "_prep_loss", "get_conf"]), ("components", ["_Component._get_params", "PLoad._solv_inp_curr"])],
    "C18": [("system", ["System.batt_life"])],
    "C19": [("diagram", ["_diag", "_prep_loss", "_gcolor", "_nice_float", "make_hdiag", "make_diag"])],
    "C20": [("utils", ["trace_res", "plane_res"])],
}

CMP_FLIP = {ast.Lt: ast.LtE, ast.LtE: ast.Lt, ast.Gt: ast.GtE, ast.GtE: ast.Gt, ast.Eq: ast.NotEq, ast.NotEq: ast.Eq, ast.In: ast.NotIn, ast.NotIn: ast.In,
            ast.Is: ast.IsNot, ast.IsNot: ast.Is}
BIN_FLIP = {ast.Add: ast.Sub, ast.Sub: ast.Add, ast.Mult: ast.Div, ast.Div: ast.Mult}


def find_function(tree, qual):
    parts = qual.split(".")
    body = tree.body
    node = None
    for p in parts:
        node = None
        for n in body:
            if isinstance(n, (ast.FunctionDef, ast.ClassDef)) and n.name == p:
                node = n
                break
        if node is None:
            return None
        body = node.body
    return node if isinstance(node, ast.FunctionDef) else None


def sites(fn):
    """(kind, path-index) for every mutation site inside a function, in a deterministic order"""
    out = []
    for i, n in enumerate(ast.walk(fn)):
        if isinstance(n, ast.Compare) and len(n.ops) == 1 and type(n.ops[0]) in CMP_FLIP:
            out.append(("cmp", i))
        elif isinstance(n, ast.BinOp) and type(n.op) in BIN_FLIP:
            out.append(("bin", i))
        elif isinstance(n, ast.BoolOp):
            out.append(("bool", i))
        elif isinstance(n, ast.Constant) and isinstance(n.value, (int, float)) and not isinstance(n.value, bool):
            out.append(("const", i))
        elif isinstance(n, ast.If):
            out.append(("negate", i))
        elif isinstance(n, ast.Call) and len(n.args) >= 2 and not any(isinstance(a, ast.Starred) for a in n.args):
            out.append(("swapargs", i))
        elif isinstance(n, (ast.Assign, ast.AugAssign)) or (isinstance(n, ast.Expr) and isinstance(n.value, ast.Call)):
            out.append(("delete", i))
        elif isinstance(n, ast.Subscript) and isinstance(n.slice, ast.Constant) and n.slice.value in (0, 1):
            out.append(("index", i))
    return out


def apply_site(fn, kind, idx):
    for i, n in enumerate(ast.walk(fn)):
        if i != idx:
            continue
        if kind == "cmp":
            n.ops = [CMP_FLIP[type(n.ops[0])]()]
        elif kind == "bin":
            n.op = BIN_FLIP[type(n.op)]()
        elif kind == "bool":
            n.op = ast.Or() if isinstance(n.op, ast.And) else ast.And()
        elif kind == "const":
            n.value = (n.value + 1) if isinstance(n.value, int) else (1.0 if n.value == 0.0 else n.value * 2)
        elif kind == "negate":
            n.test = ast.UnaryOp(op=ast.Not(), operand=n.test)
        elif kind == "swapargs":
            n.args[0], n.args[1] = n.args[1], n.args[0]
        elif kind == "delete":
            return "delete", n
        elif kind == "index":
            n.slice = ast.Constant(value=1 - n.slice.value)
        return kind, n
    return None, None


def replace_stmt(root, target):
    for parent in ast.walk(root):
        for fld in ("body", "orelse", "finalbody"):
            blk = getattr(parent, fld, None)
            if isinstance(blk, list):
                for j, s in enumerate(blk):
                    if s is target:
                        blk[j] = ast.copy_location(ast.Pass(), s)
                        return True
    return False


def mutants(prop, base, limit, seed):
    """-> list of (description, overlay)"""
    cand = []
    for mod, quals in ANCHORS.get(prop, []):
        text = base(FILES[mod])
        tree = ast.parse(text)
        for q in quals:
            fn = find_function(tree, q)
            if fn is None:
                continue
            for kind, idx in sites(fn):
                cand.append((mod, q, kind, idx))
    rnd = random.Random(seed * 7919 + sum(ord(c) for c in prop))
    rnd.shuffle(cand)
    cand = sorted(cand[:limit])
    out = []
    cache = {}
    for mod, q, kind, idx in cand:
        if mod not in cache:
            cache[mod] = base(FILES[mod])
        tree = ast.parse(cache[mod])
        fn = find_function(tree, q)
        k, node = apply_site(fn, kind, idx)
        if k is None:
            continue
        line = getattr(node, "lineno", 0)
        try:
            snippet = ast.unparse(node.test if kind == "negate" else node).replace("\n", " ")[:70]
        except Exception:
            snippet = ""
        if k == "delete":
            if not replace_stmt(fn, node):
                continue
        ast.fix_missing_locations(tree)
        try:
            new = ast.unparse(tree) + "\n"
            ast.parse(new)
        except Exception:
            continue
        out.append(("%s %s.%s -> `%s`" % (kind, mod, q, snippet), {FILES[mod]: new}))
    return out, len(cand)


def _job(args):
    prop, desc, ov = args
    from .engine import verdict
    base = disk_provider()
    st, det = verdict(prop, overlay_provider(base, ov))
    return desc, st, (det[0][:160] if det else "")


def run(prop, limit=None, procs=16):
    limit = limit or int(os.environ.get("VERIF_CENSUS", "160"))
    seed = int(os.environ.get("VERIF_SEED", "0") or 0)
    base = disk_provider()
    ms, total = mutants(prop, base, limit, seed)
    if not ms:
        return {"mutants": 0, "flagged": 0, "unreadable": 0, "survived": 0, "note": "no anchor function found"}
    jobs = [(prop, d, ov) for d, ov in ms]
    with mp.get_context("fork").Pool(min(procs, len(jobs))) as pool:
        res = pool.map(_job, jobs, chunksize=2)
    flagged = [r for r in res if r[1] == "violation"]
    unread = [r for r in res if r[1] == "error"]
    surv = [r for r in res if r[1] == "ok"]
    return {"mutants": len(res), "flagged": len(flagged), "unreadable": len(unread), "survived": len(surv),
            "operators": sorted({r[0].split()[0] for r in res}),
            "survivors": [r[0] for r in surv][:60],
            "unreadable_examples": [(r[0], r[2]) for r in unread][:10],
            "note": "single-node AST mutants of the anchored functions (sampled deterministically from VERIF_SEED); survivors may be behaviour-preserving or outside the property - they are a reading list, not findings"}
