"""E1 - program model of /repo (parsed, never imported) + reporting / evidence / exit policy."""
import ast
import hashlib
import re
import json
import os
import sys
import time

REPO = os.environ.get("SYSLOSS_REPO", "/repo")
VERIF = os.path.dirname(os.path.dirname(os.path.abspath(__file__)))
FILES = {
    "components": "src/sysloss/components.py",
    "system": "src/sysloss/system.py",
    "diagram": "src/sysloss/diagram.py",
    "utils": "src/sysloss/utils.py",
}
KINDS = ["Source", "PLoad", "ILoad", "RLoad", "RLoss", "VLoss", "Converter", "LinReg", "PSwitch", "PMux", "Rectifier"]


_CTX_SINGLETONS = (ast.expr_context, ast.operator, ast.cmpop, ast.boolop, ast.unaryop)   # shared by all trees of the process: no back links on them


class AnalysisError(Exception):
    """the checker cannot read the construct it is supposed to judge -> exit 2"""


def disk_provider(root=None):
    root = root or REPO

    def get(rel):
        with open(os.path.join(root, rel), newline="") as f:
            return f.read().replace("\r\n", "\n")
    return get


def overlay_provider(base, overlay):
    def get(rel):
        if rel in overlay:
            return overlay[rel]
        return base(rel)
    return get


def clone_ast(node):
    """structural copy of an AST (fields and positions), ignoring the back links (_parent) the model attaches"""
    if isinstance(node, list):
        return [clone_ast(x) for x in node]
    if not isinstance(node, ast.AST):
        return node
    new = type(node)()
    for fld, val in ast.iter_fields(node):
        setattr(new, fld, clone_ast(val))
    for a in ("lineno", "col_offset", "end_lineno", "end_col_offset"):
        if hasattr(node, a):
            setattr(new, a, getattr(node, a))
    return new


def _is_registry_expr(n):
    """<obj>._g.attrs  or  <obj>._g.attrs["k"]  with <obj> a plain name"""
    if isinstance(n, ast.Subscript) and isinstance(n.slice, ast.Constant) and isinstance(n.slice.value, str):
        n = n.value
    return isinstance(n, ast.Attribute) and n.attr == "attrs" and isinstance(n.value, ast.Attribute) and n.value.attr == "_g" and isinstance(n.value.value, ast.Name)


def inline_registry_aliases(tree):
    """`reg = self._g.attrs["k"]` ... `reg[x] = y`  ->  `self._g.attrs["k"][x] = y`: a local name bound exactly once to a
    registry (and the registry not re-bound in the same function) is replaced by the registry expression, so that every
    rule sees registry accesses in one spelling.  Behaviour-preserving by construction; done on the parsed tree only."""
    import copy
    for fn in ast.walk(tree):
        if not isinstance(fn, (ast.FunctionDef, ast.AsyncFunctionDef)):
            continue
        binds = {}
        for x in ast.walk(fn):
            if isinstance(x, ast.Name) and isinstance(x.ctx, (ast.Store, ast.Del)):
                binds[x.id] = binds.get(x.id, 0) + 1
        params = {a.arg for a in fn.args.posonlyargs + fn.args.args + fn.args.kwonlyargs}
        rebound = set()
        for x in ast.walk(fn):
            if isinstance(x, ast.Assign):
                for t in x.targets:
                    if _is_registry_expr(t):
                        rebound.add(ast.dump(t).replace("Store()", "Load()"))
        alias = {}
        for x in ast.walk(fn):
            if isinstance(x, ast.Assign) and len(x.targets) == 1 and isinstance(x.targets[0], ast.Name) and _is_registry_expr(x.value):
                nm = x.targets[0].id
                if binds.get(nm) == 1 and nm not in params and ast.dump(x.value) not in rebound:
                    alias[nm] = x
        if not alias:
            continue

        class Sub(ast.NodeTransformer):
            def visit_Name(self, n):
                if isinstance(n.ctx, ast.Load) and n.id in alias:
                    return ast.copy_location(clone_ast(alias[n.id].value), n)
                return n

            def visit_Assign(self, n):
                if any(n is a for a in alias.values()):
                    return ast.copy_location(ast.Pass(), n)
                return self.generic_visit(n)
        Sub().visit(fn)
        ast.fix_missing_locations(fn)


def _ifexp_path(node, path=()):
    """path (field, index) to the first conditional expression of a statement that is evaluated in the statement's own
    scope (not inside a comprehension / lambda, not in a short-circuited operand)"""
    if isinstance(node, ast.IfExp):
        return path
    if isinstance(node, (ast.ListComp, ast.SetComp, ast.DictComp, ast.GeneratorExp, ast.Lambda)):
        return None
    for fld, val in ast.iter_fields(node):
        if isinstance(val, ast.AST):
            if isinstance(node, ast.BoolOp):
                continue
            r = _ifexp_path(val, path + ((fld, None),))
            if r is not None:
                return r
        elif isinstance(val, list):
            for i, x in enumerate(val):
                if isinstance(x, ast.AST):
                    if isinstance(node, ast.BoolOp) and i > 0:
                        continue
                    r = _ifexp_path(x, path + ((fld, i),))
                    if r is not None:
                        return r
    return None


def desugar_ifexp(stmt):
    """-> synthetic `if` statement with the two specialised copies of stmt, or None"""
    import copy
    path = _ifexp_path(stmt)
    if not path:
        return None

    def build(pick):
        c = clone_ast(stmt)
        cur = c
        for fld, i in path[:-1]:
            cur = getattr(cur, fld) if i is None else getattr(cur, fld)[i]
        fld, i = path[-1]
        ife = getattr(cur, fld) if i is None else getattr(cur, fld)[i]
        repl = ife.body if pick else ife.orelse
        if i is None:
            setattr(cur, fld, repl)
        else:
            getattr(cur, fld)[i] = repl
        return c, ife.test
    a, test = build(True)
    b, _ = build(False)
    syn = ast.If(test=test, body=[a], orelse=[b])
    ast.copy_location(syn, stmt)
    ast.fix_missing_locations(syn)
    return syn


def desugar_tree(tree):
    """canonical forms on the parsed tree, each behaviour-preserving for an analysis that does not execute anything:
    (1) a simple statement holding a conditional expression becomes an if / else of the two specialised statements;
    (2) an f-string without conversions / format specs becomes the equivalent "..{}..".format(..) call;
    (3) dict(a=x) becomes the literal {"a": x}; (4) a dict literal bound to a name and updated with literal items in the very
    next statement becomes the one literal."""
    class F(ast.NodeTransformer):
        def visit_JoinedStr(self, n):
            tmpl, args = "", []
            for v in n.values:
                if isinstance(v, ast.Constant) and isinstance(v.value, str):
                    tmpl += v.value.replace("{", "{{").replace("}", "}}")
                elif isinstance(v, ast.FormattedValue) and v.conversion == -1:
                    spec = v.format_spec
                    if spec is None:
                        tmpl += "{}"
                    elif isinstance(spec, ast.JoinedStr) and all(isinstance(x, ast.Constant) and isinstance(x.value, str) for x in spec.values):
                        tmpl += "{:" + "".join(x.value for x in spec.values) + "}"
                    else:
                        return n
                    args.append(self.visit(v.value))
                else:
                    return n
            call = ast.Call(func=ast.Attribute(value=ast.Constant(value=tmpl), attr="format", ctx=ast.Load()), args=args, keywords=[])
            return ast.copy_location(call, n)

        def visit_Call(self, n):
            # (3) dict(a=x, b=y) is the literal {"a": x, "b": y}
            self.generic_visit(n)
            if isinstance(n.func, ast.Name) and n.func.id == "dict" and not n.args and n.keywords and all(k.arg is not None for k in n.keywords):
                return ast.copy_location(ast.Dict(keys=[ast.Constant(value=k.arg) for k in n.keywords], values=[k.value for k in n.keywords]), n)
            return n
    F().visit(tree)

    def literal_items(call):
        """X.update(a=1) / X.update({"a": 1}) -> [(key node, value node)] or None"""
        if call.args and call.keywords:
            return None
        if len(call.args) == 1 and isinstance(call.args[0], ast.Dict) and all(isinstance(k, ast.Constant) for k in call.args[0].keys):
            return list(zip(call.args[0].keys, call.args[0].values))
        if not call.args and call.keywords and all(k.arg is not None for k in call.keywords):
            return [(ast.Constant(value=k.arg), k.value) for k in call.keywords]
        return None

    def merge_updates(stmts):
        """(4) X = {literal}; X.update(<literal items>)  ->  X = {literal with the items}  (adjacent statements, X a plain name
        the items do not mention)"""
        out = []
        for s in stmts:
            prev = out[-1] if out else None
            if isinstance(s, ast.Expr) and isinstance(s.value, ast.Call) and isinstance(s.value.func, ast.Attribute) and s.value.func.attr == "update" \
                    and isinstance(s.value.func.value, ast.Name) and isinstance(prev, ast.Assign) and len(prev.targets) == 1 \
                    and isinstance(prev.targets[0], ast.Name) and prev.targets[0].id == s.value.func.value.id and isinstance(prev.value, ast.Dict) \
                    and all(isinstance(k, ast.Constant) for k in prev.value.keys):
                items = literal_items(s.value)
                X = prev.targets[0].id
                if items is not None and not any(isinstance(y, ast.Name) and y.id == X for _, v in items for y in ast.walk(v)):
                    for k, v in items:
                        hit = [i for i, k0 in enumerate(prev.value.keys) if k0.value == k.value]
                        if hit:
                            prev.value.values[hit[0]] = v
                        else:
                            prev.value.keys.append(ast.copy_location(k, s))
                            prev.value.values.append(v)
                    continue
            out.append(s)
        return out

    def fix(stmts):
        out = []
        for s in stmts:
            while isinstance(s, (ast.Assign, ast.AugAssign, ast.AnnAssign, ast.Return, ast.Expr)):
                syn = desugar_ifexp(s)
                if syn is None:
                    break
                s = syn
            for fld in ("body", "orelse", "finalbody"):
                blk = getattr(s, fld, None)
                if isinstance(blk, list) and blk and isinstance(blk[0], ast.stmt):
                    setattr(s, fld, fix(blk))
            if isinstance(s, ast.Try):
                for h in s.handlers:
                    h.body = fix(h.body)
            out.append(s)
        return merge_updates(out)
    for node in ast.walk(tree):
        if isinstance(node, (ast.FunctionDef, ast.AsyncFunctionDef)):
            node.body = fix(node.body)
    ast.fix_missing_locations(tree)


def deitems(fn):
    """for k, v in D.items(): ..v..  ->  for k in D: ..D[k]..   (in place, on an already cloned function; v must not be re-bound
    and D must be a pure path that the loop body does not store into)"""
    for lp in [x for x in ast.walk(fn) if isinstance(x, ast.For)]:
        it = lp.iter
        if not (isinstance(it, ast.Call) and isinstance(it.func, ast.Attribute) and it.func.attr == "items" and not it.args and not it.keywords
                and isinstance(lp.target, ast.Tuple) and len(lp.target.elts) == 2 and all(isinstance(e, ast.Name) for e in lp.target.elts)):
            continue
        k, v = lp.target.elts[0].id, lp.target.elts[1].id
        D = it.func.value
        d = D
        while isinstance(d, (ast.Attribute, ast.Subscript)):
            if isinstance(d, ast.Subscript) and not isinstance(d.slice, (ast.Constant, ast.Name)):
                break
            d = d.value
        if not isinstance(d, ast.Name):
            continue
        if any(isinstance(x, ast.Name) and x.id in (k, v) and isinstance(x.ctx, ast.Store) for s in lp.body for x in ast.walk(s)):
            continue
        dtxt = ast.unparse(D)
        if any(isinstance(x, (ast.Subscript, ast.Attribute)) and isinstance(x.ctx, (ast.Store, ast.Del)) and ast.unparse(x).startswith(dtxt) for s in lp.body for x in ast.walk(s)):
            continue

        class Sub(ast.NodeTransformer):
            def visit_Name(self, n):
                if n.id == v and isinstance(n.ctx, ast.Load):
                    return ast.copy_location(ast.Subscript(value=clone_ast(D), slice=ast.Name(id=k, ctx=ast.Load()), ctx=ast.Load()), n)
                return n
        lp.body = [Sub().visit(s) for s in lp.body]
        lp.target = ast.copy_location(ast.Name(id=k, ctx=ast.Store()), lp.target)
        lp.iter = clone_ast(D)
    ast.fix_missing_locations(fn)
    return fn


def inline_single_return_calls(fn, model=None, cls=None):
    """calls of a helper whose body is a single `return <expr>` - a function nested in fn, or (with model / cls) a method
    reached as self.m(..) / Cls.m(..) - are replaced by that expression with the arguments substituted (on a cloned tree)"""
    nested = {x.name: x for x in ast.walk(fn) if isinstance(x, ast.FunctionDef) and x is not fn}

    def body_expr(h):
        body = [s for s in h.body if not (isinstance(s, ast.Expr) and isinstance(s.value, ast.Constant))]
        if len(body) == 1 and isinstance(body[0], ast.Return) and body[0].value is not None:
            return body[0].value
        return None

    class T(ast.NodeTransformer):
        def visit_Call(self, n):
            self.generic_visit(n)
            h, skip = None, 0
            if isinstance(n.func, ast.Name) and n.func.id in nested:
                h = nested[n.func.id]
            elif model is not None and cls and isinstance(n.func, ast.Attribute) and isinstance(n.func.value, ast.Name) and n.func.value.id in ("self", cls):
                h = model.own_method(cls, n.func.attr)
                if h is not None:
                    static = any(isinstance(d, ast.Name) and d.id == "staticmethod" for d in h.decorator_list)
                    skip = 0 if static else 1
            if h is None or n.keywords:
                return n
            e = body_expr(h)
            params = [a.arg for a in h.args.posonlyargs + h.args.args][skip:]
            if e is None or len(params) != len(n.args) or any(isinstance(c, ast.Call) and isinstance(c.func, ast.Name) and c.func.id == h.name for c in ast.walk(e)):
                return n
            mp = dict(zip(params, n.args))

            class S(ast.NodeTransformer):
                def visit_Name(self, m):
                    if isinstance(m.ctx, ast.Load) and m.id in mp:
                        return ast.copy_location(clone_ast(mp[m.id]), m)
                    return m
            return ast.copy_location(S().visit(clone_ast(e)), n)
    T().visit(fn)
    ast.fix_missing_locations(fn)
    return fn


def _always_returns(stmts):
    if not stmts:
        return False
    last = stmts[-1]
    if isinstance(last, (ast.Return, ast.Raise)):
        return True
    if isinstance(last, ast.If):
        return _always_returns(last.body) and _always_returns(last.orelse)
    return False


def inline_nested_defs(fn):
    """statement-level inlining of functions nested in fn (on a clone): a helper whose body is loop-free code ending in a
    return on every path and that is only ever called as a whole statement value (`x = h(..)`, `a, b = h(..)`,
    `acc += h(..)`, `h(..)`, `return h(..)`) with plain positional / keyword arguments is replaced, at each call, by its body
    with its locals renamed; a returned tuple unpacked into a tuple of names becomes pairwise assignments.
    Helpers that do not fit stay as they are."""
    if not any(isinstance(x, ast.FunctionDef) and x is not fn for x in ast.walk(fn)):
        return fn
    new = clone_ast(fn)
    changed = True
    rounds = 0
    while changed and rounds < 4:
        changed = False
        rounds += 1
        defs = [x for x in ast.walk(new) if isinstance(x, ast.FunctionDef) and x is not new]
        for h in defs:
            a = h.args
            if h.decorator_list or a.vararg or a.kwarg or a.kwonlyargs or a.posonlyargs:
                continue
            body = [s for s in h.body if not (isinstance(s, ast.Expr) and isinstance(s.value, ast.Constant))]
            if not body or not _always_returns(body):
                continue
            inner = [y for s in body for y in ast.walk(s)]
            if any(isinstance(y, (ast.For, ast.While, ast.FunctionDef, ast.Lambda, ast.Yield, ast.YieldFrom, ast.Global, ast.Nonlocal, ast.Try, ast.With)) for y in inner):
                continue
            nret = sum(1 for y in inner if isinstance(y, ast.Return))
            if nret > 4 or any(isinstance(y, ast.Return) and y.value is None for y in inner):
                continue
            single = nret == 1 and isinstance(body[-1], ast.Return)
            if any(isinstance(y, ast.Name) and y.id == h.name for y in inner):
                continue
            params = [x.arg for x in a.args]
            defaults = dict(zip(params[len(params) - len(a.defaults):], a.defaults))
            # every use of the name must be such a call
            uses = [y for y in ast.walk(new) if isinstance(y, ast.Name) and y.id == h.name and isinstance(y.ctx, ast.Load)]
            sites = []
            okay = True
            for blk_owner in ast.walk(new):
                for fld in ("body", "orelse", "finalbody"):
                    blk = getattr(blk_owner, fld, None)
                    if not isinstance(blk, list):
                        continue
                    for st in blk:
                        call = None
                        if isinstance(st, (ast.Assign, ast.AugAssign, ast.Return, ast.Expr)) and isinstance(st.value, ast.Call) and isinstance(st.value.func, ast.Name) and st.value.func.id == h.name:
                            call = st.value
                        if call is not None:
                            sites.append((blk, st, call))
            if len(sites) != len(uses) or not sites:
                continue
            local = set(params) | {y.id for y in inner if isinstance(y, ast.Name) and isinstance(y.ctx, ast.Store)}
            plan = []
            for blk, st, call in sites:
                if any(isinstance(x, ast.Starred) for x in call.args) or any(k.arg is None for k in call.keywords) or len(call.args) > len(params):
                    okay = False
                    break
                bind = dict(zip(params, call.args))
                for k in call.keywords:
                    if k.arg not in params or k.arg in bind:
                        okay = False
                    bind[k.arg] = k.value
                for q in params:
                    if q not in bind:
                        if q in defaults:
                            bind[q] = defaults[q]
                        else:
                            okay = False
                if not okay:
                    break
                plan.append((blk, st, call, bind))
            if not okay:
                continue
            for blk, st, call, bind in plan:
                pre = "_%s_" % h.name.strip("_")

                class Ren(ast.NodeTransformer):
                    def visit_Name(self, n):
                        if n.id in local:
                            return ast.copy_location(ast.Name(id=pre + n.id, ctx=n.ctx), n)
                        return n
                seq = []
                for q in params:
                    seq.append(ast.copy_location(ast.Assign(targets=[ast.Name(id=pre + q, ctx=ast.Store())], value=clone_ast(bind[q])), st))

                def emit(ret, st=st):
                    """the call statement with the returned expression in place of the call"""
                    if isinstance(st, ast.Assign) and len(st.targets) == 1 and isinstance(st.targets[0], ast.Tuple) and isinstance(ret, ast.Tuple) \
                            and len(ret.elts) == len(st.targets[0].elts) and all(isinstance(t, ast.Name) for t in st.targets[0].elts):
                        return [ast.copy_location(ast.Assign(targets=[clone_ast(t)], value=v), st) for t, v in zip(st.targets[0].elts, ret.elts)]
                    st2 = clone_ast(st)
                    st2.value = ret
                    return [st2]

                def conv(stmts):
                    out_ = []
                    for i_, s_ in enumerate(stmts):
                        if isinstance(s_, ast.Return):
                            return out_ + emit(Ren().visit(clone_ast(s_.value)))
                        if isinstance(s_, ast.If) and any(isinstance(y, ast.Return) for y in ast.walk(s_)):
                            rest = stmts[i_ + 1:]
                            b = conv(s_.body + ([] if _always_returns(s_.body) else rest))
                            o = conv(s_.orelse + ([] if _always_returns(s_.orelse) else rest))
                            out_.append(ast.copy_location(ast.If(test=Ren().visit(clone_ast(s_.test)), body=b or [ast.Pass()], orelse=o), st))
                            return out_
                        out_.append(ast.copy_location(Ren().visit(clone_ast(s_)), st))
                    return out_
                seq += conv(body)
                k = [i for i, x in enumerate(blk) if x is st][0]
                blk[k:k + 1] = seq
            # drop the definition
            for owner in ast.walk(new):
                for fld in ("body", "orelse", "finalbody"):
                    blk = getattr(owner, fld, None)
                    if isinstance(blk, list) and any(x is h for x in blk):
                        blk[:] = [x for x in blk if x is not h] or [ast.Pass()]
            changed = True
            break
    ast.fix_missing_locations(new)
    for node in ast.walk(new):
        for ch in ast.iter_child_nodes(node):
            if not isinstance(ch, _CTX_SINGLETONS):
                ch._parent = node
    return new


def inline_single_use_temps(fn, only_bool=False):
    """t = <expr> ... <one later use of t in the same block>  ->  the use reads <expr> (in place, on a cloned function).
    t must be bound once and read once; nothing the expression mentions may be re-bound between the two statements."""
    binds, loads = {}, {}
    for x in ast.walk(fn):
        if isinstance(x, ast.Name):
            d = binds if isinstance(x.ctx, (ast.Store, ast.Del)) else loads
            d[x.id] = d.get(x.id, 0) + 1

    def fix(stmts):
        i = 0
        while i < len(stmts):
            s = stmts[i]
            for fld in ("body", "orelse", "finalbody"):
                blk = getattr(s, fld, None)
                if isinstance(blk, list) and blk and isinstance(blk[0], ast.stmt):
                    fix(blk)
            if isinstance(s, ast.Assign) and len(s.targets) == 1 and isinstance(s.targets[0], ast.Name):
                t = s.targets[0].id
                if binds.get(t) == 1 and loads.get(t) == 1 and (not only_bool or isinstance(s.value, (ast.BoolOp, ast.Compare))):
                    free = {y.id for y in ast.walk(s.value) if isinstance(y, ast.Name)}
                    for j in range(i + 1, len(stmts)):
                        u = stmts[j]
                        own = [y for y in ast.walk(u.test if isinstance(u, (ast.If, ast.While)) else u) if isinstance(y, ast.Name) and y.id == t and isinstance(y.ctx, ast.Load)] \
                            if not isinstance(u, (ast.For, ast.With, ast.Try, ast.FunctionDef)) else []
                        if own:
                            class S(ast.NodeTransformer):
                                def visit_Name(self, m):
                                    if m.id == t and isinstance(m.ctx, ast.Load):
                                        return ast.copy_location(clone_ast(s.value), m)
                                    return m
                            if isinstance(u, (ast.If, ast.While)):
                                u.test = S().visit(u.test)
                            else:
                                stmts[j] = S().visit(u)
                            del stmts[i]
                            i -= 1
                            break
                        if any(isinstance(y, ast.Name) and isinstance(y.ctx, ast.Store) and y.id in free for y in ast.walk(u)):
                            break
            i += 1
    fix(fn.body)
    ast.fix_missing_locations(fn)
    return fn


def unroll_literal_loops(fn):
    """for x in ("a", "b"): body  ->  body[x:="a"]; body[x:="b"]   for loops over a short literal tuple / list of constants whose
    body neither re-binds x nor leaves the loop early (in place, on a cloned function)"""
    def fix(stmts):
        out = []
        for s in stmts:
            for fld in ("body", "orelse", "finalbody"):
                blk = getattr(s, fld, None)
                if isinstance(blk, list) and blk and isinstance(blk[0], ast.stmt):
                    setattr(s, fld, fix(blk))
            if isinstance(s, ast.For) and not s.orelse and isinstance(s.target, ast.Name) and isinstance(s.iter, (ast.Tuple, ast.List)) \
                    and 1 <= len(s.iter.elts) <= 6 and all(isinstance(e, ast.Constant) for e in s.iter.elts) \
                    and not any(isinstance(x, (ast.Break, ast.Continue)) for y in s.body for x in ast.walk(y)) \
                    and not any(isinstance(x, ast.Name) and x.id == s.target.id and isinstance(x.ctx, ast.Store) for y in s.body for x in ast.walk(y)):
                v = s.target.id
                for e in s.iter.elts:
                    class S(ast.NodeTransformer):
                        def visit_Name(self, m):
                            if m.id == v and isinstance(m.ctx, ast.Load):
                                return ast.copy_location(ast.Constant(value=e.value), m)
                            return m
                    out += [S().visit(clone_ast(b)) for b in s.body]
                continue
            out.append(s)
        return out
    fn.body = fix(fn.body)
    ast.fix_missing_locations(fn)
    return fn


def decontinue(fn):
    """loop body `if C: continue` followed by the rest  ->  `if not C: rest`  (in place, on a cloned function)"""
    def fix(stmts, in_loop):
        for i, s in enumerate(stmts):
            for fld in ("body", "orelse", "finalbody"):
                blk = getattr(s, fld, None)
                if isinstance(blk, list) and blk and isinstance(blk[0], ast.stmt):
                    setattr(s, fld, fix(blk, isinstance(s, (ast.For, ast.While)) and fld == "body" or (in_loop and not isinstance(s, (ast.For, ast.While)))))
        if in_loop:
            for i, s in enumerate(stmts):
                if isinstance(s, ast.If) and len(s.body) == 1 and isinstance(s.body[0], ast.Continue) and not s.orelse and i + 1 < len(stmts):
                    rest = fix(stmts[i + 1:], True)
                    neg = s.test.operand if isinstance(s.test, ast.UnaryOp) and isinstance(s.test.op, ast.Not) else ast.UnaryOp(op=ast.Not(), operand=s.test)
                    new = ast.copy_location(ast.If(test=neg, body=rest, orelse=[]), s)
                    return stmts[:i] + [new]
                if isinstance(s, ast.If) and len(s.body) > 1 and isinstance(s.body[-1], ast.Continue) and not s.orelse and i + 1 < len(stmts) \
                        and not any(isinstance(x, (ast.Continue, ast.Break)) for y in s.body[:-1] for x in ast.walk(y)):
                    rest = fix(stmts[i + 1:], True)
                    new = ast.copy_location(ast.If(test=s.test, body=s.body[:-1], orelse=rest), s)
                    return stmts[:i] + [new]
        return stmts
    fn.body = fix(fn.body, False)
    ast.fix_missing_locations(fn)
    return fn


def inline_pure_aliases(fn, keep=(), only=None):
    """copy of a function in which every local that is bound exactly once, at the top level of the body, to a pure path
    expression (names, attributes, constant / name subscripts - no calls, no arithmetic) is replaced by that expression,
    provided nothing the expression mentions is re-bound or stored into anywhere in the function.  `off = pstate["off"]`
    followed by `off[i]` reads like `pstate["off"][i]`.  Behaviour-preserving by construction; used by shape-matching
    rules so that an alias does not change what they see."""
    import copy
    fn = deitems(clone_ast(fn))
    binds = {}
    for x in ast.walk(fn):
        if isinstance(x, ast.Name) and isinstance(x.ctx, (ast.Store, ast.Del)):
            binds[x.id] = binds.get(x.id, 0) + 1
    def shape(e):
        """access path with subscripts abstracted: a.b[k].c -> ('a', '.b', '[]', '.c')"""
        parts = []
        while isinstance(e, (ast.Subscript, ast.Attribute)):
            parts.append("[]" if isinstance(e, ast.Subscript) else "." + e.attr)
            e = e.value
        if not isinstance(e, ast.Name):
            return None
        return (e.id,) + tuple(reversed(parts))
    # a store to path P re-binds what every alias of P or of something below P stands for; an in-place mutator on the
    # object at Q changes what the elements below Q are.  Mutating the aliased object itself is seen through the alias too.
    stored_paths, mutated_paths = set(), set()
    for x in ast.walk(fn):
        if isinstance(x, (ast.Subscript, ast.Attribute)) and isinstance(x.ctx, (ast.Store, ast.Del)):
            sp = shape(x)
            if sp:
                stored_paths.add(sp)
        if isinstance(x, ast.Call) and isinstance(x.func, ast.Attribute) and x.func.attr in ("append", "extend", "pop", "update", "clear", "remove", "insert", "setdefault", "sort", "reverse"):
            sp = shape(x.func.value)
            if sp:
                mutated_paths.add(sp)

    def invalidated(e):
        if isinstance(e, ast.Call) and isinstance(e.func, ast.Name) and e.func.id == "len" and len(e.args) == 1:
            # len(X) goes stale when X is stored to, rebound or mutated in place
            sp0 = shape(e.args[0])
            return sp0 is None or any(sp0[:len(q)] == q or q[:len(sp0)] == sp0 for q in stored_paths | mutated_paths)
        sp = shape(e)
        if sp is None:
            return True
        for q in stored_paths:
            if sp[:len(q)] == q:
                return True
        for q in mutated_paths:
            if len(sp) > len(q) and sp[:len(q)] == q:
                return True
        return False
    stored_roots = set()

    def pure(e):
        if isinstance(e, ast.Name):
            return True
        if isinstance(e, ast.Attribute):
            return pure(e.value)
        if isinstance(e, ast.Subscript):
            return pure(e.value) and (isinstance(e.slice, ast.Constant) or isinstance(e.slice, ast.Name))
        if isinstance(e, ast.Call) and isinstance(e.func, ast.Name) and e.func.id == "len" and len(e.args) == 1 and not e.keywords:
            return pure(e.args[0])      # the length of something nobody stores into
        return False
    params = {a.arg for a in fn.args.posonlyargs + fn.args.args + fn.args.kwonlyargs}
    alias = {}
    for s in ast.walk(fn):
        if isinstance(s, ast.Assign) and len(s.targets) == 1 and isinstance(s.targets[0], ast.Name) and pure(s.value) and not isinstance(s.value, ast.Name):
            nm = s.targets[0].id
            free = {y.id for y in ast.walk(s.value) if isinstance(y, ast.Name)}
            def stable(f):
                if f in stored_roots:
                    return False
                if binds.get(f, 0) == 0 or f in alias:
                    return True
                if binds.get(f) != 1:
                    return False
                # one binding site, textually before the alias; a loop variable only for aliases defined inside that loop
                for b in ast.walk(fn):
                    if isinstance(b, ast.For) and f in {y.id for y in ast.walk(b.target) if isinstance(y, ast.Name)}:
                        return b.lineno < s.lineno <= getattr(b, "end_lineno", s.lineno)
                    if isinstance(b, ast.Assign) and any(isinstance(y, ast.Name) and y.id == f and isinstance(y.ctx, ast.Store) for t in b.targets for y in ast.walk(t)):
                        return b.lineno < s.lineno
                return False
            def expanded(e):
                # the path with the aliases accepted so far written out (an alias of an alias hides nothing)
                e = clone_ast(e)
                for _ in range(8):
                    hit = False
                    for y in ast.walk(e):
                        for fld, val in ast.iter_fields(y):
                            if isinstance(val, ast.Name) and val.id in alias and isinstance(val.ctx, ast.Load):
                                setattr(y, fld, clone_ast(alias[val.id].value))
                                hit = True
                    if isinstance(e, ast.Name) and e.id in alias:
                        e = clone_ast(alias[e.id].value)
                        hit = True
                    if not hit:
                        break
                return e
            if binds.get(nm) == 1 and nm not in params and nm not in keep and (only is None or nm in only) and not invalidated(expanded(s.value)) and all(stable(f) for f in free) \
                    and (nm,) not in stored_paths and not any(q[0] == nm for q in stored_paths | mutated_paths):
                alias[nm] = s
    if not alias:
        return fn

    class Sub(ast.NodeTransformer):
        def visit_Name(self, n):
            if isinstance(n.ctx, ast.Load) and n.id in alias:
                return ast.copy_location(clone_ast(Sub().visit(clone_ast(alias[n.id].value))), n)
            return n
    drop = {id(a) for a in alias.values()}

    def rewrite(stmts):
        out = []
        for s in stmts:
            if id(s) in drop:
                continue
            for fld in ("body", "orelse", "finalbody"):
                blk = getattr(s, fld, None)
                if isinstance(blk, list) and blk and isinstance(blk[0], ast.stmt):
                    setattr(s, fld, rewrite(blk) or [ast.copy_location(ast.Pass(), s)])
            if isinstance(s, ast.Try):
                for h in s.handlers:
                    h.body = rewrite(h.body) or [ast.copy_location(ast.Pass(), s)]
            # expressions of this statement itself (not of nested statements, already done)
            for fld, val in ast.iter_fields(s):
                if fld in ("body", "orelse", "finalbody", "handlers"):
                    continue
                if isinstance(val, ast.AST):
                    setattr(s, fld, Sub().visit(val))
                elif isinstance(val, list):
                    setattr(s, fld, [Sub().visit(x) if isinstance(x, ast.AST) else x for x in val])
            out.append(s)
        return out
    fn.body = rewrite(fn.body)
    ast.fix_missing_locations(fn)
    return fn


class Model:
    def __init__(self, provider=None, specialise=True):
        self.provider = provider or disk_provider()
        self.src = {}
        self.tree = {}
        self.digest = {}
        for mod, rel in FILES.items():
            try:
                text = self.provider(rel)
            except OSError as e:
                raise AnalysisError("cannot read %s: %s" % (rel, e))
            self.src[mod] = text
            self.digest[rel] = hashlib.sha256(text.encode("utf8")).hexdigest()[:16]
            try:
                self.tree[mod] = ast.parse(text, filename=rel)
            except SyntaxError as e:
                raise AnalysisError("%s does not parse: %s" % (rel, e))
        # names, helpers and constants a maintenance commit introduced are brought back to the inventory's vocabulary (sa/canon.py)
        from .canon import canonicalise
        self.canon_notes = canonicalise(self.tree, specialise=specialise)
        # functions / classes that are still there and that the inventory does not know (helpers that could not be written out)
        from .canon import inventory as _inv, scopes as _scopes
        inv_ = _inv() or {}
        known_f = {q.rpartition(".")[2] for m_ in inv_.get("functions", {}).values() for q in m_}
        known_c = set(inv_.get("methods_of", {}))
        self.new_names = set()
        if inv_:
            for mod_, t_ in self.tree.items():
                for scope_, owner_, fn_ in _scopes(t_):
                    if fn_.name not in known_f and not (fn_.name.startswith("__") and fn_.name.endswith("__")):
                        self.new_names.add(fn_.name)
                for c_ in t_.body:
                    if isinstance(c_, ast.ClassDef) and c_.name not in known_c:
                        self.new_names.add(c_.name)
        for mod in self.tree:
            inline_registry_aliases(self.tree[mod])
            desugar_tree(self.tree[mod])
            for node in ast.walk(self.tree[mod]):
                for ch in ast.iter_child_nodes(node):
                    if not isinstance(ch, _CTX_SINGLETONS):
                        ch._parent = node
        self.classes = {}
        self.funcs = {}
        self.consts = {}
        for mod, t in self.tree.items():
            for n in t.body:
                if isinstance(n, ast.ClassDef):
                    self.classes[n.name] = (mod, n)
                elif isinstance(n, ast.FunctionDef):
                    self.funcs[(mod, n.name)] = n
                elif isinstance(n, ast.Assign) and len(n.targets) == 1 and isinstance(n.targets[0], ast.Name):
                    self.consts[(mod, n.targets[0].id)] = n.value

    # ---- lookups
    def norm_func(self, mod, name):
        """module-level function in normal form: pure aliases inlined, items() loops as key loops, guard-continue as if"""
        cache = self.__dict__.setdefault("_norm_funcs", {})
        if (mod, name) not in cache:
            fn = decontinue(inline_pure_aliases(self.func(mod, name)))
            for node in ast.walk(fn):
                for ch in ast.iter_child_nodes(node):
                    if not isinstance(ch, _CTX_SINGLETONS):
                        ch._parent = node
            cache[(mod, name)] = fn
        return cache[(mod, name)]

    def norm_method(self, cls, name):
        """own_method with pure local aliases inlined (cached): what shape-matching rules should read"""
        cache = self.__dict__.setdefault("_norm_methods", {})
        if (cls, name) not in cache:
            fn = self.own_method(cls, name)
            if fn is not None:
                fn = unroll_literal_loops(inline_pure_aliases(fn))
                for node in ast.walk(fn):
                    for ch in ast.iter_child_nodes(node):
                        if not isinstance(ch, _CTX_SINGLETONS):
                            ch._parent = node
            cache[(cls, name)] = fn
        return cache[(cls, name)]

    def rel(self, mod):
        return FILES[mod]

    def cls(self, name):
        if name not in self.classes:
            raise AnalysisError("class %s not found" % name)
        return self.classes[name][1]

    def mro(self, name):
        out = []
        cur = name
        seen = set()
        while cur in self.classes and cur not in seen:
            seen.add(cur)
            out.append(cur)
            bases = [b.id for b in self.classes[cur][1].bases if isinstance(b, ast.Name)]
            cur = bases[0] if bases else None
        return out

    def own_method(self, cname, mname):
        for n in self.cls(cname).body:
            if isinstance(n, ast.FunctionDef) and n.name == mname:
                return n
        return None

    def method(self, cname, mname):
        """(defining class, FunctionDef) through the linearised bases"""
        for c in self.mro(cname):
            m = self.own_method(c, mname)
            if m is not None:
                return c, m
        raise AnalysisError("method %s.%s not found" % (cname, mname))

    def class_attr(self, cname, attr):
        for c in self.mro(cname):
            for n in self.cls(c).body:
                if isinstance(n, ast.Assign) and len(n.targets) == 1 and isinstance(n.targets[0], ast.Name) and n.targets[0].id == attr:
                    return c, n.value
        return None, None

    def func(self, mod, name):
        f = self.funcs.get((mod, name))
        if f is None:
            raise AnalysisError("function %s.%s not found" % (mod, name))
        return f

    def const_value(self, mod, name, _depth=0):
        """fold a module-level constant to a python value (numbers, strings, lists, dicts, names of other constants)"""
        node = self.consts.get((mod, name))
        if node is None:
            raise AnalysisError("constant %s.%s not found" % (mod, name))
        return self.fold(mod, node, _depth)

    def fold(self, mod, node, _depth=0):
        if _depth > 8:
            raise AnalysisError("constant folding too deep")
        if isinstance(node, ast.Constant):
            return node.value
        if isinstance(node, ast.Name):
            if (mod, node.id) in self.consts:
                return self.const_value(mod, node.id, _depth + 1)
            if node.id in ("int", "float", "bool", "dict", "list", "str"):
                return node.id
            raise AnalysisError("cannot fold name %s" % node.id)
        if isinstance(node, ast.UnaryOp) and isinstance(node.op, ast.USub):
            return -self.fold(mod, node.operand, _depth + 1)
        if isinstance(node, ast.List):
            return [self.fold(mod, e, _depth + 1) for e in node.elts]
        if isinstance(node, ast.Tuple):
            return tuple(self.fold(mod, e, _depth + 1) for e in node.elts)
        if isinstance(node, ast.Dict):
            return {self.fold(mod, k, _depth + 1): self.fold(mod, v, _depth + 1) for k, v in zip(node.keys, node.values)}
        if isinstance(node, ast.BinOp) and isinstance(node.op, (ast.Add, ast.Sub, ast.Mult, ast.Div)):
            a, b = self.fold(mod, node.left, _depth + 1), self.fold(mod, node.right, _depth + 1)
            return {ast.Add: lambda: a + b, ast.Sub: lambda: a - b, ast.Mult: lambda: a * b, ast.Div: lambda: a / b}[type(node.op)]()
        raise AnalysisError("cannot fold %s" % type(node).__name__)

    def loc(self, mod, node):
        return "%s:%d" % (FILES[mod], getattr(node, "lineno", 0))

    def all_functions(self):
        """(mod, qualified name, FunctionDef) for every function, including nested ones"""
        out = []
        for mod, t in self.tree.items():
            def rec(body, prefix):
                for n in body:
                    if isinstance(n, ast.FunctionDef):
                        out.append((mod, prefix + n.name, n))
                        rec(n.body, prefix + n.name + ".")
                    elif isinstance(n, ast.ClassDef):
                        rec(n.body, prefix + n.name + ".")
            rec(t.body, "")
        return out


# ---------------------------------------------------------------------------------------------- reporting
_SCALED = re.compile(r"\b1(\d{9})\b")


def unscale(text):
    """line numbers of functions that received inlined code are 10^9 + 1000*line + k (sa/canon.py scale_lines); print the source line"""
    if not isinstance(text, str):
        return text
    return _SCALED.sub(lambda m: str(int(m.group(1)) // 1000), text)


class Finding:
    def __init__(self, prop, rule, construct, where, message, key, detail=None):
        self.prop, self.rule, self.construct, self.where = prop, rule, construct, unscale(where)
        self.message, self.key, self.detail = unscale(message), unscale(key), detail or {}

    def ident(self):
        return (self.prop, self.rule, self.construct, self.key)

    def as_dict(self):
        return {"property": self.prop, "rule": self.rule, "construct": self.construct, "where": self.where,
                "message": self.message, "key": self.key, "detail": self.detail}


class Report:
    """collects what one check analysed and decided"""

    def __init__(self, prop, tier="quick", level="other"):
        self.prop, self.tier, self.level = prop, tier, level
        self.t0 = time.time()
        self.instances = []      # (rule, construct, where, verdict)
        self.findings = []
        self.samples = []
        self.counts = {}
        self.notes = []
        self.assumptions = []
        self.explanation = ""
        self.obligations = 0
        self.discharged = 0
        self.extra = {}
        self.errors = []

    def attempt(self, fn, *a, **kw):
        """run one rule; an unreadable anchor of that rule must not hide what the other rules found"""
        try:
            return fn(*a, **kw)
        except AnalysisError as e:
            self.errors.append(unscale(str(e)))
            return None
        except RecursionError as e:
            self.errors.append("internal: recursion limit in %s" % getattr(fn, "__name__", "rule"))
            return None
        except Exception as e:   # an unexpected shape of the code under analysis must never look like a verdict
            import traceback
            tb = traceback.extract_tb(e.__traceback__)[-1]
            self.errors.append("internal: %s: %r at %s:%d" % (getattr(fn, "__name__", "rule"), e, os.path.basename(tb.filename), tb.lineno))
            return None

    def instance(self, rule, construct, where, ok=True, note=""):
        self.instances.append({"rule": rule, "construct": construct, "where": unscale(where), "verdict": "ok" if ok else "VIOLATED", "note": note})
        self.obligations += 1
        if ok:
            self.discharged += 1

    def count(self, name, n=1):
        self.counts[name] = self.counts.get(name, 0) + n

    def violation(self, rule, construct, where, message, key, detail=None):
        f = Finding(self.prop, rule, construct, where, message, key, detail)
        if any(g.ident() == f.ident() for g in self.findings):
            return
        self.findings.append(f)

    def sample(self, s):
        if len(self.samples) < 12:
            self.samples.append(s)

    def floor(self, rule, got, want):
        """a rule that matches fewer instances than were confirmed by hand cannot pass vacuously"""
        if got < want:
            raise AnalysisError("%s: rule %s matched %d instances, frozen floor is %d (anchor vanished or unreadable)" % (self.prop, rule, got, want))


def load_known():
    p = os.path.join(VERIF, "known_findings.json")
    if not os.path.exists(p):
        return {"open": [], "fixed": []}
    with open(p) as f:
        return json.load(f)


def finish(rep, model, quiet=False):
    """print verdict lines, write evidence + replays, return exit code"""
    known = load_known()
    open_keys = {}
    for k in known.get("open", []):
        open_keys[(k["property"], k["rule"], k["construct"], k["key"])] = k
    viol, kf = [], []
    for f in rep.findings:
        k = open_keys.get(f.ident())
        if k is not None:
            kf.append((f, k))
        else:
            viol.append(f)
    evdir = os.path.join(VERIF, "evidence")
    os.makedirs(os.path.join(evdir, "replays"), exist_ok=True)
    out = []
    for f, k in kf:
        out.append("KNOWN-FINDING: property=%s %s %s at %s: %s" % (f.prop, f.rule, f.construct, f.where, f.message))
    for i, f in enumerate(viol):
        rp = os.path.join(evdir, "replays", "%s-%d.json" % (rep.prop, i))
        with open(rp, "w") as fh:
            json.dump(f.as_dict(), fh, indent=1, default=str)
        out.append("%s: rule %s, %s: %s" % (f.where, f.rule, f.construct, f.message))
        out.append("VIOLATION property=%s replay=%s" % (rep.prop, rp))
    wall = time.time() - rep.t0
    cov = {
        "explanation": rep.explanation,
        "files": model.digest if model is not None else {},
        "canonical_form": (getattr(model, "canon_notes", None) or ["tree matches the inventory: analysed as written"]) if model is not None else [],
        "rule_instances": len(rep.instances),
        "obligations": rep.obligations,
        "discharged": rep.discharged,
        "counts": rep.counts,
        "instances": rep.instances[:400],
        "samples": rep.samples or ["(no sample recorded)"],
        "known_findings_printed": [f.as_dict() for f, _ in kf],
        "violations_reported": [f.as_dict() for f in viol],
        "checker_cmd": "/verif/check %s --tier %s" % (rep.prop, rep.tier),
        "trusted_base": ["CPython ast", "sa/terms.py (rational-function normal forms over fractions.Fraction)", "sa/guards.py", "sa/summ.py",
                         "spec tables in sa/spec_laws.py and the per-rule tables"],
        "notes": rep.notes,
    }
    cov.update(rep.extra)
    ev = {"property_id": rep.prop, "tier": rep.tier, "seed": int(os.environ.get("VERIF_SEED", "0") or 0), "level": rep.level,
          "coverage": cov, "assumptions": rep.assumptions, "wall_s": round(wall, 3), "violations": len(viol)}
    with open(os.path.join(evdir, rep.prop + ".json"), "w") as fh:
        json.dump(ev, fh, indent=1, default=str)
    cov["analysis_errors"] = rep.errors
    with open(os.path.join(evdir, rep.prop + ".json"), "w") as fh:
        json.dump(ev, fh, indent=1, default=str)
    for e in rep.errors:
        out.append("ANALYSIS-ERROR property=%s %s" % (rep.prop, e))
    if not quiet:
        try:
            print("%s [%s]: %d rule instances, %d/%d obligations discharged, %d known finding(s), %d violation(s), %.2fs"
                  % (rep.prop, rep.tier, len(rep.instances), rep.discharged, rep.obligations, len(kf), len(viol), wall))
            for line in out:
                print(line)
            sys.stdout.flush()
        except BrokenPipeError:
            # the reader went away (e.g. `| head -1`); the verdict is the exit code and the evidence file
            try:
                sys.stdout = open(os.devnull, "w")
            except OSError:
                pass
    return 1 if viol else (2 if rep.errors else 0)
