"""E3 - path summaries of the edit / analysis methods of System with loops abstracted to one symbolic iteration,
guard decisions interleaved with the effect events, and effect classification."""
import ast
from .core import AnalysisError
from .terms import RF, lift, Unsupported
from .guards import Ctx, A, Not, And, Or, atoms_of, ev, literals, show_f
from .summ import Summarizer, State, Sym, ListV, DictV, BoolV, vkey, show_value
from .sysrules import SysHooks, registry_of, is_name, MUTATORS

GRAPH_CALLS = {"add_node", "add_child", "add_edge", "remove_node", "remove_edge", "add_parent", "remove_node_retain_edges"}


def quantifier_value(sm, node, fname, st):
    """any(C(x) for x in X) / all(..): the condition on one symbolic element of X, as the loop form is read"""
    # any(C(x) for x in X) / all(..): the condition on one symbolic element of X, as the loop form is read
    if fname in ("any", "all") and len(node.args) == 1 and isinstance(node.args[0], (ast.GeneratorExp, ast.ListComp)) and len(node.args[0].generators) == 1 \
            and not isinstance(node.args[0].generators[0].iter, (ast.Tuple, ast.List)):
        g = node.args[0].generators[0]
        X = g.iter
        vals = isinstance(X, ast.Call) and isinstance(X.func, ast.Attribute) and X.func.attr in ("values", "keys", "items") and not X.args
        d = sm.expr(X.func.value, st) if vals else sm.expr(X, st)
        el = Sym(("elem", vkey(d)))
        s2 = st.fork()
        ok = True
        if vals and X.func.attr == "values" and isinstance(g.target, ast.Name):
            s2.env[g.target.id] = Sym(("sub", d, el))
        elif vals and X.func.attr == "items" and isinstance(g.target, ast.Tuple) and len(g.target.elts) == 2 and all(isinstance(e, ast.Name) for e in g.target.elts):
            s2.env[g.target.elts[0].id] = el
            s2.env[g.target.elts[1].id] = Sym(("sub", d, el))
        elif isinstance(g.target, ast.Name):
            s2.env[g.target.id] = el
        else:
            ok = False
        if ok:
            c = sm.cond(node.args[0].elt, s2)
            flt = [sm.cond(x, s2) for x in g.ifs]
            if fname == "any":
                # "some element satisfies C" is its own atom: it must not be confused with all(..) - only all(..) (and the
                # loop form `for x: if not C(x): raise`) read as the condition on the one symbolic element
                return BoolV(A(("ANY", show_f(And(*(flt + [c]))), vkey(d))))
            return BoolV(Or(*([Not(x) for x in flt] + [c])))
    return None


class EditHooks(SysHooks):
    """SysHooks + inlining of the private helpers + loop abstraction + effect events"""

    def __init__(self, model, roles_, inline_names):
        super().__init__(model, roles_, inline_names)

    def inline(self, fname):
        """the named validation helpers, and any private method that itself modifies the graph or a registry (a helper
        extracted from an edit method must be read as part of it)"""
        r = super().inline(fname)
        if r is not None:
            return r
        if fname.startswith("self._") and fname[5:].isidentifier():
            m = self.model.own_method("System", fname[5:])
            if m is not None and self.effectful(m):
                return m, True
        return None

    def effectful(self, fn):
        cache = self.model.__dict__.setdefault("_effectful", {})
        if fn.name not in cache:
            hit = False
            for x in ast.walk(fn):
                tg = x.targets if isinstance(x, (ast.Assign, ast.Delete)) else ([x.target] if isinstance(x, ast.AugAssign) else [])
                for t in tg:
                    for tt in (t.elts if isinstance(t, (ast.List, ast.Tuple)) else [t]):
                        b = tt
                        while isinstance(b, ast.Subscript):
                            if registry_of(b) is not None:
                                hit = True
                            b = b.value
                if isinstance(x, ast.Call) and isinstance(x.func, ast.Attribute) and x.func.attr in GRAPH_CALLS and isinstance(x.func.value, ast.Attribute) and x.func.value.attr == "_g":
                    hit = True
            cache[fn.name] = hit
        return cache[fn.name]

    def contains(self, a, b):
        # x in D.keys()  ==  x in D
        if isinstance(b, Sym) and isinstance(b.key, tuple) and b.key and b.key[0] == "mcall" and b.key[2] == "keys" and not b.key[3]:
            return A(("IN", vkey(a), b.key[1]))
        if isinstance(b, Sym) and isinstance(b.key, tuple) and b.key and b.key[0] == "call" and b.key[1] == "list" and len(b.key[2]) == 1:
            return self.contains(a, b.key[2][0]) or A(("IN", vkey(a), b.key[2][0]))
        return None

    CLASS_TYPE = {"Source": "SOURCE", "PMux": "PMUX", "Converter": "CONVERTER", "LinReg": "LINREG", "PSwitch": "PSWITCH", "Rectifier": "RECTIFIER"}

    def equal(self, a, b):
        """TYPE(x) == T in its spellings: x._component_type == _ComponentTypes.T ; x._component_type.name == "T" """
        for x, y in ((a, b), (b, a)):
            if isinstance(x, Sym) and x.key[0] == "attr" and x.key[2] == "_component_type" and isinstance(y, Sym) \
                    and y.key[0] == "attr" and y.key[1] == Sym(("name", "_ComponentTypes")):
                return A(("TYPE", x.key[1], y.key[2]))
            if isinstance(x, Sym) and x.key[0] == "attr" and x.key[2] == "name" and isinstance(x.key[1], Sym) and x.key[1].key[0] == "attr" \
                    and x.key[1].key[2] == "_component_type" and isinstance(y, str):
                return A(("TYPE", x.key[1].key[1], y))
        return None

    def comprehension(self, sm, n, st):
        # [f(k, v) for k, v in D.items() if c(k, v)]  reads like  [f(k, D[k]) for k in D if c(k, D[k])]
        if isinstance(n, (ast.ListComp, ast.GeneratorExp)) and len(n.generators) == 1 and isinstance(n.generators[0].target, ast.Tuple) \
                and len(n.generators[0].target.elts) == 2 and all(isinstance(e, ast.Name) for e in n.generators[0].target.elts) \
                and isinstance(n.generators[0].iter, ast.Call) and isinstance(n.generators[0].iter.func, ast.Attribute) \
                and n.generators[0].iter.func.attr == "items" and not n.generators[0].iter.args:
            g = n.generators[0]
            d = sm.expr(g.iter.func.value, st)
            s2 = st.fork()
            s2.env[g.target.elts[0].id] = Sym(("bound",))
            s2.env[g.target.elts[1].id] = Sym(("sub", d, Sym(("bound",))))
            elt = sm.expr(n.elt, s2)
            conds = tuple(sm.cond(c, s2) for c in g.ifs)
            if conds:
                return Sym(("listcomp", vkey(elt), vkey(d), conds))
            return Sym(("listcomp", vkey(elt), vkey(d)))
        if isinstance(n, (ast.ListComp, ast.GeneratorExp)) and len(n.generators) == 1 and isinstance(n.generators[0].target, ast.Name):
            g = n.generators[0]
            it = sm.expr(g.iter, st)
            # over a short concrete list the comprehension is evaluated element by element
            if isinstance(it, ListV) and len(it.items) <= 4 and not g.ifs:
                out = []
                for item in it.items:
                    s3 = st.fork()
                    s3.env[g.target.id] = item
                    out.append(sm.expr(n.elt, s3))
                return ListV(out)
            s2 = st.fork()
            s2.env[g.target.id] = Sym(("bound",))
            elt = sm.expr(n.elt, s2)
            conds = tuple(sm.cond(c, s2) for c in g.ifs)
            if conds:
                return Sym(("listcomp", vkey(elt), vkey(it), conds))
            return Sym(("listcomp", vkey(elt), vkey(it)))
        return None

    def call(self, sm, node, fname, args, kwargs, st):
        f = node.func
        # graph mutators: self._g.add_child(...)
        if isinstance(f, ast.Attribute) and isinstance(f.value, ast.Attribute) and f.value.attr == "_g" and is_name(f.value.value, "self") and f.attr in GRAPH_CALLS:
            st.events.append(("effect", "GRAPH", f.attr, tuple(vkey(a) for a in args), node.lineno))
            return Sym(("graph", f.attr, tuple(vkey(a) for a in args), node.lineno))
        q = quantifier_value(sm, node, fname, st)
        if q is not None:
            return q
        if fname in ("warn", "warnings.warn"):
            st.events.append(("warn", node.lineno))
            return None if False else Sym(("warn",))
        if fname == "isinstance" and len(args) == 2:
            if isinstance(args[1], Sym) and args[1].key[0] == "name" and args[1].key[1] in self.CLASS_TYPE:
                return BoolV(A(("TYPE", vkey(args[0]), self.CLASS_TYPE[args[1].key[1]])))
            return BoolV(A(("ISA", vkey(args[0]), vkey(args[1]))))
        if fname == "ELEM" and len(args) == 1:
            return Sym(("elem", vkey(args[0])))
        if fname == "len" and len(args) == 1 and isinstance(args[0], Sym):
            return RF.atom(("nn", Sym(("len", vkey(args[0])))))
        if fname == "set" and len(args) == 1:
            return Sym(("set", vkey(args[0])))
        return super().call(sm, node, fname, args, kwargs, st)

    def loop(self, sm, node, st):
        # for x in (A if c else B): the two cases are separate paths
        if isinstance(node, ast.For) and isinstance(node.iter, ast.IfExp):
            outs = []
            f = sm.cond(node.iter.test, st)
            for pick, val in ((f, node.iter.body), (Not(f), node.iter.orelse)):
                if pick is False:
                    continue
                s_b = st.fork()
                if pick is not True:
                    s_b.guards = list(s_b.guards) + [pick]
                    s_b.events.append(("guard", pick, node.lineno))
                tmp = "__it%d" % node.lineno
                s_b.env[tmp] = sm.expr(val, s_b)
                syn = ast.copy_location(ast.For(target=node.target, iter=ast.copy_location(ast.Name(id=tmp, ctx=ast.Load()), node.iter), body=node.body, orelse=[]), node)
                r = self.loop(sm, syn, s_b)
                if r is None:
                    return None
                outs += r
            return outs
        # an index scan `r = d; for i in range(len(X)): if C(i): r = i; break` (and its equivalent spellings) leaves
        # r = FIRST(i in X with C(i), else d); the mirror forms leave LAST(..)
        if isinstance(node, ast.For):
            from .idioms import scan_form
            sf = scan_form(node)
            if sf is not None and sf[5] is not None and sf[5] in st.env:
                form, lp, over, var, test, res = sf
                s2 = st.fork()
                s2.env[var] = Sym(("bound",))
                try:
                    cf = sm.cond(test, s2)
                    ov = sm.expr(over, st)
                except Unsupported:
                    cf = None
                # the index domain of [f(x) for x in it] is the index domain of it
                while isinstance(ov, Sym) and isinstance(ov.key, tuple) and len(ov.key) == 3 and ov.key[0] == "listcomp":
                    ov = ov.key[2]
                if cf is not None:
                    st.env[res] = Sym(("FIRST" if not form.endswith("-last") else "LAST", show_f(cf), vkey(ov), vkey(st.env[res])))
                    return [(st, None)]
        # a loop over a short literal tuple / list is unrolled: for x in (a, b): body  ->  body[x:=a]; body[x:=b]
        unroll = None
        if isinstance(node, ast.For) and not node.orelse and isinstance(node.iter, (ast.Tuple, ast.List)) and 1 <= len(node.iter.elts) <= 4 \
                and not any(isinstance(e, ast.Starred) for e in node.iter.elts):
            unroll = list(node.iter.elts)
        elif isinstance(node, ast.For) and not node.orelse and isinstance(node.iter, ast.Name):
            # the same when the literal is bound to a local first: entries = ((..), (..)); for a, b in entries
            v0 = st.env.get(node.iter.id)
            items = list(v0) if isinstance(v0, tuple) else (list(v0.items) if isinstance(v0, ListV) else None)
            if items is not None and 1 <= len(items) <= 4 and not any(isinstance(x, ast.AST) for x in items):
                unroll = items
        if unroll is not None:
            live, done = [st], []
            for elt in unroll:
                nxt = []
                for s in live:
                    sm.assign(node.target, sm.expr(elt, s) if isinstance(elt, ast.AST) else elt, s, node.lineno)
                    for s2, status in sm.block(node.body, s):
                        if status is None or status[0] == "continue":
                            nxt.append(s2)
                        elif status[0] == "break":
                            done.append((s2, None))
                        else:
                            done.append((s2, status))
                live = nxt
            return [(s, None) for s in live] + done
        if isinstance(node, ast.For) and not node.orelse:
            it = sm.expr(node.iter, st)
            pair = None
            # for k in D.keys()  ==  for k in D ;  for k, v in D.items()  ==  for k in D with v = D[k]
            vals_of = None
            if isinstance(node.iter, ast.Call) and isinstance(node.iter.func, ast.Name) and node.iter.func.id == "zip" and len(node.iter.args) == 2 \
                    and isinstance(node.target, ast.Tuple) and len(node.target.elts) == 2 and all(isinstance(e, ast.Name) for e in node.target.elts):
                A_, B_ = sm.expr(node.iter.args[0], st), sm.expr(node.iter.args[1], st)
                if isinstance(A_, ListV) and isinstance(B_, ListV) and len(A_.items) == len(B_.items) <= 4:
                    live, done = [st], []
                    for xa, xb in zip(A_.items, B_.items):
                        nxt = []
                        for s in live:
                            s.env[node.target.elts[0].id] = xa
                            s.env[node.target.elts[1].id] = xb
                            for s2, status in sm.block(node.body, s):
                                if status is None or status[0] == "continue":
                                    nxt.append(s2)
                                elif status[0] == "break":
                                    done.append((s2, None))
                                else:
                                    done.append((s2, status))
                        live = nxt
                    return [(s, None) for s in live] + done
                ea = Sym(("elem", vkey(A_)))
                if isinstance(B_, Sym) and isinstance(B_.key, tuple) and B_.key and B_.key[0] == "listcomp" and len(B_.key) == 3 and vkey(B_.key[2]) == vkey(A_):
                    from .summ import replace_bound
                    eb = replace_bound(B_.key[1], ea)
                else:
                    eb = Sym(("zipelem", vkey(B_), vkey(A_)))
                st.events.append(("loop", vkey(A_), node.lineno))
                s0 = st.fork()
                s0.env[node.target.elts[0].id] = ea
                s0.env[node.target.elts[1].id] = eb
                outs = []
                for s2, status in sm.block(node.body, s0):
                    if status is None or status[0] in ("continue", "break"):
                        s2.events.append(("endloop", node.lineno))
                        outs.append((s2, None))
                    else:
                        outs.append((s2, status))
                return outs
            if isinstance(node.iter, ast.Call) and isinstance(node.iter.func, ast.Attribute) and not node.iter.args and node.iter.func.attr == "values" \
                    and isinstance(node.target, ast.Name):
                # for x in D.values()  ==  for k in D with x = D[k]
                vals_of = sm.expr(node.iter.func.value, st)
                it = vals_of
            if isinstance(node.iter, ast.Call) and isinstance(node.iter.func, ast.Attribute) and not node.iter.args and node.iter.func.attr in ("keys", "items"):
                d = sm.expr(node.iter.func.value, st)
                if node.iter.func.attr == "keys":
                    it = d
                elif False:
                    pass
                elif isinstance(node.target, ast.Tuple) and len(node.target.elts) == 2 and all(isinstance(e, ast.Name) for e in node.target.elts):
                    it = d
                    pair = (node.target.elts[0].id, node.target.elts[1].id)
            from .summ import strip_keyview
            it = strip_keyview(it)
            from .summ import DictV
            if isinstance(it, (ListV, DictV)) and not it.items and pair is None and vals_of is None:
                # a loop over a collection known to be empty does nothing
                return [(st, None)]
            if isinstance(it, DictV) and pair is None and vals_of is None:
                # iterating a dictionary sees its keys only
                it = DictV([(k, None) for k, _ in it.items])
            if isinstance(it, ListV) and len(it.items) == 1:
                elem = it.items[0]
            else:
                elem = Sym(("elem", vkey(it)))
            st.events.append(("loop", vkey(it), node.lineno))
            s0 = st.fork()
            # an arbitrary iteration: lists grown in the body have an unknown prefix
            for a in ast.walk(node):
                if isinstance(a, ast.AugAssign) and isinstance(a.target, ast.Name) and isinstance(a.op, ast.Add) and isinstance(a.value, ast.List) \
                        and isinstance(s0.env.get(a.target.id), ListV):
                    s0.env[a.target.id] = Sym(("prefix", a.target.id, vkey(s0.env[a.target.id])))
                if isinstance(a, ast.Call) and isinstance(a.func, ast.Attribute) and a.func.attr == "append" and isinstance(a.func.value, ast.Name) \
                        and isinstance(s0.env.get(a.func.value.id), ListV):
                    s0.env[a.func.value.id] = Sym(("prefix", a.func.value.id, vkey(s0.env[a.func.value.id])))
            if pair is not None:
                s0.env[pair[0]] = elem
                s0.env[pair[1]] = Sym(("sub", it, elem))
            elif vals_of is not None:
                s0.env[node.target.id] = Sym(("sub", it, elem))
            else:
                sm.assign(node.target, elem, s0, node.lineno)
            outs = []
            tnames = [y.id for y in ast.walk(node.target) if isinstance(y, ast.Name)]
            for s2, status in sm.block(node.body, s0):
                if status is None or status[0] in ("continue", "break"):
                    s2.events.append(("endloop", node.lineno))
                    # after the loop its variable holds the *last* element (or the one it broke at), not the arbitrary one of the body
                    if status is None or status[0] == "continue":
                        for tn in tnames:
                            if tn in s2.env:
                                s2.env[tn] = Sym(("last", vkey(s2.env[tn])))
                    outs.append((s2, None))
                else:
                    outs.append((s2, status))
            return outs
        return None


def classify_store(key):
    """('sub'|'attr', base, idx) target of a store event -> effect class or None (local)"""
    def reg_of(v):
        # self._g.attrs["r"]
        if isinstance(v, Sym) and v.key[0] == "sub" and isinstance(v.key[2], str):
            b = v.key[1]
            if isinstance(b, Sym) and b.key[0] == "attr" and b.key[2] == "attrs":
                return v.key[2]
        return None
    kind = key[0]
    base = key[1]
    if kind == "sub":
        r = reg_of(base)
        if r is not None:
            return ("REG", r, key[2])
        # self._g[i] = comp
        if isinstance(base, Sym) and base.key == ("attr", Sym(("name", "self")), "_g"):
            return ("GRAPH", "setitem", key[2])
        # self._g.attrs["r"] = ...   (wholesale)
        if isinstance(base, Sym) and base.key[0] == "attr" and base.key[2] == "attrs" and isinstance(key[2], str):
            return ("REGALL", key[2], None)
        # <node>._params[k] = ...
        if isinstance(base, Sym) and base.key[0] == "attr" and base.key[2] in ("_params", "_limits"):
            return ("PARAM", show_value(base), key[2])
        # self.X[...] = ...
        if isinstance(base, Sym) and base.key[0] == "attr" and base.key[1] == Sym(("name", "self")):
            return ("SELF", base.key[2], key[2])
    if kind == "attr":
        if base == Sym(("name", "self")):
            return ("SELF", key[2], None)
        if isinstance(base, Sym):
            return ("ATTR", show_value(base), key[2])
    return None


def method_paths(model, roles_, mname, inline=(), cls="System", args=None):
    fn = model.own_method(cls, mname)
    if fn is None:
        raise AnalysisError("%s.%s not found" % (cls, mname))
    hooks = EditHooks(model, roles_, inline)
    sm = GuardedSummarizer(hooks, Ctx())
    a = fn.args
    env = {x.arg: Sym(("name", x.arg)) for x in a.posonlyargs + a.args + a.kwonlyargs}
    if args:
        env.update(args)
    try:
        leaves = sm.summarize(fn, env)
    except Unsupported as e:
        raise AnalysisError("%s.%s: %s" % (cls, mname, e))
    return fn, leaves


class GuardedSummarizer(Summarizer):
    """records every branch decision as an event, so that checks and effects are ordered on each path; `del` of a registry
    entry and stores become effect events"""

    def expr(self, n, st):
        v = super().expr(n, st)
        # a read of a registry entry is an event too: with an absent key it raises KeyError at that point of the path
        if isinstance(n, ast.Subscript) and isinstance(n.ctx, ast.Load) and registry_of(n.value) is not None \
                and not any(isinstance(c, ast.Call) for c in ast.walk(n.slice)):
            try:
                k = super().expr(n.slice, st)
            except Unsupported:
                k = None
            if k is not None:
                st.events.append(("load", registry_of(n.value), k, n.lineno))
        return v

    def stmt(self, n, st):
        if isinstance(n, ast.If):
            before = len(st.guards)
            outs = super().stmt(n, st)
            for s2, status in outs:
                if len(s2.guards) > before:
                    # insert the guard event at the position where the branch was taken: events are append-only, so
                    # we tag with the index of the first event added after the branch
                    pass
            return outs
        if isinstance(n, ast.Delete):
            for t in n.targets:
                tt = t.elts if isinstance(t, (ast.List, ast.Tuple)) else [t]
                for x in tt:
                    st.events.append(("del", self.target_key(x, st), n.lineno))
            return [(st, None)]
        return super().stmt(n, st)
