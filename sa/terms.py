"""E2a - term algebra: rational functions over opaque atoms, with sign x magnitude decomposition.

Canonical-form arithmetic only (no search, no solver):  a term is num/den, both polynomials with exact
Fraction coefficients over *atoms*; equality is cross-multiplication.  Atoms are hashable tuples whose first
element is a tag that also fixes the atom's kind:

  ('s', name)            sign atom, value in {-1,+1}; exponents reduced mod 2
  ('m', name)            magnitude of a signed scalar (>= 0; > 0 wherever np.sign() is taken, see below)
  ('nn', name)           non-negative scalar (currents, validated parameters)
  ('fr', name)           free scalar of unknown sign
  ('ABS', rf)            |rf| that could not be resolved            (non-negative)
  ('SGN', rf)            np.sign(rf) that could not be resolved     (-1, 0, 1)
  ('MIN', rfs) ('MAX', rfs)
  ('F', fname, args)     uninterpreted function application (IPR, EFF, calls); an atom is only equal to itself
  ('NNF', fname, args)   the same, known non-negative

np.sign() of a magnitude atom is taken to be +1: the zero case of every signed input is handled either by an
explicit Z(.) guard row or by the separate "zero mode" in which the literal 0 is substituted before evaluation.
"""
from fractions import Fraction
import zlib


class Unsupported(Exception):
    """The construct is outside what the engine reads -> ANALYSIS-ERROR, never a verdict."""


SIGN_TAGS = ("s",)
NN_TAGS = ("m", "nn", "ABS", "NNF")


def is_sign(a):
    return a[0] == "s"


def is_nn(a):
    if a[0] in NN_TAGS:
        return True
    if a[0] == "MAX":
        return any(x.is_nonneg() for x in a[1])
    if a[0] == "MIN":
        return all(x.is_nonneg() for x in a[1])
    return False


def _crc(s):
    return zlib.crc32(s.encode("utf8"))


_FP_CACHE = {}


def atom_fp(a):
    """fingerprint value of an atom (a fixed rational point; signs at +-1)"""
    v = _FP_CACHE.get(a)
    if v is None:
        h = _crc(repr(a))
        if is_sign(a):
            v = Fraction(1 if h & 1 else -1)
        else:
            v = Fraction(3 + h % 9973, 1 + (h >> 14) % 97)
        _FP_CACHE[a] = v
    return v


def _mono_mul(m1, m2):
    d = dict(m1)
    for a, e in m2:
        d[a] = d.get(a, 0) + e
    out = []
    for a, e in d.items():
        if is_sign(a):
            e &= 1
        if e:
            out.append((a, e))
    return frozenset(out)


ONE_M = frozenset()
_ONE_DEN = {ONE_M: Fraction(1)}   # shared, never mutated
_F0 = Fraction(0)


def _poly_add(p, q, k=1):
    r = dict(p)
    for m, c in q.items():
        c = r.get(m, _F0) + k * c
        if c:
            r[m] = c
        else:
            r.pop(m, None)
    return r


def _poly_mul(p, q):
    r = {}
    for m1, c1 in p.items():
        for m2, c2 in q.items():
            m = _mono_mul(m1, m2)
            c = r.get(m, _F0) + c1 * c2
            if c:
                r[m] = c
            else:
                r.pop(m, None)
    return r


def _poly_fp(p):
    t = Fraction(0)
    for m, c in p.items():
        v = c
        for a, e in m:
            v *= atom_fp(a) ** e
        t += v
    return t


def _mono_key(m):
    return tuple(sorted((repr(a), e) for a, e in m))


class RF:
    """rational function num/den"""

    __slots__ = ("num", "den", "_fp")

    def __init__(self, num, den=None):
        self.num = num
        self._fp = None
        if den is None or den == _ONE_DEN:
            self.den = _ONE_DEN
            return
        self.den = den
        self._norm()
        if self.den == _ONE_DEN:
            self.den = _ONE_DEN

    # ---- construction helpers
    @staticmethod
    def const(c):
        c = Fraction(c)
        return RF({ONE_M: c} if c else {})

    @staticmethod
    def atom(a):
        return RF({frozenset([(a, 1)]): Fraction(1)})

    def _norm(self):
        if not self.den:
            raise Unsupported("division by a term that is identically zero")
        if not self.num:
            self.den = _ONE_DEN
            return
        if len(self.den) == 1:
            (m, c), = self.den.items()
            if c != 1:
                self.num = {k: v / c for k, v in self.num.items()}
            # 1/s == s for sign atoms; cancel the other atoms of the monomial where every num term has them
            smono = frozenset((a, e) for a, e in m if is_sign(a))
            rest = {a: e for a, e in m if not is_sign(a)}
            if smono:
                self.num = _poly_mul(self.num, {smono: Fraction(1)})
            for a in list(rest):
                k = min((dict(mm).get(a, 0) for mm in self.num), default=0)
                k = min(k, rest[a])
                if k:
                    self.num = {frozenset((x, (e - k if x == a else e)) for x, e in mm if not (x == a and e == k)): v
                                for mm, v in self.num.items()}
                    rest[a] -= k
                    if not rest[a]:
                        del rest[a]
            self.den = {frozenset(rest.items()): Fraction(1)}

    # ---- predicates
    def is_zero(self):
        return not self.num

    def is_const(self):
        return self.den == {ONE_M: 1} and (not self.num or list(self.num) == [ONE_M])

    def const_value(self):
        return self.num.get(ONE_M, Fraction(0)) if self.is_const() else None

    def is_poly(self):
        return self.den == {ONE_M: 1}

    def atoms(self):
        s = set()
        for p in (self.num, self.den):
            for m in p:
                for a, _ in m:
                    s.add(a)
        return s

    def single_term(self):
        """(coef, mono) if num is one term and den is 1, else None"""
        if self.is_poly() and len(self.num) == 1:
            (m, c), = self.num.items()
            return c, m
        return None

    def is_nonneg(self):
        """syntactic: every num and den term is a positive coefficient times non-negative atoms / even powers"""
        for p in (self.num, self.den):
            for m, c in p.items():
                if c < 0:
                    return False
                for a, e in m:
                    if not is_nn(a) and e % 2:
                        return False
        return True

    # ---- arithmetic
    def __add__(self, o):
        o = lift(o)
        if self.den is _ONE_DEN and o.den is _ONE_DEN:
            r = RF.__new__(RF)
            r.num, r.den, r._fp = _poly_add(self.num, o.num), _ONE_DEN, None
            return r
        if self.den == o.den:
            return RF(_poly_add(self.num, o.num), dict(self.den))
        return RF(_poly_add(_poly_mul(self.num, o.den), _poly_mul(o.num, self.den)), _poly_mul(self.den, o.den))

    __radd__ = __add__

    def __neg__(self):
        return RF({m: -c for m, c in self.num.items()}, self.den if self.den is _ONE_DEN else dict(self.den))

    def __sub__(self, o):
        return self + (-lift(o))

    def __rsub__(self, o):
        return lift(o) - self

    def __mul__(self, o):
        o = lift(o)
        if self.den is _ONE_DEN and o.den is _ONE_DEN:
            r = RF.__new__(RF)
            r.num, r.den, r._fp = _poly_mul(self.num, o.num), _ONE_DEN, None
            return r
        return RF(_poly_mul(self.num, o.num), _poly_mul(self.den, o.den))

    __rmul__ = __mul__

    def __truediv__(self, o):
        o = lift(o)
        if o.is_zero():
            raise Unsupported("division by zero term")
        return RF(_poly_mul(self.num, o.den), _poly_mul(self.den, o.num))

    def __rtruediv__(self, o):
        return lift(o) / self

    def __pow__(self, n):
        n = lift(n).const_value() if not isinstance(n, int) else Fraction(n)
        if n is None or n.denominator != 1 or n < 0:
            raise Unsupported("non-constant or negative exponent")
        r = RF.const(1)
        for _ in range(int(n)):
            r = r * self
        return r

    # ---- equality / hashing (fingerprint consistent with cross-multiplication)
    def __eq__(self, o):
        if not isinstance(o, RF):
            try:
                o = lift(o)
            except Exception:
                return NotImplemented
        if self is o:
            return True
        if self.fp() != o.fp():
            return False  # equal functions have equal fingerprints
        if self.den == o.den:
            return self.num == o.num
        return _poly_add(_poly_mul(self.num, o.den), _poly_mul(o.num, self.den), -1) == {}

    def __ne__(self, o):
        r = self.__eq__(o)
        return r if r is NotImplemented else not r

    def fp(self):
        if self._fp is None:
            d = _poly_fp(self.den)
            self._fp = (_poly_fp(self.num) / d) if d else Fraction(10 ** 9 + 7)
        return self._fp

    def __hash__(self):
        return hash(self.fp())

    def __repr__(self):
        f = self.fp()
        return "<%d/%d>" % (f.numerator, f.denominator)

    # ---- substitution
    def subst(self, mp, ctx=None):
        """replace atoms by terms; compound atoms are rebuilt (and re-simplified) from substituted payloads"""

        def poly(p):
            tot = RF.const(0)
            for m, c in p.items():
                t = RF.const(c)
                for a, e in m:
                    t = t * (subst_atom(a, mp, ctx) ** e)
                tot = tot + t
            return tot

        if not mp and ctx is None:
            return self
        ats = self.atoms()
        if not any(a in mp for a in ats) and not any(a[0] in ("ABS", "SGN", "MIN", "MAX", "F", "NNF") for a in ats):
            return self
        return poly(self.num) / poly(self.den)


def lift(x):
    if isinstance(x, RF):
        return x
    if isinstance(x, bool):
        return RF.const(int(x))
    if isinstance(x, (int, Fraction)):
        return RF.const(x)
    if isinstance(x, float):
        return RF.const(Fraction(repr(x)))
    raise Unsupported("cannot use %r as a number" % (x,))


def subst_atom(a, mp, ctx=None):
    if a in mp:
        return lift(mp[a])
    tag = a[0]
    if tag == "ABS":
        return abs_(a[1].subst(mp, ctx), ctx)
    if tag == "SGN":
        return sign_(a[1].subst(mp, ctx), ctx)
    if tag in ("MIN", "MAX"):
        return minmax(tag, [x.subst(mp, ctx) for x in a[1]])
    if tag in ("F", "NNF"):
        return RF.atom((tag, a[1], tuple(subst_val(x, mp, ctx) for x in a[2])))
    return RF.atom(a)


def subst_val(x, mp, ctx=None):
    if isinstance(x, RF):
        return x.subst(mp, ctx)
    if isinstance(x, tuple):
        return tuple(subst_val(y, mp, ctx) for y in x)
    return x


# ------------------------------------------------------------------ abs / sign / min / max
def _split(p):
    """poly -> (content coefficient c, monomial gcd M, residual R) with p = c*M*R and R's leading coef = +1-ish.
    The leading term is chosen by a deterministic order on monomials; c carries its sign."""
    monos = list(p)
    common = None
    for m in monos:
        d = dict(m)
        common = d if common is None else {a: min(e, d[a]) for a, e in common.items() if a in d}
    # sign atoms: common only if in every term
    M = frozenset((a, e) for a, e in (common or {}).items() if e)
    Minv = {a: e for a, e in M}
    R = {}
    for m, c in p.items():
        d = dict(m)
        for a, e in Minv.items():
            if is_sign(a):
                d.pop(a)
            else:
                d[a] -= e
                if not d[a]:
                    del d[a]
        R[frozenset(d.items())] = c
    lead = max(R, key=_mono_key)
    c = R[lead]
    R = {m: v / c for m, v in R.items()}
    return c, M, R


def _abs_mono(c, M):
    t = RF.const(abs(c))
    for a, e in M:
        if is_sign(a):
            continue
        if is_nn(a) or e % 2 == 0:
            t = t * (RF.atom(a) ** e)
        else:
            t = t * RF.atom(("ABS", RF.atom(a))) * (RF.atom(a) ** (e - 1))
    return t


def _sign_mono(c, M):
    t = RF.const(1 if c > 0 else -1)
    for a, e in M:
        if is_sign(a):
            t = t * RF.atom(a)
        elif is_nn(a) or e % 2 == 0:
            continue  # taken positive (module docstring)
        else:
            t = t * RF.atom(("SGN", RF.atom(a)))
    return t


def _abs_poly(p, ctx):
    if not p:
        return RF.const(0)
    c, M, R = _split(p)
    r = RF(R)
    if len(R) == 1:
        return _abs_mono(c, M)
    if r.is_nonneg():
        return _abs_mono(c, M) * r
    if (-r).is_nonneg():
        return _abs_mono(c, M) * (-r)
    if ctx is not None:
        s = ctx.sign_of(r)
        if s is not None:
            return _abs_mono(c, M) * r * s
    return _abs_mono(c, M) * RF.atom(("ABS", r))


def abs_(t, ctx=None):
    t = lift(t)
    return _abs_poly(t.num, ctx) / _abs_poly(t.den, ctx)


def _sign_poly(p, ctx):
    if not p:
        return RF.const(0)
    c, M, R = _split(p)
    r = RF(R)
    if len(R) == 1 or r.is_nonneg():
        return _sign_mono(c, M)
    if (-r).is_nonneg():
        return -_sign_mono(c, M)
    if ctx is not None:
        s = ctx.sign_of(r)
        if s is not None:
            return _sign_mono(c, M) * s
    return _sign_mono(c, M) * RF.atom(("SGN", r))


def sign_(t, ctx=None):
    t = lift(t)
    if t.is_zero():
        return RF.const(0)
    return _sign_poly(t.num, ctx) * _sign_poly(t.den, ctx)


def minmax(tag, args):
    args = [lift(a) for a in args]
    flat = []
    for a in args:
        st = a.single_term()
        if st and st[0] == 1 and len(st[1]) == 1:
            (at, e), = st[1]
            if e == 1 and at[0] == tag:
                flat.extend(at[1])
                continue
        flat.append(a)
    uniq = []
    for a in flat:
        if not any(a == b for b in uniq):
            uniq.append(a)
    if all(a.is_const() for a in uniq):
        vals = [a.const_value() for a in uniq]
        return RF.const(min(vals) if tag == "MIN" else max(vals))
    if len(uniq) == 1:
        return uniq[0]
    uniq.sort(key=repr)
    return RF.atom((tag, tuple(uniq)))


# ------------------------------------------------------------------ pretty printing
def show_atom(a):
    tag = a[0]
    if tag == "s":
        return "sgn(%s)" % a[1]
    if tag == "m":
        return "|%s|" % a[1]
    if tag in ("nn", "fr"):
        if not isinstance(a[1], str):
            from .summ import show_value
            return show_value(a[1])
        return str(a[1])
    if tag == "ABS":
        return "|%s|" % show(a[1])
    if tag == "SGN":
        return "sign(%s)" % show(a[1])
    if tag in ("MIN", "MAX"):
        return "%s(%s)" % (tag.lower(), ", ".join(show(x) for x in a[1]))
    if tag in ("F", "NNF"):
        return "%s(%s)" % (a[1], ", ".join(show(x) for x in a[2]))
    return repr(a)


def _show_poly(p):
    if not p:
        return "0"
    parts = []
    for m in sorted(p, key=lambda m: (len(m), _show_mono(m))):
        c = p[m]
        ms = _show_mono(m)
        cs = str(c) if c.denominator == 1 else "(%s)" % c
        if ms == "":
            parts.append(cs)
        elif c == 1:
            parts.append(ms)
        elif c == -1:
            parts.append("-" + ms)
        else:
            parts.append(cs + "*" + ms)
    s = " + ".join(parts).replace("+ -", "- ")
    return s


def _show_mono(m):
    return "*".join(sorted((show_atom(a) + ("^%d" % e if e != 1 else "")) for a, e in m))


def show(v):
    if isinstance(v, RF):
        n = _show_poly(v.num)
        if v.is_poly():
            return n
        d = _show_poly(v.den)
        return "(%s)/(%s)" % (n, d)
    if isinstance(v, tuple):
        return "(" + ", ".join(show(x) for x in v) + ")"
    if isinstance(v, list):
        return "[" + ", ".join(show(x) for x in v) + "]"
    return str(v)
