"""Law layer: summaries of the 33 law methods (11 kinds x {I, V, P}) and of the reference laws, and their
comparison by guard truth table."""
import ast
import itertools
import os
from .core import AnalysisError, KINDS, VERIF
from .terms import RF, lift, Unsupported, show, abs_
from .guards import Ctx, A, Not, And, Or, atoms_of, ev, facts_from, consistent, show_f, show_key, norm_pos
from .summ import (Summarizer, Sym, ListV, DictV, Vec, BoolV, WILD, DONTCARE, signed, nn, fr, vkey, show_value, to_num, Leaf)

METH = {"I": "_solv_inp_curr", "V": "_solv_outp_volt", "P": "_solv_pwr_loss"}
NN_PARAMS = {"rs", "rt", "iq", "iis", "pwr", "pwrs", "ii", "vdrop"}
SIGNED_PARAMS = {"vo"}
SYM_PARAMS = {"type", "name", "loss", "ig", "eff"}
LOADS = ("PLoad", "ILoad", "RLoad")


def ipr(x, y):
    return RF.atom(("NNF", "IPR", (lift(x), lift(y))))


class LawCtx(Ctx):
    """sign lemmas justified by constructor checks (rule C11 verifies those checks):
       Converter: 0 < IPR <= 1  hence 1 - IPR >= 0"""

    def __init__(self, kind=None, **kw):
        super().__init__(**kw)
        self.kind = kind

    def sign_of(self, r):
        s = super().sign_of(r)
        if s is not None:
            return s
        if self.kind == "Converter" and r.is_poly() and len(r.num) == 2:
            for sg in (1, -1):
                t = r * sg
                c = t.num.get(frozenset(), None)
                if c == 1:
                    rest = [(m, v) for m, v in t.num.items() if m]
                    (m, v), = rest
                    if v == -1 and len(m) == 1:
                        (a, e), = m
                        if e == 1 and a[0] == "NNF" and a[1] == "IPR":
                            return RF.const(sg)
        return None


class LawHooks:
    def __init__(self, model, kind, spec=False):
        self.model, self.kind, self.spec = model, kind, spec
        self.calls = []

    def name(self, id):
        if id == "STATE_OFF":
            return Sym(("STATE", "OFF"))
        if id == "STATE_DEFAULT":
            return Sym(("STATE", "DEF"))
        if id == "ANY":
            return WILD
        if id == "DONTCARE":
            return DONTCARE
        return None

    def attr(self, base, attr):
        if isinstance(base, Sym) and base.key == ("name", "self"):
            if attr == "_params":
                return Sym(("PARAMS",))
            if attr == "_ipr":
                return Sym(("IPROBJ",))
        return None

    def subscript(self, base, idx):
        if isinstance(base, Sym) and base.key == ("PARAMS",) and isinstance(idx, str):
            if idx in NN_PARAMS:
                return nn("P." + idx)
            if idx in SIGNED_PARAMS:
                return signed("P." + idx)
            return Sym(("P", idx))
        if isinstance(base, RF):
            st = base.single_term()
            if st and st[0] == 1 and len(st[1]) == 1:
                (a, e), = st[1]
                if e == 1 and a[0] == "nn" and isinstance(a[1], str) and a[1].startswith("P."):
                    return fr("%s[%s]" % (a[1], show_value(idx)))
        if isinstance(base, Sym) and base.key == ("name", "phase_conf"):
            return fr("PC[%s]" % show_value(idx))
        return None

    def truthy(self, v):
        if isinstance(v, Sym):
            if v.key == ("name", "phase_conf"):
                return A(("B", "PC"))
            if v.key == ("P", "loss"):
                return A(("B", "LOSS"))
        return None

    def contains(self, a, b):
        if isinstance(b, Sym) and b.key == ("name", "phase_conf") and isinstance(a, Sym) and a.key == ("name", "phase"):
            return A(("B", "IN"))
        return None

    def inline(self, fname):
        if fname == "_calc_inp_current":
            return self.model.func("components", fname), False
        if self.spec:
            return None
        # private helpers a law delegates to: module-level functions of components.py and methods of the kind's own class
        def simple(fn):
            return not any(isinstance(x, (ast.For, ast.While, ast.Try, ast.With)) for x in ast.walk(fn))
        if fname in ("_get_eff", "_get_lopt", "_get_opt", "_get_mand", "_get_warns"):
            return None          # modelled by the call hook / kept opaque on purpose
        if fname.isidentifier() and ("components", fname) in self.model.funcs:
            fn = self.model.funcs[("components", fname)]
            return (fn, False) if simple(fn) else None
        if fname.startswith("self.") and fname[5:].isidentifier() and fname[5:] not in METH.values() and fname[5:] not in ("_get_pri_inp", "_get_state"):
            try:
                owner, fn = self.model.method(self.kind, fname[5:])
            except AnalysisError:
                return None
            return (fn, True) if simple(fn) else None
        return None

    def call(self, sm, node, fname, args, kwargs, st):
        if fname == "_get_lopt" and len(args) == 4 and isinstance(args[0], Sym) and args[0].key == ("name", "pstate") \
                and args[1] == "off" and args[3] is False and isinstance(args[2], RF) and args[2].is_const():
            return BoolV(sm.ctx.fold(("B", "OFF", int(args[2].const_value()))))
        if fname == "self._ipr._interp" and len(args) == 2:
            st.events.append(("ipr", vkey(args[0]), vkey(args[1]), node.lineno))
            return ipr(to_num(args[0]), to_num(args[1]))
        if fname == "_get_eff" and len(args) in (2, 3):
            d = to_num(args[2]) if len(args) == 3 else lift(100)
            return RF.atom(("F", "EFF", (to_num(args[0]), to_num(args[1]), d)))
        if fname == "self._get_pri_inp" and len(args) == 2:
            st.events.append(("pri", vkey(args[0]), vkey(args[1]), node.lineno))
            return fr("PRI")
        if fname == "isinstance" and len(args) == 2 and isinstance(args[1], Sym) and args[1].key == ("name", "list"):
            return BoolV(A(("B", "LIST", show_value(args[0]))))
        if fname == "len" and len(args) == 1 and isinstance(args[0], Vec):
            return nn("len(%s)" % args[0].name)
        if fname == "len" and len(args) == 1 and isinstance(args[0], RF):
            return nn("len(%s)" % show(args[0]))
        return None


def law_args(which, zero):
    """initial environment of a law method; zero=True is the mode in which input 0 carries the literal 0 V"""
    env = {"self": Sym(("name", "self")), "phase": Sym(("name", "phase")), "phase_conf": Sym(("name", "phase_conf")),
           "pstate": Sym(("name", "pstate")), "io": nn("io"), "ii": nn("ii")}
    if which == "P":
        env["vi"] = signed("vi[0]", zero)
        env["vo"] = signed("vo")
        env["ta"] = fr("ta")
    else:
        env["vi"] = Vec("vi", zero_idx=(0,) if zero else ())
        env["vo"] = signed("vo")
    return env


def base_ctx(kind, zero):
    known = {}
    if not zero:
        known[("Z", ("m", "vi[0]"))] = False
    return LawCtx(kind=kind, known=known)


_SPEC_TREE = None


def spec_func(kind, which):
    global _SPEC_TREE
    if _SPEC_TREE is None:
        p = os.path.join(VERIF, "sa", "spec_laws.py")
        with open(p) as f:
            t = ast.parse(f.read())
        fn = {}
        for n in t.body:
            if isinstance(n, ast.FunctionDef):
                fn[n.name] = n
        for n in t.body:
            if isinstance(n, ast.Assign) and isinstance(n.value, ast.Name):
                fn[n.targets[0].id] = fn[n.value.id]
        _SPEC_TREE = fn
    name = "%s__%s" % (kind, which)
    if name not in _SPEC_TREE and kind in LOADS:
        name = "Load__%s" % which
    if name not in _SPEC_TREE:
        raise AnalysisError("no reference law %s" % name)
    return _SPEC_TREE[name]


def summarize_law(model, kind, which, zero, spec=False, args_override=None, guards=()):
    hooks = LawHooks(model, kind, spec)
    ctx = base_ctx(kind, zero)
    sm = Summarizer(hooks, ctx)
    if spec:
        fn = spec_func(kind, which)
        owner = "spec"
    else:
        owner, fn = model.method(kind, METH[which])
    args = law_args(which, zero)
    if args_override:
        args.update(args_override)
    try:
        leaves = sm.summarize(fn, args, guards=guards)
    except Unsupported as e:
        raise AnalysisError("%s.%s (%s): %s" % (kind, METH[which], "spec" if spec else owner, e))
    return owner, fn, leaves, ctx


# ------------------------------------------------------------------------------------ truth-table comparison
def select(leaves, alpha):
    """the unique leaf whose guards hold under alpha (None if the guards need atoms alpha lacks)"""
    hit = []
    for lf in leaves:
        v = ev(lf.cond(), alpha)
        if v is None:
            return None
        if v:
            hit.append(lf)
    if len(hit) != 1:
        raise AnalysisError("decision tree is not a partition: %d leaves match" % len(hit))
    return hit[0]


def all_atoms(*leafsets):
    s = set()
    for leaves in leafsets:
        for lf in leaves:
            for g in lf.guards:
                atoms_of(g, s)
    return sorted(s, key=repr)


def assignments(atoms, ctx, limit=1 << 14):
    if 2 ** len(atoms) > limit:
        raise AnalysisError("guard table too large: %d atoms" % len(atoms))
    for bits in itertools.product((False, True), repeat=len(atoms)):
        alpha = dict(zip(atoms, bits))
        if consistent(alpha, ctx):
            yield alpha


def subst_value(v, mp, ctx):
    if isinstance(v, RF):
        return v.subst(mp, ctx)
    if isinstance(v, Sym) and isinstance(v.key, tuple) and v.key and v.key[0] == "ite":
        c = ev(v.key[1], ctx.known)
        if c is not None:
            return subst_value(v.key[2] if c else v.key[3], mp, ctx)
        return v
    if isinstance(v, tuple):
        return tuple(subst_value(x, mp, ctx) for x in v)
    if isinstance(v, ListV):
        return ListV([subst_value(x, mp, ctx) for x in v.items])
    return v


def values_equal(code, spec):
    """componentwise equality with wildcards on the spec side; returns (ok, index of first mismatch)"""
    if spec is WILD:
        return True, None
    if isinstance(spec, tuple):
        if not isinstance(code, tuple) or len(code) != len(spec):
            return False, None
        for i, (c, s) in enumerate(zip(code, spec)):
            ok, _ = values_equal(c, s)
            if not ok:
                return False, i
        return True, None
    if isinstance(spec, RF) or isinstance(code, RF):
        try:
            return (to_num(code) == to_num(spec)), None
        except Unsupported:
            return False, None
    return vkey(code) == vkey(spec), None


def compare(code_leaves, spec_leaves, ctx, want_rows=None):
    """-> list of mismatches (dict) ; stats"""
    atoms = all_atoms(code_leaves, spec_leaves)
    rows = 0
    mism = {}
    dontcare = 0
    for alpha in assignments(atoms, ctx):
        rows += 1
        c = select(code_leaves, alpha)
        s = select(spec_leaves, alpha)
        if c is None or s is None:
            raise AnalysisError("guard row not decided")
        if s.kind == "return" and s.value is DONTCARE:
            dontcare += 1
            continue
        if want_rows is not None and not want_rows(alpha, s):
            continue
        mp, rctx = facts_from(alpha, ctx)
        rctx.__class__ = ctx.__class__
        rctx.kind = getattr(ctx, "kind", None)
        if c.kind != s.kind or (c.kind == "raise" and c.exc != s.exc):
            key = ("exit", leaf_sig(c), leaf_sig(s))
            mism.setdefault(key, {"kind": "exit", "code": c, "spec": s, "rows": []})["rows"].append(alpha)
            continue
        if c.kind == "raise":
            continue
        cv = subst_value(c.value, mp, rctx)
        sv = subst_value(s.value, mp, rctx)
        ok, idx = values_equal(cv, sv)
        if not ok:
            key = ("value", leaf_sig(c), leaf_sig(s), idx)
            mism.setdefault(key, {"kind": "value", "code": c, "spec": s, "rows": [], "idx": idx, "cv": cv, "sv": sv})["rows"].append(alpha)
    return list(mism.values()), {"atoms": len(atoms), "rows": rows, "dontcare_rows": dontcare}


def leaf_sig(lf):
    if lf.kind == "raise":
        return "raise " + str(lf.exc)
    return "%s %s" % (lf.kind, show_value(lf.value) if lf.value is not None else "None")


def show_alpha(alpha):
    return ", ".join(("" if v else "not ") + show_key(k) for k, v in sorted(alpha.items(), key=lambda kv: repr(kv[0])))


# ------------------------------------------------------------------------------------ helpers for the rules
def rows(leaves, ctx, extra_atoms=()):
    """every consistent guard row of one summary: (alpha, leaf, substitution map, row context)"""
    atoms = sorted(set(all_atoms(leaves)) | set(extra_atoms), key=repr)
    for alpha in assignments(atoms, ctx):
        lf = select(leaves, alpha)
        if lf is None:
            raise AnalysisError("guard row not decided")
        mp, rctx = facts_from(alpha, ctx)
        rctx.__class__ = ctx.__class__
        rctx.kind = getattr(ctx, "kind", None)
        yield alpha, lf, mp, rctx


def is_dead_row(alpha, kind):
    """row of table D: zero / off supply, mux without live input, source programmed to 0 V"""
    if alpha.get(("B", "OFF", 0)):
        return True
    if alpha.get(("Z", ("m", "vi[0]"))):
        return True
    if kind == "Source" and alpha.get(("Z", ("m", "P.vo"))):
        return True
    for k, v in alpha.items():
        if v and k[0] == "ZP" and ("fr", "PRI") in k[1].atoms():
            return True
    return False


def is_sleep_row(alpha):
    return bool(alpha.get(("B", "PC"))) and alpha.get(("B", "IN")) is False


def finding_key(mm):
    k = "%s | code: %s | spec: %s" % (mm["kind"], leaf_sig(mm["code"]), leaf_sig(mm["spec"]))
    if mm.get("idx") is not None:
        k += " | element %d" % mm["idx"]
    return k


def check_against_spec(model, rep, rule, kinds, whichs, want_rows=None, label=""):
    """rule instance = (kind, method, mode); reports each distinct (code leaf, spec leaf) disagreement once"""
    n = 0
    seen = set()
    for kind in kinds:
        for which in whichs:
            for zero in (False, True):
                owner, fn, cl, ctx = summarize_law(model, kind, which, zero)
                _, _, sl, _ = summarize_law(model, kind, which, zero, spec=True)
                wr = (lambda a, s, kind=kind: want_rows(a, s, kind, zero)) if want_rows else None
                mism, stats = compare(cl, sl, ctx, wr)
                n += 1
                rep.count("guard_rows", stats["rows"])
                rep.count("leaves", len(cl))
                construct = "components.%s.%s" % (kind, METH[which])
                where = "%s:%d" % (model.rel("components"), fn.lineno)
                bad = False
                for mm in mism:
                    key = finding_key(mm)
                    if (construct, key) in seen:
                        continue
                    seen.add((construct, key))
                    bad = True
                    msg = "expected %s got %s on guard row {%s}" % (leaf_sig(mm["spec"]), leaf_sig(mm["code"]), show_alpha(mm["rows"][0]))
                    if mm["kind"] == "value":
                        msg += "; after row facts: expected %s got %s" % (show_value(mm["sv"]), show_value(mm["cv"]))
                    rep.violation(rule, construct, where, msg, key,
                                  {"mode": "vi=0" if zero else "vi!=0", "rows": len(mm["rows"]), "resolved_in": owner})
                rep.instance(rule, construct + (" [vi=0]" if zero else " [vi!=0]") + label, where, not bad,
                             "%d leaves, %d rows, defined in %s" % (len(cl), stats["rows"], owner))
                if not zero and len(rep.samples) < 6:
                    rep.sample({"summary_of": construct, "leaves": [lf.describe() for lf in cl][:6]})
    return n
