"""Catalogue of self-test variants (DESIGN.md appendix D).

Each variant is an edit of /repo's *current* sources applied in memory:
  R(id, file, old, new, fires=[...], silent=[...])  exact replacement of a (unique) text fragment
  plus every diff under seeded/ (forward) and seeded/fix-reverts/ (reverse = re-introduce a repaired defect).
`fires`: properties whose rules MUST report a violation on the variant; `silent`: properties whose rules MUST stay at
exit 0 (behaviour-preserving rewrites).  A variant whose anchor text has vanished is reported as stale, not as a failure
of the repository.  The fragments are anchors of the *self-test*, never of a rule: no rule matches text."""
import glob
import json
import os
from .core import VERIF

V = []


def R(id, file, old, new, fires=(), silent=(), note=""):
    V.append({"id": id, "type": "replace", "file": file, "old": old, "new": new, "fires": list(fires), "silent": list(silent), "note": note})


C = "components"
S = "system"
U = "utils"
D = "diagram"

# ----------------------------------------------------------------------------------------------- C01 witnesses
R("c01-pswitch-io-minus-ig", C, '''        i = io + self._ipr._interp(abs(io), abs(vi[0]))
        if phase_conf and phase not in phase_conf:
            i = self._params["iis"]
        return i

    def _solv_outp_volt(self, vi, ii, io, phase, phase_conf=[], pstate={}):
        """Calculate PSwitch''', '''        i = io - self._ipr._interp(abs(io), abs(vi[0]))
        if phase_conf and phase not in phase_conf:
            i = self._params["iis"]
        return i

    def _solv_outp_volt(self, vi, ii, io, phase, phase_conf=[], pstate={}):
        """Calculate PSwitch''', fires=["C01"])
R("c01-vloss-interp-args-swapped", C, 'vo = vi[0] - self._ipr._interp(abs(io), abs(vi[0])) * np.sign(vi[0])\n        if np.sign(vo) == np.sign(vi[0]):\n            return vo, STATE_DEFAULT\n        raise ValueError(\n            "Unstable system: VLoss',
  'vo = vi[0] - self._ipr._interp(abs(vi[0]), abs(io)) * np.sign(vi[0])\n        if np.sign(vo) == np.sign(vi[0]):\n            return vo, STATE_DEFAULT\n        raise ValueError(\n            "Unstable system: VLoss', fires=["C01", "C10"])
R("c01-pmux-vi0-instead-of-selected", C, "        v = abs(vi[pinp]) - r * io", "        v = abs(vi[0]) - r * io", fires=["C01", "C05"])
R("c01-linreg-no-clamp-at-zero", C, '        v = min(abs(self._params["vo"]), max(abs(vi[0]) - self._params["vdrop"], 0.0))', '        v = min(abs(self._params["vo"]), abs(vi[0]) - self._params["vdrop"])', fires=["C01"])
R("c01-rectifier-one-diode-drop", C, "            vo = vi[0] - 2 * self._ipr._interp(abs(io), abs(vi[0])) * np.sign(vi[0])", "            vo = vi[0] - 1 * self._ipr._interp(abs(io), abs(vi[0])) * np.sign(vi[0])", fires=["C01", "C02"])
R("c01-rloss-drop-not-mirrored", C, '        vo = vi[0] - self._params["rs"] * io * np.sign(vi[0])', '        vo = vi[0] - self._params["rs"] * io', fires=["C01"])
R("c01-child-curr-eq-to-ne", S, "                if pp[pinp] == node:", "                if pp[pinp] != node:", fires=["C01", "C05"])
R("c01-child-curr-else-dropped", S, "                if pp[pinp] == node:\n                    io += i[c]\n            else:\n                io += i[c]", "                if pp[pinp] == node:\n                    io += i[c]", fires=["C01"])
R("c01-fwd-own-voltage-as-input", S, "            if p != -1:  # not root\n                vi = [v[i] for i in p]", "            if p != -1:  # not root\n                vi = [v[n]]", fires=["C01"])
R("c01-fwd-phase-table-of-parent", S, "            p = self._parents[n]\n            phase_config = self._phase_lkup[n]\n            vi, ii, io, pstate = [0.0], 0.0, 0.0, {}\n            if p != -1:  # not root", "            p = self._parents[n]\n            phase_config = self._phase_lkup[n] if p == -1 else self._phase_lkup[p[0]]\n            vi, ii, io, pstate = [0.0], 0.0, 0.0, {}\n            if p != -1:  # not root", fires=["C01", "C06"])
R("c01-solve-vin-own-voltage", S, "                    else:\n                        vi = v[p[0]]\n                    if self._childs[n] == -1:  # leaf", "                    else:\n                        vi = v[n]\n                    if self._childs[n] == -1:  # leaf", fires=["C01"])
R("c01-solve-leaf-iout-not-zero", S, "                    if self._childs[n] == -1:  # leaf\n                        io = 0.0\n                    else:\n                        io = self._child_curr(n, i, v, state)\n\n                parent += [pn]", "                    if self._childs[n] != -1:\n                        io = self._child_curr(n, i, v, state)\n\n                parent += [pn]", fires=["C01"])
R("c01-solve-vout-column-shows-vin", S, "                vso += [v[n]]", "                vso += [vi]", fires=["C01"])
R("c01-back-uses-stale-children-sum", S, "                vo = v[n]\n                # sum currents into childs\n                io = self._child_curr(n, i, v, state)\n            ii[n] =", "                vo = v[n]\n                # sum currents into childs\n                io = self._child_curr(n, ii, v, state)\n            ii[n] =", fires=["C01"])
# ----------------------------------------------------------------------------------------------- C01 equivalents
R("eq-source-loss-pow", C, '        loss = self._params["rs"] * io * io', '        loss = io ** 2 * self._params["rs"]', silent=["C01", "C02", "C04"])
R("eq-zero-test-spelling", C, '''    def _solv_outp_volt(self, vi, ii, io, phase, phase_conf=[], pstate={}):
        """Calculate PSwitch output voltage from vi, ii and io"""
        if abs(vi[0]) == 0.0 or''', '''    def _solv_outp_volt(self, vi, ii, io, phase, phase_conf=[], pstate={}):
        """Calculate PSwitch output voltage from vi, ii and io"""
        if vi[0] == 0 or''', silent=["C01", "C03", "C04", "C06"])
R("eq-pswitch-sign-product", C, '''        if vi[0] >= 0.0:
            return v, STATE_DEFAULT
        return -v, STATE_DEFAULT

    def _solv_pwr_loss(self, vi, vo, ii, io, ta, phase, phase_conf=[], pstate={}):
        """Calculate power and loss in PSwitch"""''', '''        return np.sign(vi[0]) * v, STATE_DEFAULT

    def _solv_pwr_loss(self, vi, vo, ii, io, ta, phase, phase_conf=[], pstate={}):
        """Calculate power and loss in PSwitch"""''', silent=["C01", "C02", "C03", "C04", "C06"])
R("eq-rloss-early-return-to-else", C, '''        if np.sign(vo) == np.sign(vi[0]):
            return vo, STATE_DEFAULT
        raise ValueError(
            "Unstable system: RLoss component '{}' has zero output voltage".format(
                self._params["name"]
            )
        )''', '''        if np.sign(vo) != np.sign(vi[0]):
            raise ValueError("Unstable system: RLoss component has zero output voltage")
        else:
            return vo, STATE_DEFAULT''', silent=["C01", "C02", "C03", "C04"])
R("eq-child-curr-local-rename", S, "            pinp = self._g[c]._get_pri_inp(pstate, vc)\n            if pinp != -1 and len(pp) > 1:\n                if pp[pinp] == node:", "            sel = self._g[c]._get_pri_inp(pstate, vc)\n            if len(pp) > 1 and sel != -1:\n                if node == pp[sel]:", silent=["C01", "C05"])
R("eq-converter-commuted-product", C, "        return abs(self._params[\"vo\"] * io / ve)", "        return abs(io * self._params[\"vo\"] / ve)", silent=["C01", "C02"])
# ----------------------------------------------------------------------------------------------- C02
R("c02-rectifier-mosfet-loss-one-fet", C, '            loss += 2 * self._params["rs"] * abs(io) ** 2', '            loss += self._params["rs"] * abs(io) ** 2', fires=["C02"])
R("c02-linreg-loss-uses-nominal-vo", C, '''        v = min(abs(self._params["vo"]), max(abs(vi) - self._params["vdrop"], 0.0))
        loss = self._ipr._interp(abs(io), abs(vi)) * abs(vi)''', '''        v = abs(self._params["vo"])
        loss = self._ipr._interp(abs(io), abs(vi)) * abs(vi)''', fires=["C02"])
R("c02-converter-noload-branch-removed", C, '''        if io == 0.0:
            loss = abs(self._params["iq"] * vi)
        else:
            loss = abs(ii * vi * (1.0 - self._ipr._interp(abs(io), abs(vi))))''', '''        loss = abs(ii * vi * (1.0 - self._ipr._interp(abs(io), abs(vi))))''', fires=["C02"])
R("c02-pswitch-eff-of-loss", C, '''        tr = loss * self._params["rt"]
        return pwr, loss, _get_eff(pwr, pwr - loss, 0.0), tr, tr + ta

    def _get_annot(self):
        """Get PSwitch''', '''        tr = loss * self._params["rt"]
        return pwr, loss, _get_eff(pwr, loss, 0.0), tr, tr + ta

    def _get_annot(self):
        """Get PSwitch''', fires=["C02"])
R("c02-rloss-heats-by-power", C, '''        loss = abs(vi - vout) * io
        pwr = abs(vi * ii)
        tr = loss * self._params["rt"]
        return pwr, loss, _get_eff(pwr, pwr - loss, 100.0), tr, ta + tr''', '''        loss = abs(vi - vout) * io
        pwr = abs(vi * ii)
        tr = pwr * self._params["rt"]
        return pwr, loss, _get_eff(pwr, pwr - loss, 100.0), tr, ta + tr''', fires=["C02"])
R("c02-loss-load-counts-both", C, "            return 0.0, pi, 0.0, tr, tr + ta", "            return pi, pi, 0.0, tr, tr + ta", fires=["C02"])
R("c02-solve-swaps-io-ii", S, "                p, l, e, tr, tp = self._g[n]._solv_pwr_loss(\n                    vi, vo, ii, io, ta, ph, phase_config\n                )", "                p, l, e, tr, tp = self._g[n]._solv_pwr_loss(\n                    vi, vo, io, ii, ta, ph, phase_config\n                )", fires=["C02"])
R("c02-get-eff-ratio-inverted", C, "        return 100.0 * abs(opwr / ipwr)", "        return 100.0 * abs(ipwr / opwr)", fires=["C02"])
R("c02-dead-converter-peak-temp-zero", C, '''        """Calculate power and loss in Converter"""
        if abs(vi) == 0.0 or _get_lopt(pstate, "off", 0, False):
            return 0.0, 0.0, 0.0, 0.0, ta''', '''        """Calculate power and loss in Converter"""
        if abs(vi) == 0.0 or _get_lopt(pstate, "off", 0, False):
            return 0.0, 0.0, 0.0, 0.0, 0.0''', fires=["C02"])
R("eq-converter-loss-factored", C, "            loss = abs(ii * vi * (1.0 - self._ipr._interp(abs(io), abs(vi))))", "            loss = abs(vi) * ii - abs(vi) * ii * self._ipr._interp(abs(io), abs(vi))", silent=["C02"])
R("eq-linreg-loss-no-io-guard", C, '''        loss = self._ipr._interp(abs(io), abs(vi)) * abs(vi)
        if abs(io) > 0.0:
            loss += (abs(vi) - abs(v)) * io
        pwr = abs(vi * ii)''', '''        loss = self._ipr._interp(abs(io), abs(vi)) * abs(vi) + (abs(vi) - v) * io
        pwr = abs(vi * ii)''', silent=["C02"])
# ----------------------------------------------------------------------------------------------- C03
R("c03-allclose-compares-new-with-new", S, "                np.array(v), np.array(vi), rtol=vtol, atol=0.0\n", "                np.array(vi), np.array(vi), rtol=vtol, atol=0.0\n", fires=["C03"])
R("c03-current-test-uses-vtol", S, "np.allclose(np.array(i), np.array(ii), rtol=itol, atol=0.0):", "np.allclose(np.array(i), np.array(ii), rtol=vtol, atol=0.0):", fires=["C03"])
R("c03-carry-before-test", S, "            iters += 1\n            if np.allclose(", "            iters += 1\n            v, i, state = vi, ii, ostate\n            if np.allclose(", fires=["C03"])
R("c03-counter-inside-if", S, '''            iters += 1
            if np.allclose(
                np.array(v), np.array(vi), rtol=vtol, atol=0.0
            ) and np.allclose(np.array(i), np.array(ii), rtol=itol, atol=0.0):
                if not quiet:''', '''            if np.allclose(
                np.array(v), np.array(vi), rtol=vtol, atol=0.0
            ) and np.allclose(np.array(i), np.array(ii), rtol=itol, atol=0.0):
                iters += 1
                if not quiet:''', fires=["C03"])
R("c03-postcheck-off-by-one", S, "            if iters > maxiter:\n                raise RuntimeError(", "            if iters > maxiter + 1:\n                raise RuntimeError(", fires=["C03"])
R("c03-postcheck-ge", S, "            if iters > maxiter:\n                raise RuntimeError(", "            if iters >= maxiter + 2:\n                raise RuntimeError(", fires=["C03"])
R("c03-loop-bound-strict", S, "        while iters <= maxiter:", "        while iters < maxiter:", fires=["C03"])
R("c03-atol-nonzero", S, "np.array(v), np.array(vi), rtol=vtol, atol=0.0\n", "np.array(v), np.array(vi), rtol=vtol, atol=1.0\n", fires=["C03"])
R("c03-atol-dropped", S, "np.allclose(np.array(i), np.array(ii), rtol=itol, atol=0.0):", "np.allclose(np.array(i), np.array(ii), rtol=itol):", fires=["C03"])
R("eq-atol-integer-zero", S, "np.allclose(np.array(i), np.array(ii), rtol=itol, atol=0.0):", "np.allclose(np.array(i), np.array(ii), rtol=itol, atol=0):", silent=["C03"])
R("eq-allclose-positional-tolerances", S, "np.allclose(np.array(i), np.array(ii), rtol=itol, atol=0.0):", "np.allclose(np.array(i), np.array(ii), itol, 0.0):", silent=["C03"])
R("c03-or-instead-of-and", S, "            ) and np.allclose(np.array(i)", "            ) or np.allclose(np.array(i)", fires=["C03"])
R("c03-rloss-guard-deleted", C, '''        vo = vi[0] - self._params["rs"] * io * np.sign(vi[0])
        if np.sign(vo) == np.sign(vi[0]):
            return vo, STATE_DEFAULT
        raise ValueError(
            "Unstable system: RLoss component '{}' has zero output voltage".format(
                self._params["name"]
            )
        )''', '''        vo = vi[0] - self._params["rs"] * io * np.sign(vi[0])
        return vo, STATE_DEFAULT''', fires=["C03", "C01"])
R("c03-vloss-guard-compares-input-with-itself", C, '''        vo = vi[0] - self._ipr._interp(abs(io), abs(vi[0])) * np.sign(vi[0])
        if np.sign(vo) == np.sign(vi[0]):''', '''        vo = vi[0] - self._ipr._interp(abs(io), abs(vi[0])) * np.sign(vi[0])
        if np.sign(vi[0]) == np.sign(vi[0]):''', fires=["C03", "C01"])
R("c03-pmux-guard-allows-zero", C, '''        if v <= 0.0:
            raise ValueError(
                "Unstable system: PMux''', '''        if v < 0.0:
            raise ValueError(
                "Unstable system: PMux''', fires=["C03", "C01"])
R("c03-unknown-phase-not-rejected", S, '''            if phase not in list(self._g.attrs["phases"].keys()):
                raise ValueError(
                    "The specified phase '{}' is not defined".format(phase)
                )
            phase_list = [phase]''', '''            phase_list = [phase]''', fires=["C03", "C06"])
R("eq-solver-kwargs", S, "            vi, ostate = self._fwd_prop(v, i, phase, state)\n            ii = self._back_prop(vi, i, phase, state)", "            vi, ostate = self._fwd_prop(v, i, phase=phase, state=state)\n            ii = self._back_prop(vi, i, phase=phase, state=state)", silent=["C03", "C04", "C06"])
R("eq-postcheck-not-le", S, "            if iters > maxiter:\n                raise RuntimeError(", "            if not iters <= maxiter:\n                raise RuntimeError(", silent=["C03"])
R("eq-allclose-operands-commuted", S, "                np.array(v), np.array(vi), rtol=vtol, atol=0.0\n", "                np.array(vi), np.array(v), rtol=vtol, atol=0.0\n", silent=["C03"])
# ----------------------------------------------------------------------------------------------- C04
R("c04-converter-sleep-draws-iq", C, '''        if phase_conf and phase not in phase_conf:
            return self._params["iis"]
        if io == 0.0:''', '''        if phase_conf and phase not in phase_conf:
            return self._params["iq"]
        if io == 0.0:''', fires=["C04", "C06", "C01"])
R("c04-linreg-sleep-keeps-output", C, '''        v = min(abs(self._params["vo"]), max(abs(vi[0]) - self._params["vdrop"], 0.0))
        if phase_conf and phase not in phase_conf:
            return 0.0, STATE_OFF''', '''        v = min(abs(self._params["vo"]), max(abs(vi[0]) - self._params["vdrop"], 0.0))
        if phase_conf and phase not in phase_conf:
            return v, STATE_OFF''', fires=["C04", "C06"])
R("c04-pload-ignores-off-parent", C, '''    def _solv_inp_curr(self, vi, vo, io, phase, phase_conf={}, pstate={}):
        """Calculate Load input current from vi, vo and io"""
        if abs(vi[0]) == 0.0 or _get_lopt(pstate, "off", 0, False):
            return 0.0''', '''    def _solv_inp_curr(self, vi, vo, io, phase, phase_conf={}, pstate={}):
        """Calculate Load input current from vi, vo and io"""
        if abs(vi[0]) == 0.0:
            return 0.0''', fires=["C04", "C01"])
R("c04-init-state-from-own-phase-table", S, "                    self._g[i]._get_state(phase, self._phase_lkup[i])[\"off\"][0]", "                    self._g[i]._get_state(phase, self._phase_lkup[n])[\"off\"][0]", fires=["C04"])
R("c04-solver-keeps-old-state", S, "            v, i, state = vi, ii, ostate", "            v, i, state = vi, ii, state", fires=["C04"])
R("c04-source-state-ignores-sleep", C, '''        if abs(self._params["vo"]) == 0.0:
            return STATE_OFF
        if phase_conf and phase not in phase_conf:
            return STATE_OFF
        return STATE_DEFAULT''', '''        if abs(self._params["vo"]) == 0.0:
            return STATE_OFF
        return STATE_DEFAULT''', fires=["C04"])
R("c04-pmux-dead-still-draws", C, '''        pinp = self._get_pri_inp(pstate, vi)
        if pinp == -1:
            return 0.0
        i = io +''', '''        pinp = self._get_pri_inp(pstate, vi)
        if pinp == -1:
            return self._params["iis"]
        i = io +''', fires=["C04", "C05"])
# ----------------------------------------------------------------------------------------------- C06
R("c06-pload-sleep-uses-active-power", C, '''        elif phase not in phase_conf:
            p = self._params["pwrs"]''', '''        elif phase not in phase_conf:
            p = self._params["pwr"]''', fires=["C06", "C01"])
R("c06-rload-sleep-uses-table", C, '''        if not phase_conf:
            pass
        elif phase not in phase_conf:
            pass
        else:
            r = phase_conf[phase]''', '''        if phase_conf:
            r = phase_conf.get(phase, r)
            r = phase_conf[phase]''', fires=["C06"])
R("c06-pswitch-active-when-not-listed", C, '''        v = abs(vi[0]) - self._params["rs"] * io
        if phase_conf and phase not in phase_conf:
            return 0.0, STATE_OFF''', '''        v = abs(vi[0]) - self._params["rs"] * io
        if phase_conf and phase in phase_conf:
            return 0.0, STATE_OFF''', fires=["C06", "C04"])
R("c06-phase-known-by-substring", S, '            if phase not in list(self._g.attrs["phases"].keys()):', '            if not any(phase in p for p in self._g.attrs["phases"]):', fires=["C06"], note="a fragment of a phase name is accepted as a phase")
R("c06-solve-first-phase-only", S, "            v, i, iters, state = self._solve(vtol, itol, maxiter, quiet, ph)", "            v, i, iters, state = self._solve(vtol, itol, maxiter, quiet, phase_list[0])", fires=["C06"])
R("c06-show-trise-hoisted", S, '''            sources, dwarns, rail_in, pstate = {}, {}, [], {}
            ndom = {}
            show_trise = False''', '''            sources, dwarns, rail_in, pstate = {}, {}, [], {}
            ndom = {}''', fires=["C06"], note="show_trise then leaks from one phase to the next (NameError on the first)")
R("c06-all-phases-when-one-requested", S, "            phase_list = [phase]\n        elif", "            phase_list = list(self._g.attrs[\"phases\"].keys())\n        elif", fires=["C06"])
R("c06-solver-drops-phase", S, "            ii = self._back_prop(vi, i, phase, state)", "            ii = self._back_prop(vi, i, \"\", state)", fires=["C06"])
# ----------------------------------------------------------------------------------------------- C20
R("c20-trace-mm-conversion", U, "    a = 0.5 * (w1_mm + w2_mm) * t_mm / 1e3", "    a = 0.5 * (w1_mm + w2_mm) * t_mm / 1e6", fires=["C20"])
R("c20-trace-mean-dropped", U, "    a = 0.5 * (w1_mm + w2_mm) * t_mm / 1e3", "    a = (w1_mm + w2_mm) * t_mm / 1e3", fires=["C20"])
R("c20-trace-w1-twice", U, "    a = 0.5 * (w1_mm + w2_mm) * t_mm / 1e3", "    a = 0.5 * (w1_mm + w1_mm) * t_mm / 1e3", fires=["C20"])
R("c20-ref-temp-25", U, "    return (rho * l_mm / a) * (1 + tcr * (temp - 20.0))", "    return (rho * l_mm / a) * (1 + tcr * (temp - 25.0))", fires=["C20"])
R("c20-plane-aspect-inverted", U, "    return (rs * l / w) * (1 + tcr * (temp - 20.0))", "    return (rs * w / l) * (1 + tcr * (temp - 20.0))", fires=["C20"])
R("c20-default-rho-literal", U, "    t_mm: float,\n    rho: float = RHO,\n    temp: float = 20.0,\n    tcr: float = TCR\n) -> float:\n    \"\"\"Calculate PCB plane", "    t_mm: float,\n    rho: float = 1.68e-8,\n    temp: float = 20.0,\n    tcr: float = TCR\n) -> float:\n    \"\"\"Calculate PCB plane", fires=["C20"])
R("eq-c20-trace-refactored", U, "    a = 0.5 * (w1_mm + w2_mm) * t_mm / 1e3\n    return (rho * l_mm / a) * (1 + tcr * (temp - 20.0))", "    area = t_mm * (w1_mm / 2 + w2_mm / 2) * 1e-3\n    cold = rho * l_mm / area\n    return cold + cold * tcr * (temp - 20.0)", silent=["C20"])
R("eq-c20-plane-refactored", U, "    rs = rho / (t_mm / 1e3)\n    return (rs * l / w) * (1 + tcr * (temp - 20.0))", "    squares = l / w\n    return 1e3 * rho * squares / t_mm * (1 + tcr * temp - 20.0 * tcr)", silent=["C20"])


# ----------------------------------------------------------------------------------------------- diffs
# ----------------------------------------------------------------------------------------------- round-2 rules: equivalents and witnesses
R("eq-row-domain-parent-alias", S, '''                pdom = "none"
                if self._parents[n] != -1:
                    pdom = ndom[self._parents[n][0]]''', '''                pdom = "none"
                pp = self._parents[n]
                if pp != -1:
                    pdom = ndom[pp[0]]''', silent=["C01", "C05", "C06", "C07", "C16"], note="parent slot read through a local alias of the parent list")
R("c07-row-domain-from-previous-node", S, '''                    pdom = ndom[self._parents[n][0]]''', '''                    pdom = ndom[n - 1]''', fires=["C07", "C16", "C06"])
R("c01-back-prop-reset-hoisted", S, '''        for n in self._topo_nodes[::-1]:
            p = self._parents[n]
            phase_config = self._phase_lkup[n]
            vi, vo, io, pstate = [0.0], 0.0, 0.0, {}''', '''        vi, vo, io, pstate = [0.0], 0.0, 0.0, {}
        for n in self._topo_nodes[::-1]:
            p = self._parents[n]
            phase_config = self._phase_lkup[n]''', fires=["C01"])
R("eq-back-prop-reset-split", S, '''            vi, vo, io, pstate = [0.0], 0.0, 0.0, {}
            if p == -1:  # root
                vi = [v[n]]''', '''            vi, vo = [0.0], 0.0
            io, pstate = 0.0, {}
            if p == -1:  # root
                vi = [v[n]]''', silent=["C01", "C04", "C06"])
R("eq-rectifier-vdrop-not-equal-zero", C, '''        if vdrop != 0.0:
            self._params["type"] = "diode"''', '''        if not (vdrop == 0.0):
            self._params["type"] = "diode"''', silent=["C11", "C12", "C13", "C10"])
R("c11-rectifier-vdrop-truthiness", C, '''        if vdrop != 0.0:
            self._params["type"] = "diode"''', '''        if vdrop:
            self._params["type"] = "diode"''', fires=["C11"])
R("c15-warn-after-add-child", S, '''        # loads have no output rail (warn before anything is modified)
        if comp._component_type == _ComponentTypes.LOAD and rail != "":
            warn(
                "rail parameter ignored, not applicable on loads",
                stacklevel=2,
            )
            rail = ""
        # all ok, add component
        cidx = self._g.add_child(pidx[0], comp, None)''', '''        # all ok, add component
        cidx = self._g.add_child(pidx[0], comp, None)
        if comp._component_type == _ComponentTypes.LOAD and rail != "":
            warn(
                "rail parameter ignored, not applicable on loads",
                stacklevel=2,
            )
            rail = ""''', fires=["C15"])
R("c09-check-limits-sorts", C, '''    return limits


''', '''    for key in limits:
        limits[key] = sorted(limits[key])
    return limits


''', fires=["C09", "C17"])
R("c12-linreg-stores-ig-not-igc", C, '''        self._params["ig"] = igc''', '''        self._params["ig"] = ig''', fires=["C12"])
R("c06-phase-lookup-rebuilt-conditionally", S, '''        v, i, state = self._sys_vars()
        self._set_phase_lkup()''', '''        v, i, state = self._sys_vars()
        if len(self._phase_lkup) != len(self._g.attrs["phase_conf"]):
            self._set_phase_lkup()''', fires=["C06"])
R("c16-phases-domain-from-last-source", S, '''            else:
                # domain of the (first) parent, independent of the node order
                dname = ndom[self._parents[n][0]]
            ndom[n] = dname''', '''            ndom[n] = dname''', fires=["C16"], note="needs dname initialised: the variant is what the code did before the repair, minus the initialisation")

FIX_REVERT_FIRES = {
    "F1": ["C03", "C01", "C02"], "F2": ["C11"], "F3": ["C12"], "F4": ["C17"], "F5": ["C15"], "F6": ["C14"],
    "F7": ["C16"], "F8": ["C07", "C16"], "F9": ["C05", "C08", "C01"], "F10": ["C08"], "F11": ["C02"],
    "F12": ["C15"], "F13": ["C14"], "F14": ["C16"], "F15": ["C16"], "F16": ["C09"], "F17": ["C14"], "F18": ["C03"], "F19": ["C03"], "F20": ["C10"], "F21": ["C18"], "F22": ["C13"], "F23": ["C04"],
}


ALLP = ["C%02d" % i for i in range(1, 21)]


def all_variants():
    out = list(V)
    out.append({"id": "eq-all-files-reformatted", "type": "transform", "name": "unparse", "fires": [], "silent": list(ALLP),
                "note": "every source file replaced by ast.unparse(ast.parse(file)): formatting, comments, quotes change; behaviour does not"})
    out.append({"id": "eq-all-locals-renamed", "type": "transform", "name": "rename-locals", "fires": [], "silent": list(ALLP),
                "note": "every local variable of every function renamed (x -> x_): no rule may depend on a local's spelling"})
    out.append({"id": "eq-all-operands-commuted", "type": "transform", "name": "commute", "fires": [], "silent": list(ALLP),
                "note": "a+b -> b+a, a*b -> b*a (numeric operands), a==b -> b==a everywhere"})
    out.append({"id": "eq-all-appends-as-method", "type": "transform", "name": "append", "fires": [], "silent": list(ALLP),
                "note": "every `x += [e]` rewritten as `x.append(e)`"})
    out.append({"id": "eq-all-registries-aliased", "type": "transform", "name": "alias", "fires": [], "silent": list(ALLP),
                "note": "every method works on local aliases of the registries (reg = self._g.attrs[k]) instead of spelling them out"})
    for p in sorted(glob.glob(os.path.join(VERIF, "seeded", "fix-reverts", "F*.diff"))):
        k = os.path.basename(p)[:-5]
        out.append({"id": "revert-" + k, "type": "diff", "path": os.path.relpath(p, VERIF), "reverse": True,
                    "fires": FIX_REVERT_FIRES.get(k, []), "silent": [], "note": "re-introduces repaired defect " + k})
    # behaviour-preserving refactorings written by independent sub-agents: silent for every property whose rules can read them
    for mp in sorted(glob.glob(os.path.join(VERIF, "seeded", "equiv", "*", "meta.json"))):
        d = os.path.dirname(mp)
        try:
            with open(mp) as f:
                meta = json.load(f)
        except (OSError, ValueError):
            continue
        if not os.path.exists(os.path.join(d, "patch.diff")) or meta.get("violation_in"):
            continue
        unread = set(meta.get("analysis_error_in", []))
        out.append({"id": "equiv-" + os.path.basename(d), "type": "diff", "path": os.path.relpath(os.path.join(d, "patch.diff"), VERIF),
                    "reverse": False, "fires": [], "silent": [p for p in ALLP if p not in unread], "note": meta.get("summary", "")})
    for mp in sorted(glob.glob(os.path.join(VERIF, "seeded", "*", "meta.json"))):
        d = os.path.dirname(mp)
        if os.path.basename(os.path.dirname(d)) == "equiv" or os.path.basename(d) == "equiv":
            continue
        try:
            with open(mp) as f:
                meta = json.load(f)
        except (OSError, ValueError):
            continue
        if not os.path.exists(os.path.join(d, "patch.diff")):
            continue
        out.append({"id": "seeded-" + os.path.basename(d), "type": "diff", "path": os.path.relpath(os.path.join(d, "patch.diff"), VERIF),
                    "reverse": False, "fires": meta.get("detected_by", []), "silent": [], "note": meta.get("summary", "")})
    return out


# ----------------------------------------------------------------------------------------------- C05
def _c05():
    R("c05-scan-break-removed", C, "                inp = i\n                break\n", "                inp = i\n", fires=["C05"], note="last live input wins")
    R("c05-scan-reversed", C, '        for i in range(len(pstate["off"])):\n            if pstate["off"][i] == False and abs(vi[i]) != 0.0:', '        for i in reversed(range(len(pstate["off"]))):\n            if pstate["off"][i] == False and abs(vi[i]) != 0.0:', fires=["C05"])
    R("c05-live-test-or", C, '            if pstate["off"][i] == False and abs(vi[i]) != 0.0:', '            if pstate["off"][i] == False or abs(vi[i]) != 0.0:', fires=["C05"])
    R("c05-live-test-ignores-off", C, '            if pstate["off"][i] == False and abs(vi[i]) != 0.0:', '            if abs(vi[i]) != 0.0:', fires=["C05"])
    R("c05-rs-of-first-input", C, '            r = abs(self._params["rs"][pinp])', '            r = abs(self._params["rs"][0])', fires=["C05", "C01"])
    R("c05-parent-name-of-first-input", S, '                        pn = self._g[p[pinp]]._params["name"]', '                        pn = self._g[p[0]]._params["name"]', fires=["C05"])
    R("c05-vin-of-first-input", S, "                        vi = v[p[pinp]]", "                        vi = v[p[0]]", fires=["C05", "C01"])
    R("c05-order-stored-sorted", S, '        self._g.attrs["pnames"][cidx] = pidx', '        pidx = sorted(pidx)\n        self._g.attrs["pnames"][cidx] = pidx', fires=["C05"])
    R("c05-parents-ignore-stored-order", S, '                if len(ind) > 1:\n                    for i in range(len(ind)):\n                        ind[i] = self._g.attrs["pnames"][n][i]\n', '', fires=["C05"])
    R("c05-child-curr-uses-graph-predecessors", S, "            pp = self._parents[c]\n            vc = [v[c]]", "            pp = [i for i in self._g.predecessor_indices(c)]\n            vc = [v[c]]", fires=["C05", "C01"])
    R("c05-domain-scan-forward-overwrite", S, "            for i in reversed(range(len(vin))):\n                if abs(vin[i]) != 0.0:\n                    idx = i", "            for i in range(len(vin)):\n                if abs(vin[i]) != 0.0:\n                    idx = i", fires=["C05"])
    R("c05-domain-of-first-input", S, "            an = rx.ancestors(self._g, p[idx])\n            if an == set():\n                return self._g[p[idx]]._params[\"name\"]", "            an = rx.ancestors(self._g, p[0])\n            if an == set():\n                return self._g[p[0]]._params[\"name\"]", fires=["C05"])
    R("eq-c05-scan-return-form", C, '        inp = -1\n        for i in range(len(pstate["off"])):\n            if pstate["off"][i] == False and abs(vi[i]) != 0.0:\n                inp = i\n                break\n        return inp',
      '        for k in range(len(vi)):\n            if not pstate["off"][k] and vi[k] != 0:\n                return k\n        return -1', silent=["C05", "C01", "C04"])
    R("c05-scan-gives-up-at-first-on-input", C, '        inp = -1\n        for i in range(len(pstate["off"])):\n            if pstate["off"][i] == False and abs(vi[i]) != 0.0:\n                inp = i\n                break\n        return inp',
      '        for i, (off, v) in enumerate(zip(pstate["off"], vi)):\n            if not off:\n                return i if abs(v) != 0.0 else -1\n        return -1', fires=["C05"], note="an input that is on at 0 V ends the scan")
    R("eq-c05-scan-zip-continue-form", C, '        inp = -1\n        for i in range(len(pstate["off"])):\n            if pstate["off"][i] == False and abs(vi[i]) != 0.0:\n                inp = i\n                break\n        return inp',
      '        for i, (off, v) in enumerate(zip(pstate["off"], vi)):\n            if off:\n                continue\n            if abs(v) != 0.0:\n                return i\n        return -1', silent=["C05", "C01", "C04"])
    R("eq-c05-domain-scan-forward-break", S, "            for i in reversed(range(len(vin))):\n                if abs(vin[i]) != 0.0:\n                    idx = i", "            for i in range(len(vin)):\n                if abs(vin[i]) != 0.0:\n                    idx = i\n                    break", silent=["C05"])


_c05()


# ----------------------------------------------------------------------------------------------- C07
def _c07():
    R("c07-subsystem-loss-over-all-sources", S, '                loss = df[df.Domain == src]["Loss (W)"].sum()', '                loss = df[df.Type == "SOURCE"]["Loss (W)"].sum()', fires=["C07"])
    R("c07-subsystem-loss-sums-power", S, '                loss = df[df.Domain == src]["Loss (W)"].sum()', '                loss = df[df.Domain == src]["Power (W)"].sum()', fires=["C07"])
    R("c07-energy-12h", S, "            return pwr * 24.0", "            return pwr * 12.0", fires=["C07"])
    R("c07-energy-cycles-per-hour", S, "        cycles = 24 * 3600.0 / tot_time", "        cycles = 3600.0 / tot_time", fires=["C07"])
    R("c07-avg-loss-unweighted", S, "            aloss = np.sum(np.multiply(np.asarray(ploss), np.asarray(ptime))) / ttot", "            aloss = np.sum(np.asarray(ploss)) / ttot", fires=["C07"])
    R("c07-avg-power-weighted-by-loss", S, "            apwr = np.sum(np.multiply(np.asarray(ppwr), np.asarray(ptime))) / ttot", "            apwr = np.sum(np.multiply(np.asarray(ppwr), np.asarray(ploss))) / ttot", fires=["C07"])
    R("c07-total-loss-includes-component-rows", S, '            loss = df[(df.Domain == "") & (df["Loss (W)"] != "")]["Loss (W)"].sum()', '            loss = df[df["Loss (W)"] != ""]["Loss (W)"].sum()', fires=["C07"])
    R("c07-total-eff-of-loss", S, '''            df.at[idx, "Loss (W)"] = loss
            df.at[idx, "Efficiency (%)"] = _get_eff(pwr, pwr - loss)
            if energy:
                df.at[idx, "24h energy (Wh)"] = self._calc_energy(ph, pwr)
            if len(sources) < 2:''', '''            df.at[idx, "Loss (W)"] = loss
            df.at[idx, "Efficiency (%)"] = _get_eff(pwr, loss)
            if energy:
                df.at[idx, "24h energy (Wh)"] = self._calc_energy(ph, pwr)
            if len(sources) < 2:''', fires=["C07"])
    R("c07-mux-inherits-previous-domain", S, '''            an = rx.ancestors(self._g, p[idx])
            if an == set():
                return self._g[p[idx]]._params["name"]
            for i in an:
                if self._g.in_degree(i) == 0:
                    return self._g[i]._params["name"]''', '''            an = rx.ancestors(self._g, p[idx])
            if an == set():
                return domain''', fires=["C07", "C05"])
    R("c07-domain-carried-scalar", S, '''                pdom = "none"
                if self._parents[n] != -1:
                    pdom = ndom[self._parents[n][0]]
                dname = self._find_domain(n, pdom, v)''', '''                dname = self._find_domain(n, dname, v)''', fires=["C07"])
    R("c07-domain-of-last-parent", S, "                    pdom = ndom[self._parents[n][0]]", "                    pdom = ndom[self._parents[n][-1]]", fires=["C07"])
    R("c07-avg-energy-of-last-phase", S, '                vals += [self._calc_energy("", apwr)]', '                vals += [self._calc_energy("", pwr)]', fires=["C07"])
    R("c07-phase-time-of-first-phase", S, '                ptime += [self._g.attrs["phases"][ph]]', '                ptime += [self._g.attrs["phases"][phase_list[0]]]', fires=["C07"])
    R("eq-c07-total-selection-spelling", S, '            pwr = df[(df.Domain == "") & (df["Power (W)"] != "")]["Power (W)"].sum()', '            pwr = sum(df[(df["Power (W)"] != "") & (df["Domain"] == "")]["Power (W)"])', silent=["C07"])
    R("eq-c07-energy-reordered", S, '        return (self._g.attrs["phases"][phase] / 3600.0) * pwr * cycles', '        return pwr * cycles * self._g.attrs["phases"][phase] / 3600.0', silent=["C07"])


_c07()


# ----------------------------------------------------------------------------------------------- C09
def _c09():
    R("c09-max-compare-not-strict", C, "            if abs(checks[key]) > abs(lim[1]) or abs(checks[key]) < abs(lim[0]):", "            if abs(checks[key]) >= abs(lim[1]) or abs(checks[key]) < abs(lim[0]):", fires=["C09"])
    R("c09-max-limit-signed", C, "            if abs(checks[key]) > abs(lim[1]) or abs(checks[key]) < abs(lim[0]):", "            if abs(checks[key]) > lim[1] or abs(checks[key]) < abs(lim[0]):", fires=["C09"])
    R("c09-min-max-swapped", C, "            if abs(checks[key]) > abs(lim[1]) or abs(checks[key]) < abs(lim[0]):", "            if abs(checks[key]) > abs(lim[0]) or abs(checks[key]) < abs(lim[1]):", fires=["C09"])
    R("c09-tp-by-magnitude", C, '        if key == "tp":\n            if checks[key] > lim[1] or checks[key] < lim[0]:', '        if key == "tp":\n            if abs(checks[key]) > abs(lim[1]) or abs(checks[key]) < abs(lim[0]):', fires=["C09"])
    R("c09-default-not-per-key", C, "        lim = _get_opt(limits, key, LIMITS_DEFAULT[key])", '        lim = _get_opt(limits, key, LIMITS_DEFAULT["vi"])', fires=["C09"])
    R("c09-po-is-loss", C, '            "po": pi - pl,', '            "po": pl,', fires=["C09"])
    R("c09-vd-signed", C, '            "vd": abs(vi) - abs(vo),', '            "vd": vi - vo,', fires=["C09"])
    R("c09-tr-tp-swapped", C, '            "tr": tr,\n            "tp": tp,', '            "tr": tp,\n            "tp": tr,', fires=["C09"])
    R("c09-converter-checks-vd", C, '        return ["vi", "vo", "ii", "io", "pi", "po", "pl", "tr", "tp"]', '        return ["vi", "vo", "vd", "ii", "io", "pi", "po", "pl", "tr", "tp"]', fires=["C09"])
    R("c09-iload-drops-tp", C, '        return ["vi", "pi", "tr", "tp"]', '        return ["vi", "pi", "tr"]', fires=["C09"])
    R("c09-default-tp-min-zero", C, '    "tp": [-MAX_DEFAULT, MAX_DEFAULT],  # peak temperature', '    "tp": [0.0, MAX_DEFAULT],  # peak temperature', fires=["C09"])
    R("c09-silence-also-for-sources", C, "            _ComponentTypes.SOURCE,\n            _ComponentTypes.SLOSS,\n            _ComponentTypes.RECTIFIER,\n        ]:\n            if phase_conf:",
      "            _ComponentTypes.SLOSS,\n            _ComponentTypes.RECTIFIER,\n        ]:\n            if phase_conf:", fires=["C09"])
    R("c09-silence-when-listed", C, "                if phase not in phase_conf:\n                    return \"\"", "                if phase in phase_conf:\n                    return \"\"", fires=["C09"])
    R("c09-flag-keyed-by-component", S, "                if w != \"\":\n                    dwarns[dname] = 1", "                if w != \"\":\n                    dwarns[name] = 1", fires=["C09"])
    R("c09-total-all-instead-of-any", S, "            if any(warn):\n                warn += [\"Yes\"]", "            if all(warn):\n                warn += [\"Yes\"]", fires=["C09"])
    R("c09-warn-gets-other-operands", S, "                w = self._g[n]._solv_get_warns(vi, vo, ii, io, ta, ph, phase_config)", "                w = self._g[n]._solv_get_warns(vi, vo, ii, ii, ta, ph, phase_config)", fires=["C09"])
    R("c09-warn-phase-argument", S, "                w = self._g[n]._solv_get_warns(vi, vo, ii, io, ta, ph, phase_config)", "                w = self._g[n]._solv_get_warns(vi, vo, ii, io, ta, phase, phase_config)", fires=["C09", "C06"])
    R("eq-c09-compare-spelling", C, "            if abs(checks[key]) > abs(lim[1]) or abs(checks[key]) < abs(lim[0]):", "            if abs(lim[0]) > abs(checks[key]) or abs(lim[1]) < abs(checks[key]):", silent=["C09"])
    R("eq-c09-silence-flattened", C, "        if self._component_type not in [\n            _ComponentTypes.SOURCE,\n            _ComponentTypes.SLOSS,\n            _ComponentTypes.RECTIFIER,\n        ]:\n            if phase_conf:\n                if phase not in phase_conf:\n                    return \"\"",
      "        if self._component_type != _ComponentTypes.SOURCE and self._component_type != _ComponentTypes.SLOSS and self._component_type != _ComponentTypes.RECTIFIER and phase_conf and phase not in phase_conf:\n            return \"\"", silent=["C09"])


_c09()


# ----------------------------------------------------------------------------------------------- C08
def _c08():
    R("c08-current-sums-iout", S, '                    iin += [sum(df[filt]["Iin (A)"])]', '                    iin += [sum(df[filt]["Iout (A)"])]', fires=["C08"])
    R("c08-phase-conjunct-dropped", S, '                        filt = (df["Rail in"] == r) & (df["Phase"] == ph)', '                        filt = df["Rail in"] == r', fires=["C08"])
    R("c08-power-column-gets-loss", S, '            res["Power (W)"] = pwr\n            res["Loss (W)"] = loss\n            res["Efficiency (%)"] = eff\n            res["Warnings"] = warn\n            return pd.DataFrame(res)', '            res["Power (W)"] = loss\n            res["Loss (W)"] = loss\n            res["Efficiency (%)"] = eff\n            res["Warnings"] = warn\n            return pd.DataFrame(res)', fires=["C08"])
    R("c08-voltage-from-rail-out-no-phase", S, '                    vin += [df[filt]["Vin (V)"].tolist()[0]]', '                    vin += [df[df["Rail out"] == r]["Vout (V)"].tolist()[0]]', fires=["C08"])
    R("c08-emptiness-skip-removed", S, '                    if not filt.any():  # rail feeds nothing in this phase\n                        continue\n', '', fires=["C08"])
    R("c08-ta-not-forwarded", S, '            energy=energy,\n            ta=ta,\n            tags=tags,\n        )\n        if "Phase" in df:', '            energy=energy,\n            tags=tags,\n        )\n        if "Phase" in df:', fires=["C08"])
    R("c08-rail-filter-by-rail-out", S, '                        filt = df["Rail in"] == r\n                    if not filt.any()', '                        filt = df["Rail out"] == r\n                    if not filt.any()', fires=["C08"])
    R("c08-loss-sums-power", S, '                    l = sum(df[filt]["Loss (W)"])', '                    l = sum(df[filt]["Power (W)"])', fires=["C08"])
    R("c08-rail-in-of-first-parent", S, '                parent += [pn]\n                if pn != "":\n                    rail_in += [self._g.attrs["rails"][pn]]', '                parent += [pn]\n                if pn != "":\n                    rail_in += [self._g.attrs["rails"][self._get_parent_name(n)]]', fires=["C08", "C05"])
    R("eq-c08-sum-method", S, '                    iin += [sum(df[filt]["Iin (A)"])]', '                    iin += [df[filt]["Iin (A)"].sum()]', silent=["C08"])
    R("eq-c08-values0", S, '                    vin += [df[filt]["Vin (V)"].tolist()[0]]', '                    vin += [df[filt]["Vin (V)"].values[0]]', silent=["C08"])


_c08()


# ----------------------------------------------------------------------------------------------- C14 / C15
def _c14():
    R("c14-chk-name-weakened", S, '        if name in self._g.attrs["nodes"].keys() or (\n            name in self._g.attrs["rails"].values()\n        ):', '        if name in self._g.attrs["nodes"].keys() and (\n            name in self._g.attrs["rails"].values()\n        ):', fires=["C14"])
    R("c14-rail-vs-names-dropped", S, '            if (\n                rail in self._g.attrs["nodes"].keys()\n                or rail in self._g.attrs["rails"].values()\n            ):', '            if rail in self._g.attrs["rails"].values():', fires=["C14"])
    R("c14-rail-equals-name-allowed", S, '            if name == rail:\n                raise ValueError("Component name and rail name cannot be the same!")\n            if (', '            if (', fires=["C14"])
    R("c14-add-comp-no-dup-check", S, '        if len(pidx) > len(set(pidx)):\n            raise ValueError("parent paramenter contains duplicates!")\n', '', fires=["C14"])
    R("eq-add-comp-string-dup-check-dropped", S, '            if len(parent) > len(set(parent)):\n                raise ValueError("parent paramenter contains duplicates!")\n', '', silent=["C14"],
      note="the check on the resolved indices subsumes the one on the strings (same exception, nothing modified in between): dropping the weaker one changes nothing")
    R("c14-add-comp-multi-parent-any-type", S, '            if comp._component_type != _ComponentTypes.PMUX:\n                raise ValueError("only PMux component can have multiple inputs!")\n', '', fires=["C14"])
    R("c14-add-comp-child-type-first-parent-only", S, "        pidx = []\n        for p in plist:\n            pidx += [self._get_index(p)]\n            if not comp._component_type in self._g[pidx[-1]]._child_types:", "        pidx = []\n        for p in plist:\n            pidx += [self._get_index(p)]\n            if not comp._component_type in self._g[pidx[0]]._child_types:", fires=["C14"])
    R("c14-add-comp-single-pmux-only-for-lists", S, '        if comp._component_type.name == "PMUX":\n            for key in self._g.attrs["nodes"]:', '        if comp._component_type.name == "PMUX" and isinstance(parent, list):\n            for key in self._g.attrs["nodes"]:', fires=["C14"])
    R("c14-add-source-type-check-dropped", S, '        if not isinstance(source, Source):\n            raise ValueError("Component must be a source!")\n\n        cidx = self._g.add_node(source)', '        cidx = self._g.add_node(source)', fires=["C14"])
    R("c14-change-comp-source-check-dropped", S, '            if not isinstance(comp, Source):\n                raise ValueError("Source cannot be changed to other type!")\n', '            pass\n', fires=["C14"])
    R("c14-change-comp-parent-check-dropped", S, '''        if parents[eidx] != -1:
            if not comp._component_type in self._g[parents[eidx][0]]._child_types:
                raise ValueError(
                    "Parent does not allow child of type {}!".format(
                        comp._component_type.name
                    )
                )
''', '', fires=["C14"])
    R("c14-del-comp-last-source-allowed", S, '            if len(self._get_sources()) < 2:\n                raise ValueError("Cannot delete the last source component!")\n', '', fires=["C14"])
    R("c14-del-comp-source-children-orphaned", S, '            if not del_childs:\n                raise ValueError("Source must be deleted with its childs")\n', '', fires=["C14"])
    R("c14-rloss-admits-source-child", C, '''    def _child_types(self):
        """Defines allowable Loss child component types"""
        et = list(_ComponentTypes)
        et.remove(_ComponentTypes.SOURCE)
        return et

    _cparams = {
        "name": "rloss",''', '''    def _child_types(self):
        """Defines allowable Loss child component types"""
        et = list(_ComponentTypes)
        return et

    _cparams = {
        "name": "rloss",''', fires=["C14"])
    R("c14-relink-to-all-parents", S, "                for c in childs[eidx]:\n                    self._g.add_edge(parents[eidx][0], c, None)", "                for c in childs[eidx]:\n                    for q in parents[eidx]:\n                        self._g.add_edge(q, c, None)", fires=["C14"])
    R("c14-add-comp-single-pmux-check-dropped", S, '''        # can only have one pmux
        if comp._component_type.name == "PMUX":
            for key in self._g.attrs["nodes"]:
                if self._g[self._g.attrs["nodes"][key]]._component_type.name == "PMUX":
                    raise ValueError("a system can only have one PMux")
        # loads have no output rail (warn before anything is modified)''', '''        # loads have no output rail (warn before anything is modified)''', fires=["C14"], silent=[])
    R("c15-add-comp-pmux-check-after-add", S, '''        # can only have one pmux
        if comp._component_type.name == "PMUX":
            for key in self._g.attrs["nodes"]:
                if self._g[self._g.attrs["nodes"][key]]._component_type.name == "PMUX":
                    raise ValueError("a system can only have one PMux")
        # loads have no output rail (warn before anything is modified)
        if comp._component_type == _ComponentTypes.LOAD and rail != "":
            warn(
                "rail parameter ignored, not applicable on loads",
                stacklevel=2,
            )
            rail = ""
        # all ok, add component
        cidx = self._g.add_child(pidx[0], comp, None)''', '''        # loads have no output rail (warn before anything is modified)
        if comp._component_type == _ComponentTypes.LOAD and rail != "":
            warn(
                "rail parameter ignored, not applicable on loads",
                stacklevel=2,
            )
            rail = ""
        # all ok, add component
        cidx = self._g.add_child(pidx[0], comp, None)
        # can only have one pmux
        if comp._component_type.name == "PMUX":
            for key in self._g.attrs["nodes"]:
                if self._g[self._g.attrs["nodes"][key]]._component_type.name == "PMUX":
                    raise ValueError("a system can only have one PMux")''', fires=["C15"])
    R("eq-add-comp-pmux-check-repeated-after-add", S, '''        cidx = self._g.add_child(pidx[0], comp, None)
        self._g.attrs["nodes"][comp._params["name"]] = cidx''', '''        cidx = self._g.add_child(pidx[0], comp, None)
        # can only have one pmux
        if comp._component_type.name == "PMUX":
            for key in self._g.attrs["nodes"]:
                if self._g[self._g.attrs["nodes"][key]]._component_type.name == "PMUX":
                    raise ValueError("a system can only have one PMux")
        self._g.attrs["nodes"][comp._params["name"]] = cidx''', silent=["C14", "C15", "C16"], note="the same check repeated after the first modification can never fire: the path is infeasible")
    R("c15-change-comp-validate-after-replace", S, '''        # check that component allows its existing childs
        childs = self._get_childs()''', '''        self._g[eidx] = comp
        # check that component allows its existing childs
        childs = self._get_childs()''', fires=["C15"])
    R("c15-set-comp-phases-store-before-check", S, '''        if isinstance(self._g[cidx], RLoss) or isinstance(self._g[cidx], VLoss):
            raise ValueError("Loss components does not support load phases!")

        # name may be a rail name: file the configuration under the component
        self._g.attrs["phase_conf"][self._g[cidx]._params["name"]] = phase_conf''', '''        self._g.attrs["phase_conf"][self._g[cidx]._params["name"]] = phase_conf
        if isinstance(self._g[cidx], RLoss) or isinstance(self._g[cidx], VLoss):
            raise ValueError("Loss components does not support load phases!")''', fires=["C15"])
    R("c15-set-sys-phases-store-first", S, '''        if len(list(phases.keys())) < 2 and phases != {}:
            raise ValueError("There must be at least two phases!")
        if "N/A" in list(phases.keys()):
            raise ValueError('"N/A" is a reserved name!')
        self._g.attrs["phases"] = phases''', '''        self._g.attrs["phases"] = phases
        if len(list(phases.keys())) < 2 and phases != {}:
            raise ValueError("There must be at least two phases!")
        if "N/A" in list(phases.keys()):
            raise ValueError('"N/A" is a reserved name!')''', fires=["C15"])
    R("c15-chk-name-registers-name", S, '''            ):
                raise ValueError('Rail name "{}" is already used!'.format(name))

        return True''', '''            ):
                raise ValueError('Rail name "{}" is already used!'.format(name))
        self._g.attrs["groups"][name] = ""

        return True''', fires=["C15"])
    R("eq-c14-chk-name-inlined-in-add-source", S, '        self._chk_name(source._params["name"], rail)\n        if not isinstance(source, Source):', '        if source._params["name"] in self._g.attrs["nodes"] or source._params["name"] in self._g.attrs["rails"].values():\n            raise ValueError("name used")\n        if rail != "" and (rail == source._params["name"] or rail in self._g.attrs["nodes"] or rail in self._g.attrs["rails"].values()):\n            raise ValueError("rail used")\n        if not isinstance(source, Source):', silent=["C14", "C15"])
    R("eq-c14-checks-reordered", S, '''        self._chk_name(source._params["name"], rail)
        if not isinstance(source, Source):
            raise ValueError("Component must be a source!")
''', '''        if not isinstance(source, Source):
            raise ValueError("Component must be a source!")
        self._chk_name(source._params["name"], rail)
''', silent=["C14", "C15"])


_c14()


# ----------------------------------------------------------------------------------------------- C16
def _c16():
    R("c16-del-comp-forgets-groups", S, '''                del [self._g.attrs["phase_conf"][self._g[c]._params["name"]]]
                del [self._g.attrs["groups"][self._g[c]._params["name"]]]''', '''                del [self._g.attrs["phase_conf"][self._g[c]._params["name"]]]''', fires=["C16"])
    R("c16-change-comp-keeps-old-phase-conf", S, '''        del [self._g.attrs["phase_conf"][name]]
        self._g.attrs["phase_conf"][comp._params["name"]] = {}''', '''        self._g.attrs["phase_conf"][comp._params["name"]] = {}''', fires=["C16"])
    R("c16-add-source-no-order-entry", S, '''        self._g.attrs["rails"][source._params["name"]] = rail
        self._g.attrs["pnames"][cidx] = []

    def change_comp''', '''        self._g.attrs["rails"][source._params["name"]] = rail

    def change_comp''', fires=["C16"])
    R("c16-sys-vars-sized-by-count", S, "        vn = max(self._get_nodes()) + 1  # highest node index + 1", "        vn = len(self._get_nodes())  # number of nodes", fires=["C16"])
    R("c16-save-skips-rel-update", S, '        self._rel_update()\n        sys = {\n            "system": {', '        sys = {\n            "system": {', fires=["C16"])
    R("c16-params-columns-swapped", S, '            res["ig (A)"] = ig\n            res["iq (A)"] = iq', '            res["ig (A)"] = iq\n            res["iq (A)"] = ig', fires=["C16"])
    R("c16-limit-column-wrong-key", S, '                lpo += [self._filt_lim(n, "po")]', '                lpo += [self._filt_lim(n, "pi")]', fires=["C16"])
    R("c16-rel-update-cached", S, '''        self._parents = self._get_parents()
        self._childs = self._get_childs()
        self._topo_nodes = self._get_topo_sort()''', '''        if getattr(self, "_nn", None) == self._g.num_nodes():
            return
        self._nn = self._g.num_nodes()
        self._parents = self._get_parents()
        self._childs = self._get_childs()
        self._topo_nodes = self._get_topo_sort()''', fires=["C16"])
    R("c16-relink-without-order-update", S, '''                    self._g.add_edge(parents[eidx][0], c, None)
                    pn = [
                        parents[eidx][0] if i == eidx else i
                        for i in self._g.attrs["pnames"][c]
                    ]
                    self._g.attrs["pnames"][c] = list(dict.fromkeys(pn))''', '''                    self._g.add_edge(parents[eidx][0], c, None)''', fires=["C16"])
    R("c16-order-dedup-by-set", S, '                    self._g.attrs["pnames"][c] = list(dict.fromkeys(pn))', '                    self._g.attrs["pnames"][c] = list(set(pn))', fires=["C16", "C05"])
    R("c16-relink-new-parent-moved-last", S, '''                    pn = [
                        parents[eidx][0] if i == eidx else i
                        for i in self._g.attrs["pnames"][c]
                    ]
                    self._g.attrs["pnames"][c] = list(dict.fromkeys(pn))''', '''                    pn = [i for i in self._g.attrs["pnames"][c] if i not in (eidx, parents[eidx][0])]
                    self._g.attrs["pnames"][c] = pn + [parents[eidx][0]]''', fires=["C16"], note="the new parent loses the deleted input's priority position")
    R("c16-del-comp-relinks-to-last-parent", S, "                    self._g.add_edge(parents[eidx][0], c, None)", "                    self._g.add_edge(parents[eidx][-1], c, None)", fires=["C16"])
    R("eq-del-comp-relink-early-return", S, '''        if not del_childs:
            if childs[eidx] != -1:
                for c in childs[eidx]:
                    self._g.add_edge(parents[eidx][0], c, None)
                    pn = [
                        parents[eidx][0] if i == eidx else i
                        for i in self._g.attrs["pnames"][c]
                    ]
                    self._g.attrs["pnames"][c] = list(dict.fromkeys(pn))''', '''        if del_childs or childs[eidx] == -1:
            return
        npar = parents[eidx][0]
        for c in childs[eidx]:
            self._g.add_edge(npar, c, None)
            pn = [npar if i == eidx else i for i in self._g.attrs["pnames"][c]]
            self._g.attrs["pnames"][c] = list(dict.fromkeys(pn))''', silent=["C16", "C05", "C14", "C15"])
    R("c16-phases-zero-value-replaced-by-nominal", S, '''                        if p == "N/A":
                            pwr += [self._g[n]._params["pwr"]]
                        else:
                            pwr += [self._phase_lkup[n][p]]''', '''                        pwr += [self._phase_lkup[n].get(p) or self._g[n]._params["pwr"]]''', fires=["C16"], note="a configured 0 W is shown as the nominal power")
    R("eq-phases-value-by-membership", S, '''                        if p == "N/A":
                            pwr += [self._g[n]._params["pwr"]]
                        else:
                            pwr += [self._phase_lkup[n][p]]''', '''                        pwr += [self._phase_lkup[n][p] if p in self._phase_lkup[n] else self._g[n]._params["pwr"]]''', silent=["C16", "C06", "C17"])
    R("c16-phases-value-in-wrong-column", S, '''                    if "pwr" in self._g[n]._params:
                        rs += [""]
                        ii += [""]
                        if p == "N/A":
                            pwr += [self._g[n]._params["pwr"]]''', '''                    if "pwr" in self._g[n]._params:
                        rs += [""]
                        pwr += [""]
                        if p == "N/A":
                            ii += [self._g[n]._params["pwr"]]''', fires=["C16"])


_c16()


# ----------------------------------------------------------------------------------------------- C17
def _c17():
    R("c17-solve-normalises-source-rs", S, "                if p == -1:  # root\n                    vi = v[n] + self._g[n]._params[\"rs\"] * ii", "                if p == -1:  # root\n                    self._g[n]._params[\"rs\"] = abs(self._g[n]._params[\"rs\"])\n                    vi = v[n] + self._g[n]._params[\"rs\"] * ii", fires=["C17"])
    R("c17-diag-config-not-copied", D, "        bd_conf = copy.deepcopy(config)", "        bd_conf = config", silent=["C17", "C19"], note="nothing in _diag writes through bd_conf (nodes and clusters start from their own deep copies): reading the caller's dict in place changes nothing")
    R("c17-diag-config-written-in-place", D, "        bd_conf = copy.deepcopy(config)\n", "        bd_conf = config\n        bd_conf[\"graph\"][\"label\"] = \"x\"\n", fires=["C17", "C19"])
    R("c17-node-conf-aliases-default", D, '        conf = copy.deepcopy(attrs["default"])', '        conf = attrs["default"]', fires=["C17", "C19"])
    R("c17-cluster-conf-aliases-default", D, '            cconf = copy.deepcopy(bd_conf["cluster"]["default"])', '            cconf = bd_conf["cluster"]["default"]', fires=["C17", "C19"])
    R("c17-state-default-written-through-alias", C, '''    def _get_state(self, phase, phase_conf={}):
        """Get initial state value for solver"""
        return STATE_DEFAULT''', '''    def _get_state(self, phase, phase_conf={}):
        """Get initial state value for solver"""
        st = STATE_DEFAULT
        st["off"] = [False]
        return st''', fires=["C17"])
    R("c17-restore-rs-omitted", S, '''            self._g[pidx]._params["vo"] = vo_org
            self._g[pidx]._params["rs"] = rs_org''', '''            self._g[pidx]._params["vo"] = vo_org''', fires=["C17"])
    R("c17-restore-only-on-exception", S, '''        finally:
            # restore source params
            self._g[pidx]._params["vo"] = vo_org
            self._g[pidx]._params["rs"] = rs_org''', '''        except Exception:
            self._g[pidx]._params["vo"] = vo_org
            self._g[pidx]._params["rs"] = rs_org
            raise
        self._g[pidx]._params["vo"] = vo_org
        self._g[pidx]._params["rs"] = rs_org''', fires=["C17"])
    R("c17-pload-fills-phase-table", C, '''        elif phase not in phase_conf:
            p = self._params["pwrs"]
        else:
            p = phase_conf[phase]''', '''        else:
            p = phase_conf.setdefault(phase, self._params["pwrs"])''', fires=["C17"])
    R("c17-prep-loss-normalises-phases-in-place", D, "            w += phases[key]\n        avg = avg / w", "            w += phases[key]\n            phases[key] = float(phases[key])\n        avg = avg / w", fires=["C17"])
    R("c17-phases-caches-names-on-self", S, "        phase_names = list(self._g.attrs[\"phases\"].keys())\n        self._set_phase_lkup()", "        phase_names = list(self._g.attrs[\"phases\"].keys())\n        self._phase_names = phase_names\n        self._set_phase_lkup()", fires=["C17"])
    R("eq-c17-restore-via-saved-tuple-names", S, '''        vo_org = self._g[pidx]._params["vo"]
        rs_org = self._g[pidx]._params["rs"]''', '''        rs_org = self._g[pidx]._params["rs"]
        vo_org = self._g[pidx]._params["vo"]''', silent=["C17", "C18"])


_c17()


# ----------------------------------------------------------------------------------------------- C18
def _c18():
    R("c18-solve-before-writes", S, '''                    self._g[pidx]._params["vo"] = bstate[1]
                    self._g[pidx]._params["rs"] = bstate[2]
                    _, i, _, _ = self._solve(phase=phase_list[phidx])''', '''                    _, i, _, _ = self._solve(phase=phase_list[phidx])
                    self._g[pidx]._params["vo"] = bstate[1]
                    self._g[pidx]._params["rs"] = bstate[2]''', fires=["C18"])
    R("c18-always-first-phase", S, "                    _, i, _, _ = self._solve(phase=phase_list[phidx])", "                    _, i, _, _ = self._solve(phase=phase_list[0])", fires=["C18"])
    R("c18-duration-of-next-phase", S, '                        deltat = self._g.attrs["phases"][phase_list[phidx]]', '                        deltat = self._g.attrs["phases"][phase_list[(phidx + 1) % len(phase_list)]]', fires=["C18"])
    R("c18-current-of-node-zero", S, "                    bstate = dfunc(deltat, i[pidx])", "                    bstate = dfunc(deltat, i[0])", fires=["C18"])
    R("c18-phidx-not-advanced", S, "                    phidx = (phidx + 1) % len(phase_list)\n", "", fires=["C18"])
    R("c18-log-guard-ge", S, "                    if bstate[0] > 0.0 and bstate[1] > cutoff:\n                        t += [t[-1] + deltat]", "                    if bstate[0] >= 0.0 and bstate[1] > cutoff:\n                        t += [t[-1] + deltat]", fires=["C18"])
    R("c18-log-time-not-cumulative", S, "                        t += [t[-1] + deltat]", "                        t += [deltat]", fires=["C18"])
    R("c18-source-check-removed", S, '        if not isinstance(self._g[pidx], Source):\n            raise ValueError("Battery must be a source!")\n', '', fires=["C18"])
    R("c18-rs-from-voltage-slot", S, '                    self._g[pidx]._params["rs"] = bstate[2]', '                    self._g[pidx]._params["rs"] = bstate[1]', fires=["C18"])
    R("c18-nophase-step-unit", S, "                        deltat = (cap[0] / i[pidx]) * 3.6", "                        deltat = (cap[0] / i[pidx]) * 3600", fires=["C18"])
    R("c18-idle-phase-skipped", S, "                    if phase_list == [\"\"]:\n                        deltat = (cap[0]", "                    if i[pidx] <= 0.0:\n                        phidx = (phidx + 1) % len(phase_list)\n                        continue\n                    if phase_list == [\"\"]:\n                        deltat = (cap[0]", fires=["C18"])
    R("c18-log-starts-after-first-step", S, "        t = [0.0]\n        cap = [bstate[0]]", "        t = []\n        cap = [bstate[0]]", fires=["C18"])
    R("eq-c18-log-guard-commuted", S, "                    if bstate[0] > 0.0 and bstate[1] > cutoff:\n                        t += [t[-1] + deltat]", "                    if cutoff < bstate[1] and 0.0 < bstate[0]:\n                        t += [deltat + t[-1]]", silent=["C18"])


_c18()


# ----------------------------------------------------------------------------------------------- C13
def _c13():
    R("c13-default-changed-in-table", C, '            "pwrs": {"typ": [int, float], "opt": True, "def": PWRS_DEFAULT},', '            "pwrs": {"typ": [int, float], "opt": True, "def": 1.0},', fires=["C13"])
    R("c13-key-removed", C, '            "iis": {"typ": [int, float], "opt": True, "def": IIS_DEFAULT},\n            "rt": {"typ": [int, float], "opt": True, "def": RT_DEFAULT},\n        },\n    }\n\n    def __init__(\n        self,\n        name: str,\n        *,\n        vo: float,\n        eff: float | dict,', '            "rt": {"typ": [int, float], "opt": True, "def": RT_DEFAULT},\n        },\n    }\n\n    def __init__(\n        self,\n        name: str,\n        *,\n        vo: float,\n        eff: float | dict,', fires=["C13"])
    R("c13-mandatory-made-optional", C, '            "rs": {"typ": [int, float], "opt": False},\n            "rt": {"typ": [int, float], "opt": True, "def": RT_DEFAULT},\n        },\n    }\n\n    def __init__(\n        self,\n        name: str,\n        *,\n        rs: float,\n        rt: float = 0.0,\n        limits: dict = LIMITS_DEFAULT,\n    ):', '            "rs": {"typ": [int, float], "opt": True, "def": RS_DEFAULT},\n            "rt": {"typ": [int, float], "opt": True, "def": RT_DEFAULT},\n        },\n    }\n\n    def __init__(\n        self,\n        name: str,\n        *,\n        rs: float,\n        rt: float = 0.0,\n        limits: dict = LIMITS_DEFAULT,\n    ):', fires=["C13"])
    R("c13-vloss-table-rejects-dict", C, '            "vdrop": {"typ": [int, float, dict], "opt": False},\n            "rt": {"typ": [int, float], "opt": True, "def": RT_DEFAULT},\n        },\n    }\n\n    def __init__(\n        self,\n        name: str,\n        *,\n        vdrop: float | dict,\n        rt', '            "vdrop": {"typ": [int, float], "opt": False},\n            "rt": {"typ": [int, float], "opt": True, "def": RT_DEFAULT},\n        },\n    }\n\n    def __init__(\n        self,\n        name: str,\n        *,\n        vdrop: float | dict,\n        rt', fires=["C13"])
    R("c13-iload-inherits-pload-table", C, '''    _cparams = {
        "name": "iload",
        "params": {
            "ii": {"typ": [int, float], "opt": False},
            "iis": {"typ": [int, float], "opt": True, "def": IIS_DEFAULT},
            "rt": {"typ": [int, float], "opt": True, "def": RT_DEFAULT},
            "loss": {"typ": [bool], "opt": True, "def": False},
        },
    }

''', '', fires=["C13"])
    R("c13-type-gate-after-store", C, '''            if type(pval) not in typ and not (dict in typ and isinstance(pval, dict)):
                raise ValueError("Parameter {} is not of the correct type".format(key))
            fparams[key] = pval''', '''            fparams[key] = pval
            if type(pval) not in typ and not (dict in typ and isinstance(pval, dict)):
                raise ValueError("Parameter {} is not of the correct type".format(key))''', silent=["C13"], note="the store goes to a local dict that is dropped when the type gate raises: no observable difference")
    R("c13-type-gate-isinstance", C, '            if type(pval) not in typ and not (dict in typ and isinstance(pval, dict)):', '            if not isinstance(pval, tuple(typ)):', fires=["C13"])
    R("c13-mandatory-read-with-default", C, '                pval = _get_mand(config[cls._cparams["name"]], key)', '                pval = _get_opt(config[cls._cparams["name"]], key, None)', fires=["C13"])
    R("c13-linreg-vdrop-default", C, '        vd = _get_opt(config["linreg"], "vdrop", VDROP_DEFAULT)', '        vd = _get_opt(config["linreg"], "vdrop", 0.1)', fires=["C13"])
    R("c13-linreg-iis-from-iq", C, '        iis = _get_opt(config["linreg"], "iis", IIS_DEFAULT)', '        iis = _get_opt(config["linreg"], "iq", IIS_DEFAULT)', fires=["C13"])
    R("c13-loader-updates-shared-limits", C, '        fparams["limits"] = _get_opt(config, "limits", LIMITS_DEFAULT)', '        limits = LIMITS_DEFAULT\n        limits.update(_get_opt(config, "limits", {}))\n        fparams["limits"] = limits', fires=["C13"])
    R("c13-section-name-duplicate", C, '        "name": "vloss",', '        "name": "rloss",', fires=["C13"])


_c13()


# ----------------------------------------------------------------------------------------------- C12
def _c12():
    R("c12-converter-iis-dropped", S, '''                                    iq=iq,
                                    limits=limits,
                                    iis=iis,
                                    rt=rt,
                                ),
                            )
                        elif c["type"] == "LINREG":''', '''                                    iq=iq,
                                    limits=limits,
                                    rt=rt,
                                ),
                            )
                        elif c["type"] == "LINREG":''', fires=["C12"])
    R("c12-pload-pwrs-dropped", S, "                                        limits=limits,\n                                        pwrs=pwrs,\n                                        rt=rt,", "                                        limits=limits,\n                                        rt=rt,", fires=["C12"])
    R("c12-rload-loss-dropped", S, "                                        cname, rs=rs, rt=rt, limits=limits, loss=loss", "                                        cname, rs=rs, rt=rt, limits=limits", fires=["C12"])
    R("c12-pswitch-rs-from-iis", S, '''                                comp=PSwitch(
                                    cname,
                                    rs=rs,''', '''                                comp=PSwitch(
                                    cname,
                                    rs=iis,''', fires=["C12"])
    R("c12-reader-default-iq-one", S, '                        iq = _get_opt(c["params"], "iq", 0.0)', '                        iq = _get_opt(c["params"], "iq", 1.0)', fires=["C12"])
    R("c12-mux-parents-from-graph", S, '                "parents": [self._g[n]._params["name"] for n in self._parents[pidx]],', '                "parents": [self._g[n]._params["name"] for n in self._g.predecessor_indices(pidx)],', fires=["C12", "C05", "C16"])
    R("c12-version-test-reversed", S, "        if version.parse(sysloss.__version__) < version.parse(ver):", "        if version.parse(sysloss.__version__) > version.parse(ver):", fires=["C12"])
    R("c12-version-major-minor-only", S, "        if version.parse(sysloss.__version__) < version.parse(ver):", "        if version.parse(sysloss.__version__).release[:2] < version.parse(ver).release[:2]:", fires=["C12"])
    R("c12-rails-not-saved", S, '                "groups": self._g.attrs["groups"],\n                "rails": self._g.attrs["rails"],', '                "groups": self._g.attrs["groups"],', fires=["C12"])
    R("c12-groups-saved-from-rails", S, '                "groups": self._g.attrs["groups"],', '                "groups": self._g.attrs["rails"],', fires=["C12"])
    R("c12-applims-sorted", S, "            limits[lim] = _get_opt(self._g[idx]._limits, lim, LIMITS_DEFAULT[lim])", "            limits[lim] = sorted(_get_opt(self._g[idx]._limits, lim, LIMITS_DEFAULT[lim]))", fires=["C12"])
    R("c12-phase-conf-filtered-on-load", S, '        phase_conf = _get_mand(sysparams, "phase_conf")\n', '        phase_conf = _get_mand(sysparams, "phase_conf")\n        phase_conf = {k: c for k, c in phase_conf.items() if self._get_index(k) != -1}\n', fires=["C12"])
    R("c12-record-limits-of-parent", S, '''                                    "type": self._g[c]._component_type.name,
                                    "params": self._g[c]._params,
                                    "limits": self._get_applims(c),
                                }
                            ]
                    cdict[self._g[e]._params["name"]] = childs
            sys[root[r]]''', '''                                    "type": self._g[c]._component_type.name,
                                    "params": self._g[c]._params,
                                    "limits": self._get_applims(e),
                                }
                            ]
                    cdict[self._g[e]._params["name"]] = childs
            sys[root[r]]''', fires=["C12"])


_c12()


# ----------------------------------------------------------------------------------------------- C11
def _c11():
    R("c11-rloss-rs-raw", C, '''        self._params["rs"] = abs(rs)
        self._params["rt"] = abs(rt)
        self._limits = _check_limits(limits)
        self._ipr = None

    def _solv_inp_curr(self, vi, vo, io, phase, phase_conf={}, pstate={}):
        """Calculate RLoss''', '''        self._params["rs"] = rs
        self._params["rt"] = abs(rt)
        self._limits = _check_limits(limits)
        self._ipr = None

    def _solv_inp_curr(self, vi, vo, io, phase, phase_conf={}, pstate={}):
        """Calculate RLoss''', fires=["C11"])
    R("c11-pload-pwrs-raw", C, '        self._params["pwrs"] = abs(pwrs)', '        self._params["pwrs"] = pwrs', fires=["C11"])
    R("c11-converter-eff-zero-allowed", C, "            if not (eff > 0.0):", "            if not (eff >= 0.0):", fires=["C11"])
    R("c11-converter-eff-upper-bound-2", C, "            if not (eff <= 1.0):", "            if not (eff < 2.0):", fires=["C11"])
    R("c11-converter-table-max-unchecked", C, '            if np.max(eff["eff"]) > 1.0:\n                raise ValueError("Efficiency values must be <= 1.0")\n', '', fires=["C11"])
    R("c11-rload-zero-allowed", C, '        if abs(rs) == 0.0:\n            raise ValueError("rs must be > 0!")\n', '', fires=["C11"])
    R("c11-pswitch-ig-check-inverted", C, '''        if isinstance(ig, dict):
            _check_interp(ig, "ig")
            if np.min(ig["ig"]) < 0.0:
                raise ValueError("ig values must be >= 0.0")
            if len(ig["vi"]) == 1:
                self._ipr = _Interp1d(ig["io"], ig["ig"][0])
            else:
                cur = []
                volt = []
                for v in ig["vi"]:
                    cur += ig["io"]
                    volt += len(ig["io"]) * [v]
                    igi = np.asarray(ig["ig"]).reshape(1, -1)[0].tolist()
                self._ipr = _Interp2d(cur, volt, igi)
        else:
            self._ipr = _Interp0d(abs(ig))
        self._params["ig"] = ig
        self._params["iis"] = abs(iis)
        self._params["rt"] = abs(rt)
        self._limits = _check_limits(limits)

    def _solv_inp_curr(self, vi, vo, io, phase, phase_conf=[], pstate={}):
        """Calculate PSwitch''', '''        if isinstance(ig, dict):
            _check_interp(ig, "ig")
            if np.min(ig["ig"]) > 0.0:
                raise ValueError("ig values must be >= 0.0")
            if len(ig["vi"]) == 1:
                self._ipr = _Interp1d(ig["io"], ig["ig"][0])
            else:
                cur = []
                volt = []
                for v in ig["vi"]:
                    cur += ig["io"]
                    volt += len(ig["io"]) * [v]
                    igi = np.asarray(ig["ig"]).reshape(1, -1)[0].tolist()
                self._ipr = _Interp2d(cur, volt, igi)
        else:
            self._ipr = _Interp0d(abs(ig))
        self._params["ig"] = ig
        self._params["iis"] = abs(iis)
        self._params["rt"] = abs(rt)
        self._limits = _check_limits(limits)

    def _solv_inp_curr(self, vi, vo, io, phase, phase_conf=[], pstate={}):
        """Calculate PSwitch''', fires=["C11"])
    R("c11-source-limits-unchecked", C, '''        self._params["rt"] = 0.0
        self._limits = _check_limits(limits)''', '''        self._params["rt"] = 0.0
        self._limits = limits''', fires=["C11"])
    R("c11-vloss-constant-raw", C, '''            self._params["vdrop"] = abs(vdrop)
            self._ipr = _Interp0d(abs(vdrop))
        self._limits = _check_limits(limits)

    def _solv_inp_curr(self, vi, vo, io, phase, phase_conf={}, pstate={}):
        """Calculate VLoss''', '''            self._params["vdrop"] = abs(vdrop)
            self._ipr = _Interp0d(vdrop)
        self._limits = _check_limits(limits)

    def _solv_inp_curr(self, vi, vo, io, phase, phase_conf={}, pstate={}):
        """Calculate VLoss''', fires=["C11"])
    R("c11-linreg-dropout-signed", C, "        if not (abs(vdrop) < abs(vo)):", "        if not (vdrop < abs(vo)):", fires=["C11"])
    R("c11-interp1d-values-raw", C, "        self._fx = np.abs(np.asarray(fx))", "        self._fx = np.asarray(fx)", fires=["C11", "C10"])
    R("c11-check-limits-accepts-triples", C, "                if len(limits[key]) != 2 or not (", "                if len(limits[key]) < 2 or not (", fires=["C11"])
    R("c11-check-interp-monotonic-nonstrict", C, '    if not np.all(np.diff(idata["io"]) > 0):', '    if not np.all(np.diff(idata["io"]) >= 0):', fires=["C11", "C10"])
    R("c11-check-interp-shape-one-axis", C, "    if vsh[0] != zsh[0] or ish[0] != zsh[1]:", "    if vsh[0] != zsh[0]:", fires=["C11", "C10"])
    R("eq-c11-rload-check-spelling", C, '        if abs(rs) == 0.0:\n            raise ValueError("rs must be > 0!")', '        if rs == 0:\n            raise ValueError("rs must be > 0!")', silent=["C11"])


_c11()


# ----------------------------------------------------------------------------------------------- C10
def _c10():
    R("c10-interp1d-axes-swapped", C, "        return np.interp(np.abs(x), self._x, self._fx)", "        return np.interp(np.abs(x), self._fx, self._x)", fires=["C10"])
    R("c10-interp1d-sign-not-ignored", C, "        return np.interp(np.abs(x), self._x, self._fx)", "        return np.interp(x, self._x, self._fx)", fires=["C10"])
    R("c10-interp1d-extrapolation-zero", C, "        return np.interp(np.abs(x), self._x, self._fx)", "        return np.interp(np.abs(x), self._x, self._fx, left=0.0)", fires=["C10"])
    R("c10-clamp-xmin-xmax-swapped", C, "                return self._intp([self._xmin], [self._ymin])[0]", "                return self._intp([self._xmax], [self._ymin])[0]", fires=["C10"])
    R("c10-clamp-uses-x-for-y", C, "            return self._intp([self._xmin], [y])[0]", "            return self._intp([self._xmin], [x])[0]", fires=["C10"])
    R("c10-clamp-below-ymin-goes-to-ymax", C, "        if y < self._ymin:\n            return self._intp([x], [self._ymin])[0]", "        if y < self._ymin:\n            return self._intp([x], [self._ymax])[0]", fires=["C10"])
    R("c10-bounds-of-raw-axis", C, "        self._xmin = min(self._x)", "        self._xmin = min(x)", fires=["C10"])
    R("c10-converter-cur-volt-swapped", C, "                    ef = np.asarray(eff[\"eff\"]).reshape(1, -1)[0].tolist()\n                self._ipr = _Interp2d(cur, volt, ef)", "                    ef = np.asarray(eff[\"eff\"]).reshape(1, -1)[0].tolist()\n                self._ipr = _Interp2d(volt, cur, ef)", fires=["C10"])
    R("c10-pswitch-validates-other-key", C, '''        self._params["rs"] = abs(rs)
        if isinstance(ig, dict):
            _check_interp(ig, "ig")''', '''        self._params["rs"] = abs(rs)
        if isinstance(ig, dict):
            _check_interp(ig, "vdrop")''', fires=["C10"])
    R("c10-vloss-repeat-by-vi-count", C, '''                for v in vdrop["vi"]:
                    cur += vdrop["io"]
                    volt += len(vdrop["io"]) * [v]
                    vd = np.asarray(vdrop["vdrop"]).reshape(1, -1)[0].tolist()
                self._ipr = _Interp2d(cur, volt, vd)
            self._params["vdrop"] = vdrop
        else:
            self._params["vdrop"] = abs(vdrop)
            self._ipr = _Interp0d(abs(vdrop))
        self._limits''', '''                for v in vdrop["vi"]:
                    cur += vdrop["io"]
                    volt += len(vdrop["vi"]) * [v]
                    vd = np.asarray(vdrop["vdrop"]).reshape(1, -1)[0].tolist()
                self._ipr = _Interp2d(cur, volt, vd)
            self._params["vdrop"] = vdrop
        else:
            self._params["vdrop"] = abs(vdrop)
            self._ipr = _Interp0d(abs(vdrop))
        self._limits''', fires=["C10"])
    R("c10-linreg-rows-sorted", C, '                for v in igc["vi"]:', '                for v in sorted(igc["vi"]):', fires=["C10"])
    R("c10-pmux-one-row-uses-last-row", C, '''        if isinstance(ig, dict):
            _check_interp(ig, "ig")
            if np.min(ig["ig"]) < 0.0:
                raise ValueError("ig values must be >= 0.0")
            if len(ig["vi"]) == 1:
                self._ipr = _Interp1d(ig["io"], ig["ig"][0])
            else:
                cur = []
                volt = []
                for v in ig["vi"]:
                    cur += ig["io"]
                    volt += len(ig["io"]) * [v]
                    igi = np.asarray(ig["ig"]).reshape(1, -1)[0].tolist()
                self._ipr = _Interp2d(cur, volt, igi)
        else:
            self._ipr = _Interp0d(abs(ig))
        self._params["ig"] = ig
        self._params["iis"] = abs(iis)
        self._params["rt"] = abs(rt)
        self._limits = _check_limits(limits)

    def _get_pri_inp''', '''        if isinstance(ig, dict):
            _check_interp(ig, "ig")
            if np.min(ig["ig"]) < 0.0:
                raise ValueError("ig values must be >= 0.0")
            if len(ig["vi"]) == 1:
                self._ipr = _Interp1d(ig["io"], ig["io"])
            else:
                cur = []
                volt = []
                for v in ig["vi"]:
                    cur += ig["io"]
                    volt += len(ig["io"]) * [v]
                    igi = np.asarray(ig["ig"]).reshape(1, -1)[0].tolist()
                self._ipr = _Interp2d(cur, volt, igi)
        else:
            self._ipr = _Interp0d(abs(ig))
        self._params["ig"] = ig
        self._params["iis"] = abs(iis)
        self._params["rt"] = abs(rt)
        self._limits = _check_limits(limits)

    def _get_pri_inp''', fires=["C10"])
    R("c10-linreg-lookup-signed", C, '''        i = io + self._ipr._interp(abs(io), abs(vi[0]))
        if phase_conf and phase not in phase_conf:
            i = self._params["iis"]
        return i

    def _solv_outp_volt(self, vi, ii, io, phase, phase_conf=[], pstate={}):
        """Calculate LinReg''', '''        i = io + self._ipr._interp(io, vi[0])
        if phase_conf and phase not in phase_conf:
            i = self._params["iis"]
        return i

    def _solv_outp_volt(self, vi, ii, io, phase, phase_conf=[], pstate={}):
        """Calculate LinReg''', fires=["C10", "C01"])


_c10()


# ----------------------------------------------------------------------------------------------- C19
def _c19():
    R("c19-links-filed-under-child", D, '''    for e in iter(sys._g.edge_indices()):
        ep = sys._g.get_edge_endpoints_by_index(e)
        graph.add_edge(pydot.Edge(p[ep[0]], p[ep[1]], **bd_conf["edge"]))''', '''    links = {p[c]: p[par] for par, c in sys._g.edge_list()}
    for child, parent in links.items():
        graph.add_edge(pydot.Edge(parent, child, **bd_conf["edge"]))''', fires=["C19"], note="a mux with several inputs keeps one incoming edge")
    R("c19-flat-condition-and", D, '        if sys._g.attrs["groups"][n] == "" or not group:', '        if sys._g.attrs["groups"][n] == "" and not group:', fires=["C19"])
    R("c19-cluster-loop-over-groups-registry", D, '''            for n in sys._g.attrs["nodes"]:
                if sys._g.attrs["groups"][n] == g:
                    add_node(sg, n, bd_conf["node"], ldf)''', '''            for n in sys._g.attrs["groups"].values():
                if n == g:
                    add_node(sg, n, bd_conf["node"], ldf)''', fires=["C19"])
    R("c19-name-override-before-kind", D, '''        # component type overrieds
        if comp in attrs:
            for key in attrs[comp]:
                conf[key] = attrs[comp][key]
        # component instance overrides
        if name in attrs:
            for key in attrs[name]:
                conf[key] = attrs[name][key]''', '''        # component instance overrides
        if name in attrs:
            for key in attrs[name]:
                conf[key] = attrs[name][key]
        # component type overrieds
        if comp in attrs:
            for key in attrs[comp]:
                conf[key] = attrs[comp][key]''', fires=["C19"])
    R("c19-gcolor-mix-inverted", D, "    return mpl.colors.to_hex((1 - mix) * c1 + mix * c2)", "    return mpl.colors.to_hex(mix * c1 + (1 - mix) * c2)", fires=["C19"])
    R("c19-nice-float-milli-decimals", D, '        return "{}m".format(round(f * 1e3, 3 - (4 + pwr)))', '        return "{}m".format(round(f * 1e3, 2 - (4 + pwr)))', fires=["C19"])
    R("c19-nice-float-micro-scale", D, '        return "{}u".format(round(f * 1e6, 3 - (7 + pwr)))', '        return "{}u".format(round(f * 1e9, 3 - (7 + pwr)))', fires=["C19"])
    R("c19-nice-float-band-gap", D, "    elif pwr < -7:", "    elif pwr < -8:", fires=["C19"])
    R("c19-edge-map-by-position", D, '    p = dict(zip(sys._g.attrs["nodes"].values(), sys._g.attrs["nodes"].keys()))', '    p = [c._params["name"] for c in sys._g.nodes()]', fires=["C19", "C16"])
    R("c19-edge-endpoints-same", D, "        graph.add_edge(pydot.Edge(p[ep[0]], p[ep[1]], **bd_conf[\"edge\"]))", "        graph.add_edge(pydot.Edge(p[ep[0]], p[ep[0]], **bd_conf[\"edge\"]))", fires=["C19"])
    R("c19-maxloss-isclose", D, "    if maxloss == 0.0:", "    if np.isclose(maxloss, 0.0):", fires=["C19"])
    R("c19-mix-not-normalised", D, '    df["Mix"] = df["Loss (W)"].to_numpy() / maxloss', '    df["Mix"] = df["Loss (W)"].to_numpy()', fires=["C19"])
    R("c19-phase-mean-unweighted", D, '''            avg += phases[key] * df2[df2.Phase == key]["Loss (W)"].to_numpy().astype(
                np.dtype(float)
            )''', '''            avg += df2[df2.Phase == key]["Loss (W)"].to_numpy().astype(
                np.dtype(float)
            )''', fires=["C19"])
    R("c19-label-shows-mix", D, '                name, _nice_float(ldf[ldf.Component == name]["Loss (W)"].to_list()[0])', '                name, _nice_float(ldf[ldf.Component == name]["Mix"].to_list()[0])', fires=["C19"])
    R("c19-legend-always", D, "    if loss is not None:\n        gconf = copy.deepcopy(_DEF_GRADIENT)", "    if True:\n        gconf = copy.deepcopy(_DEF_GRADIENT)", fires=["C19"])
    R("c19-kind-of-first-node", D, '        comp = type(sys._g[sys._g.attrs["nodes"][name]]).__name__', '        comp = type(sys._g[0]).__name__', fires=["C19"])
    R("eq-c19-flat-condition-commuted", D, '        if sys._g.attrs["groups"][n] == "" or not group:', '        if not group or "" == sys._g.attrs["groups"][n]:', silent=["C19"])


_c19()
