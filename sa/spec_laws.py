# Reference laws for the eleven component kinds (DESIGN.md section 3 / appendix C).
#
# THIS FILE IS NEVER IMPORTED OR EXECUTED.  It is parsed with `ast` and summarised by the same engine
# (sa/summ.py) as the repository's own law methods; rule C01-R1 / C04-R1 / C06-R1 compare the two guarded
# summaries row by row of the guard truth table.  The text follows the property statements and the class
# docstrings of components.py, not the repository's code.
#
# Vocabulary: a = abs(vi[0]) input magnitude; STATE_OFF / STATE_DEFAULT the two output states;
# ANY = any value accepted in that position; DONTCARE = the whole row lies outside the property's quantifier
# (e.g. a regulator programmed to 0 V); OFF = the supplying parent reports 'off';
# SLEEP = the component has a phase configuration and the current phase is not in it.
# flake8: noqa


# ---------------------------------------------------------------- Source
def Source__I(self, vi, vo, io, phase, phase_conf, pstate):
    if phase_conf and phase not in phase_conf:
        return 0.0
    if self._params["vo"] == 0.0 or _get_lopt(pstate, "off", 0, False):
        return 0.0
    return io


def Source__V(self, vi, ii, io, phase, phase_conf, pstate):
    if phase_conf and phase not in phase_conf:
        return 0.0, STATE_OFF
    if self._params["vo"] == 0.0 or _get_lopt(pstate, "off", 0, False):
        return 0.0, STATE_OFF
    u = abs(self._params["vo"]) - self._params["rs"] * io      # resistive drop for either polarity
    if u > 0.0:
        return np.sign(self._params["vo"]) * u, STATE_DEFAULT
    raise ValueError("Unstable system")


def Source__P(self, vi, vo, ii, io, ta, phase, phase_conf, pstate):
    if phase_conf and phase not in phase_conf:
        return 0.0, 0.0, ANY, ANY, ANY
    if self._params["vo"] == 0.0 or _get_lopt(pstate, "off", 0, False):
        return 0.0, 0.0, ANY, ANY, ANY
    return abs(self._params["vo"]) * io, self._params["rs"] * io * io, ANY, ANY, ANY


# ---------------------------------------------------------------- loads
def PLoad__I(self, vi, vo, io, phase, phase_conf, pstate):
    if abs(vi[0]) == 0.0 or _get_lopt(pstate, "off", 0, False):
        return 0.0
    if not phase_conf:
        return self._params["pwr"] / abs(vi[0])
    if phase not in phase_conf:
        return self._params["pwrs"] / abs(vi[0])
    return phase_conf[phase] / abs(vi[0])


def ILoad__I(self, vi, vo, io, phase, phase_conf, pstate):
    if abs(vi[0]) == 0.0 or _get_lopt(pstate, "off", 0, False):
        return 0.0
    if not phase_conf:
        return self._params["ii"]
    if phase not in phase_conf:
        return self._params["iis"]
    return abs(phase_conf[phase])


def RLoad__I(self, vi, vo, io, phase, phase_conf, pstate):
    if abs(vi[0]) == 0.0 or _get_lopt(pstate, "off", 0, False):
        return 0.0
    if not phase_conf:
        return abs(vi[0]) / self._params["rs"]
    if phase not in phase_conf:
        return abs(vi[0]) / self._params["rs"]
    return abs(vi[0]) / phase_conf[phase]


def Load__V(self, vi, ii, io, phase, phase_conf, pstate):
    return 0.0, ANY


def Load__P(self, vi, vo, ii, io, ta, phase, phase_conf, pstate):
    if abs(vi) == 0.0 or _get_lopt(pstate, "off", 0, False):
        return 0.0, 0.0, ANY, 0.0, ta
    c = abs(vi) * ii
    if self._params["loss"]:
        return 0.0, c, ANY, self._params["rt"] * c, ta + self._params["rt"] * c
    return c, 0.0, ANY, self._params["rt"] * c, ta + self._params["rt"] * c


# ---------------------------------------------------------------- series losses
def RLoss__I(self, vi, vo, io, phase, phase_conf, pstate):
    if abs(vi[0]) == 0.0 or _get_lopt(pstate, "off", 0, False):
        return 0.0
    return io


def RLoss__V(self, vi, ii, io, phase, phase_conf, pstate):
    if abs(vi[0]) == 0.0 or _get_lopt(pstate, "off", 0, False):
        return 0.0, STATE_OFF
    u = abs(vi[0]) - self._params["rs"] * io
    if u > 0.0:
        return np.sign(vi[0]) * u, STATE_DEFAULT
    raise ValueError("Unstable system")


def RLoss__P(self, vi, vo, ii, io, ta, phase, phase_conf, pstate):
    if abs(vi) == 0.0 or _get_lopt(pstate, "off", 0, False):
        return 0.0, 0.0, ANY, 0.0, ta
    d = self._params["rs"] * io
    if not (abs(vi) - d > 0.0):
        return 0.0, 0.0, ANY, 0.0, ta
    return abs(vi) * ii, d * io, ANY, self._params["rt"] * d * io, ta + self._params["rt"] * d * io


VLoss__I = RLoss__I


def VLoss__V(self, vi, ii, io, phase, phase_conf, pstate):
    if abs(vi[0]) == 0.0 or _get_lopt(pstate, "off", 0, False):
        return 0.0, STATE_OFF
    u = abs(vi[0]) - self._ipr._interp(io, abs(vi[0]))
    if u > 0.0:
        return np.sign(vi[0]) * u, STATE_DEFAULT
    raise ValueError("Unstable system")


def VLoss__P(self, vi, vo, ii, io, ta, phase, phase_conf, pstate):
    if abs(vi) == 0.0 or _get_lopt(pstate, "off", 0, False):
        return 0.0, 0.0, ANY, 0.0, ta
    d = self._ipr._interp(io, abs(vi))
    if not (abs(vi) - d > 0.0):
        return 0.0, 0.0, ANY, 0.0, ta
    return abs(vi) * ii, d * io, ANY, self._params["rt"] * d * io, ta + self._params["rt"] * d * io


# ---------------------------------------------------------------- Converter
def Converter__I(self, vi, vo, io, phase, phase_conf, pstate):
    if abs(vi[0]) == 0.0 or _get_lopt(pstate, "off", 0, False):
        return 0.0
    if self._params["vo"] == 0.0:
        return DONTCARE
    if phase_conf and phase not in phase_conf:
        return self._params["iis"]
    if io == 0.0:
        return self._params["iq"]
    return abs(self._params["vo"]) * io / (abs(vi[0]) * self._ipr._interp(io, abs(vi[0])))


def Converter__V(self, vi, ii, io, phase, phase_conf, pstate):
    if abs(vi[0]) == 0.0 or _get_lopt(pstate, "off", 0, False):
        return 0.0, STATE_OFF
    if phase_conf and phase not in phase_conf:
        return 0.0, STATE_OFF
    return self._params["vo"], STATE_DEFAULT


def Converter__P(self, vi, vo, ii, io, ta, phase, phase_conf, pstate):
    if abs(vi) == 0.0 or _get_lopt(pstate, "off", 0, False):
        return 0.0, 0.0, ANY, 0.0, ta
    if phase_conf and phase not in phase_conf:
        s = self._params["iis"] * abs(vi)
        return s, s, ANY, self._params["rt"] * s, ta + self._params["rt"] * s
    if io == 0.0:
        l = self._params["iq"] * abs(vi)
    else:
        l = abs(vi) * ii * (1.0 - self._ipr._interp(io, abs(vi)))
    return abs(vi) * ii, l, ANY, self._params["rt"] * l, ta + self._params["rt"] * l


# ---------------------------------------------------------------- LinReg
def LinReg__I(self, vi, vo, io, phase, phase_conf, pstate):
    if abs(vi[0]) == 0.0 or _get_lopt(pstate, "off", 0, False):
        return 0.0
    if phase_conf and phase not in phase_conf:
        return self._params["iis"]
    return io + self._ipr._interp(io, abs(vi[0]))


def LinReg__V(self, vi, ii, io, phase, phase_conf, pstate):
    if abs(vi[0]) == 0.0 or _get_lopt(pstate, "off", 0, False):
        return 0.0, STATE_OFF
    if phase_conf and phase not in phase_conf:
        return 0.0, STATE_OFF
    if self._params["vo"] == 0.0:
        return DONTCARE
    m = min(abs(self._params["vo"]), max(abs(vi[0]) - self._params["vdrop"], 0.0))
    return np.sign(self._params["vo"]) * m, STATE_DEFAULT


def LinReg__P(self, vi, vo, ii, io, ta, phase, phase_conf, pstate):
    if abs(vi) == 0.0 or _get_lopt(pstate, "off", 0, False):
        return 0.0, 0.0, ANY, 0.0, ta
    if phase_conf and phase not in phase_conf:
        s = self._params["iis"] * abs(vi)
        return s, s, ANY, self._params["rt"] * s, ta + self._params["rt"] * s
    m = min(abs(self._params["vo"]), max(abs(vi) - self._params["vdrop"], 0.0))
    l = self._ipr._interp(io, abs(vi)) * abs(vi) + (abs(vi) - m) * io
    return abs(vi) * ii, l, ANY, self._params["rt"] * l, ta + self._params["rt"] * l


# ---------------------------------------------------------------- PSwitch
PSwitch__I = LinReg__I


def PSwitch__V(self, vi, ii, io, phase, phase_conf, pstate):
    if abs(vi[0]) == 0.0 or _get_lopt(pstate, "off", 0, False):
        return 0.0, STATE_OFF
    if phase_conf and phase not in phase_conf:
        return 0.0, STATE_OFF
    u = abs(vi[0]) - self._params["rs"] * io
    if u > 0.0:
        return np.sign(vi[0]) * u, STATE_DEFAULT
    raise ValueError("Unstable system")


def PSwitch__P(self, vi, vo, ii, io, ta, phase, phase_conf, pstate):
    if abs(vi) == 0.0 or _get_lopt(pstate, "off", 0, False):
        return 0.0, 0.0, ANY, 0.0, ta
    if phase_conf and phase not in phase_conf:
        s = self._params["iis"] * abs(vi)
        return s, s, ANY, self._params["rt"] * s, ta + self._params["rt"] * s
    l = self._ipr._interp(io, abs(vi)) * abs(vi) + (abs(vi) - abs(vo)) * io
    return abs(vi) * ii, l, ANY, self._params["rt"] * l, ta + self._params["rt"] * l


# ---------------------------------------------------------------- PMux
def PMux__I(self, vi, vo, io, phase, phase_conf, pstate):
    k = self._get_pri_inp(pstate, vi)
    if k == -1:
        return 0.0
    if phase_conf and phase not in phase_conf:
        return self._params["iis"]
    return io + self._ipr._interp(io, abs(vi[k]))


def PMux__V(self, vi, ii, io, phase, phase_conf, pstate):
    k = self._get_pri_inp(pstate, vi)
    if k == -1:
        return 0.0, STATE_OFF
    if isinstance(self._params["rs"], list):
        if len(self._params["rs"]) < len(vi):
            return DONTCARE
        r = abs(self._params["rs"][k])
    else:
        r = self._params["rs"]
    if phase_conf and phase not in phase_conf:
        return 0.0, STATE_OFF
    u = abs(vi[k]) - r * io
    if u > 0.0:
        return np.sign(vi[k]) * u, STATE_DEFAULT
    raise ValueError("Unstable system")


PMux__P = PSwitch__P


# ---------------------------------------------------------------- Rectifier
def Rectifier__I(self, vi, vo, io, phase, phase_conf, pstate):
    if abs(vi[0]) == 0.0 or _get_lopt(pstate, "off", 0, False):
        return 0.0
    if self._params["type"] == "diode":
        return io
    if io == 0.0:
        return self._params["iq"]
    return io + self._ipr._interp(io, abs(vi[0]))


def Rectifier__V(self, vi, ii, io, phase, phase_conf, pstate):
    if abs(vi[0]) == 0.0 or _get_lopt(pstate, "off", 0, False):
        return 0.0, STATE_OFF
    if self._params["type"] == "diode":
        u = abs(vi[0]) - 2 * self._ipr._interp(io, abs(vi[0]))
    else:
        u = abs(vi[0]) - 2 * self._params["rs"] * io
    if u > 0.0:
        return u, STATE_DEFAULT
    raise ValueError("Unstable system")


def Rectifier__P(self, vi, vo, ii, io, ta, phase, phase_conf, pstate):
    if abs(vi) == 0.0 or _get_lopt(pstate, "off", 0, False):
        return 0.0, 0.0, ANY, 0.0, ta
    if self._params["type"] == "diode":
        d = 2 * self._ipr._interp(io, abs(vi))
        if not (abs(vi) - d > 0.0):
            return 0.0, 0.0, ANY, 0.0, ta
        l = d * io
    elif io == 0.0:
        l = self._params["iq"] * abs(vi)
    else:
        l = self._ipr._interp(io, abs(vi)) * abs(vi) + 2 * self._params["rs"] * io * io
    return abs(vi) * ii, l, ANY, self._params["rt"] * l, ta + self._params["rt"] * l
