"""Reference comparison of whole functions: the function under test and a reference text (parsed, never executed) are both
turned into path summaries by the same engine (branch decisions as formulas over canonical atoms, loops as one symbolic
iteration, stores / deletions / effectful calls as ordered events); for every truth assignment of the atoms the path of
the code and the path of the reference that hold must end the same way and leave the same ordered effects.
Independent constant-key stores into the same container commute."""
import ast
import itertools
import os
from .core import AnalysisError, VERIF
from .terms import Unsupported
from .guards import Ctx, And, atoms_of, ev, show_f
from .summ import Sym, ListV, vkey, show_value
from .effects import EditHooks, GuardedSummarizer

EFFECT_CALLS = {"update", "add_node", "add_edge", "add_subgraph", "set", "write", "extend", "insert", "remove", "pop", "clear", "setdefault"}
_SPEC = {}


def spec_function(module, name):
    if module not in _SPEC:
        with open(os.path.join(VERIF, "sa", module + ".py")) as f:
            _SPEC[module] = {n.name: n for n in ast.parse(f.read()).body if isinstance(n, ast.FunctionDef)}
    if name not in _SPEC[module]:
        raise AnalysisError("no reference text %s.%s" % (module, name))
    return _SPEC[module][name]


class RefHooks(EditHooks):
    """EditHooks + the pandas spellings of `first element of a selection`"""

    def call(self, sm, node, fname, args, kwargs, st):
        f = node.func
        if isinstance(f, ast.Attribute) and f.attr in ("to_list", "tolist") and not args:
            return Sym(("aslist", vkey(sm.expr(f.value, st))))
        return super().call(sm, node, fname, args, kwargs, st)

    def subscript(self, base, idx):
        from .terms import RF
        zero = isinstance(idx, RF) and idx.is_const() and idx.const_value() == 0
        if zero and isinstance(base, Sym) and base.key[0] == "aslist":
            return Sym(("first", base.key[1]))
        if zero and isinstance(base, Sym) and base.key[0] == "attr" and base.key[2] in ("values", "iloc"):
            return Sym(("first", vkey(base.key[1])))
        return None


def effects_of(leaf):
    out = []
    for e in leaf.events:
        if e[0] == "store":
            out.append(("store", vkey(e[1][1]) if len(e[1]) > 1 else None, e[1][0], vkey(e[1][2]) if len(e[1]) > 2 else None, vkey(e[2])))
        elif e[0] == "del":
            out.append(("del", vkey(e[1])))
        elif e[0] == "effect":
            out.append(("effect", e[2], e[3]))
        elif e[0] == "call" and e[1].split(".")[-1] in EFFECT_CALLS:
            out.append(("call", e[1].split(".")[-1], e[5] if len(e) > 5 else None, e[2], e[3]))
        elif e[0] == "loop":
            out.append(("loop", e[1]))
        elif e[0] == "endloop":
            out.append(("endloop",))
    # stores with distinct constant keys into one container commute: sort each maximal run of them
    res, run = [], []

    def flush():
        res.extend(sorted(run, key=repr))
        run.clear()
    for x in out:
        if x[0] == "store" and x[2] == "sub" and isinstance(x[3], str):
            if any(y[1] == x[1] and y[3] == x[3] for y in run):
                flush()
            run.append(x)
        else:
            flush()
            res.append(x)
    flush()
    return res


def signature(leaf):
    val = vkey(leaf.value) if leaf.kind == "return" else (leaf.exc if leaf.kind == "raise" else None)
    return (leaf.kind if leaf.kind in ("return", "raise") else "fall", val, tuple(effects_of(leaf)))


def show_effect(x):
    if x[0] == "store":
        return "%s[%s] = %s" % (show_value(x[1])[:40], show_value(x[3])[:50], show_value(x[4])[:110]) if x[2] == "sub" else "%s.%s = %s" % (show_value(x[1])[:40], x[3], show_value(x[4])[:110])
    return " ".join(show_value(y)[:80] if not isinstance(y, str) else y for y in x)


def compare(model, roles_, code_fn, ref_fn, rep, rule, construct, where, what, free=()):
    """-> True when every feasible pair of paths agrees; violations are reported with the first differing effect"""
    def summarise(fn, pnames):
        sm = GuardedSummarizer(RefHooks(model, roles_, ()), Ctx())
        a = fn.args
        params = [x.arg for x in a.posonlyargs + a.args + a.kwonlyargs]
        if len(params) != len(pnames):
            raise AnalysisError("%s: %d parameters, the reference has %d" % (what, len(params), len(pnames)))
        env = {p: Sym(("name", q)) for p, q in zip(params, pnames)}
        for f in free:
            env.setdefault(f, Sym(("name", f)))
        try:
            return sm.summarize(fn, env)
        except Unsupported as e:
            raise AnalysisError("%s: %s" % (what, e))
    ra = ref_fn.args
    pn = [x.arg for x in ra.posonlyargs + ra.args + ra.kwonlyargs]
    cl, rl = summarise(code_fn, pn), summarise(ref_fn, pn)
    atoms = set()
    for lf in cl + rl:
        for g in lf.guards:
            atoms |= atoms_of(g)
    atoms = sorted(atoms, key=repr)
    if len(atoms) > 14:
        raise AnalysisError("%s: %d guard atoms" % (what, len(atoms)))
    ok, rows, reported = True, 0, set()
    for bits in itertools.product((False, True), repeat=len(atoms)):
        al = dict(zip(atoms, bits))
        c = [lf for lf in cl if ev(And(*lf.guards), al) is True]
        r = [lf for lf in rl if ev(And(*lf.guards), al) is True]
        if not r:
            continue           # the reference has no path here: the combination is infeasible
        if len(c) != 1 or len(r) != 1:
            if len(c) == 0:
                continue
            raise AnalysisError("%s: %d code / %d reference paths hold together" % (what, len(c), len(r)))
        rows += 1
        sc, sr = signature(c[0]), signature(r[0])
        if sc == sr:
            continue
        ok = False
        if sc[0] != sr[0] or sc[1] != sr[1]:
            msg = "ends with %s %s, expected %s %s" % (sc[0], show_value(c[0].value) if c[0].kind == "return" else (sc[1] or ""), sr[0], show_value(r[0].value) if r[0].kind == "return" else (sr[1] or ""))
        else:
            ec, er = list(sc[2]), list(sr[2])
            k = 0
            while k < min(len(ec), len(er)) and ec[k] == er[k]:
                k += 1
            got = show_effect(ec[k]) if k < len(ec) else "nothing more"
            exp = show_effect(er[k]) if k < len(er) else "nothing more"
            msg = "effect %d is `%s`, expected `%s`" % (k + 1, got, exp)
        key = msg[:160]
        if key in reported:
            continue
        reported.add(key)
        rep.violation(rule, construct, where, "%s: when {%s} it %s" % (what, show_f(And(*r[0].guards))[:200], msg), "%s: %s" % (what, key))
    return ok, rows
