"""Reference comparison of whole functions: the function under test and a reference text (parsed, never executed) are both
turned into path summaries by the same engine (branch decisions as formulas over canonical atoms, loops as one symbolic
iteration, stores / deletions / effectful calls as ordered events); for every truth assignment of the atoms the path of
the code and the path of the reference that hold must end the same way and leave the same ordered effects.
Independent constant-key stores into the same container commute."""
import ast
import itertools
import os
from .core import AnalysisError, VERIF
from .terms import Unsupported
from .guards import Ctx, And, atoms_of, ev, show_f, show_key
from .summ import Sym, ListV, DictV, vkey, show_value
from .effects import EditHooks, GuardedSummarizer

EFFECT_CALLS = {"update", "add_node", "add_edge", "add_subgraph", "set", "write", "extend", "insert", "remove", "pop", "clear", "setdefault"}
_SPEC = {}


def spec_function(module, name):
    if module not in _SPEC:
        with open(os.path.join(VERIF, "sa", module + ".py")) as f:
            _SPEC[module] = {n.name: n for n in ast.parse(f.read()).body if isinstance(n, ast.FunctionDef)}
    if name not in _SPEC[module]:
        raise AnalysisError("no reference text %s.%s" % (module, name))
    return _SPEC[module][name]


class RefHooks(EditHooks):
    """EditHooks + the pandas spellings of `first element of a selection`; helpers of the module under test are read as
    part of their caller, except the functions the reference text itself names (its vocabulary)"""
    mod = None
    vocabulary = frozenset()

    def inline(self, fname):
        r = super().inline(fname)
        if r is not None:
            return r
        if self.mod and fname.isidentifier() and fname not in self.vocabulary and (self.mod, fname) in self.model.funcs:
            return self.model.funcs[(self.mod, fname)], False
        # a method the inventory does not know (a helper the canonical form could not write out): read as part of its caller
        if fname.startswith("self.") and fname[5:].isidentifier() and fname[5:] in getattr(self.model, "new_names", ()):
            for cname, (cmod, cnode) in self.model.classes.items():
                for m in cnode.body:
                    if isinstance(m, ast.FunctionDef) and m.name == fname[5:] and not m.decorator_list:
                        return m, True
        return None

    def call(self, sm, node, fname, args, kwargs, st):
        f = node.func
        if isinstance(f, ast.Attribute) and f.attr in ("to_list", "tolist") and not args:
            return Sym(("aslist", vkey(sm.expr(f.value, st))))
        if fname == "iter" and len(args) == 1 and not kwargs:
            return args[0]
        # list(dict.fromkeys(X)): X without its later duplicates, order kept
        if fname == "list" and len(node.args) == 1 and isinstance(node.args[0], ast.Call) and ast.unparse(node.args[0].func) == "dict.fromkeys" and len(node.args[0].args) == 1:
            return Sym(("DEDUP", vkey(sm.expr(node.args[0].args[0], st))))
        # a deep copy has the value of its argument; who may be written through whom is the alias rules' business (C17-R1, C19-R3)
        if fname in ("copy.deepcopy", "deepcopy") and len(args) == 1 and not kwargs:
            return args[0]
        # dict(zip(D.values(), D.keys())): the inverse map of D
        if fname == "dict" and len(node.args) == 1 and isinstance(node.args[0], ast.Call) and isinstance(node.args[0].func, ast.Name) and node.args[0].func.id == "zip" \
                and len(node.args[0].args) == 2:
            a, b = node.args[0].args
            if all(isinstance(x, ast.Call) and isinstance(x.func, ast.Attribute) and not x.args for x in (a, b)) and a.func.attr == "values" and b.func.attr == "keys" \
                    and ast.dump(a.func.value) == ast.dump(b.func.value):
                return Sym(("INVERSE", vkey(sm.expr(a.func.value, st))))
        r = super().call(sm, node, fname, args, kwargs, st)
        if isinstance(r, Sym) and isinstance(r.key, tuple) and len(r.key) == 4 and r.key[0] == "graph":
            return Sym(r.key[:3] + (0,))      # the result of a graph call, wherever in the file the call stands
        return r

    def comprehension(self, sm, n, st):
        # {v: k for k, v in D.items()}: the inverse map of D
        if isinstance(n, ast.DictComp) and len(n.generators) == 1 and not n.generators[0].ifs:
            g = n.generators[0]
            if isinstance(g.target, ast.Tuple) and len(g.target.elts) == 2 and all(isinstance(e, ast.Name) for e in g.target.elts) \
                    and isinstance(g.iter, ast.Call) and isinstance(g.iter.func, ast.Attribute) and g.iter.func.attr == "items" and not g.iter.args \
                    and isinstance(n.key, ast.Name) and isinstance(n.value, ast.Name) and n.key.id == g.target.elts[1].id and n.value.id == g.target.elts[0].id:
                return Sym(("INVERSE", vkey(sm.expr(g.iter.func.value, st))))
        return super().comprehension(sm, n, st)

    def subscript(self, base, idx):
        from .terms import RF
        zero = isinstance(idx, RF) and idx.is_const() and idx.const_value() == 0
        if zero and isinstance(base, Sym) and base.key[0] == "aslist":
            return Sym(("first", base.key[1]))
        if zero and isinstance(base, Sym) and base.key[0] == "attr" and base.key[2] in ("values", "iloc"):
            return Sym(("first", vkey(base.key[1])))
        return None


def effects_of(leaf):
    out = []
    for e in leaf.events:
        if e[0] == "store":
            out.append(("store", vkey(e[1][1]) if len(e[1]) > 1 else None, e[1][0], vkey(e[1][2]) if len(e[1]) > 2 else None, vkey(e[2])))
        elif e[0] == "del":
            out.append(("del", vkey(e[1])))
        elif e[0] == "effect":
            out.append(("effect", e[2], e[3]))
        elif e[0] == "call" and "." in e[1] and e[1].split(".")[-1] == "update" and len(e[2]) == 1 and not e[3] and isinstance(e[2][0], DictV) \
                and e[2][0].items and all(isinstance(k, str) for k, _ in e[2][0].items) and len(e) > 5 and e[5] is not None:
            # X.update({"a": p, "b": q}) is X["a"] = p; X["b"] = q
            for k, v in e[2][0].items:
                out.append(("store", e[5], "sub", k, vkey(v)))
        elif e[0] == "call" and "." in e[1] and e[1].split(".")[-1] in EFFECT_CALLS:
            out.append(("call", e[1].split(".")[-1], e[5] if len(e) > 5 else None, e[2], e[3]))
        elif e[0] == "loop":
            out.append(("loop", e[1]))
        elif e[0] == "endloop":
            out.append(("endloop",))
    # stores with distinct constant keys into one container commute: sort each maximal run of them
    res, run = [], []

    def flush():
        res.extend(sorted(run, key=repr))
        run.clear()
    for x in out:
        if x[0] == "store" and x[2] == "sub" and isinstance(x[3], str):
            if any(y[1] == x[1] and y[3] == x[3] for y in run):
                flush()
            run.append(x)
        else:
            flush()
            res.append(x)
    flush()
    return res


def signature(leaf):
    val = vkey(leaf.value) if leaf.kind == "return" else (leaf.exc if leaf.kind == "raise" else None)
    kind = leaf.kind if leaf.kind in ("return", "raise") else "fall"
    if kind == "return" and val is None:
        kind = "fall"
    return (kind, val, tuple(effects_of(leaf)))


def show_effect(x):
    if x[0] == "store":
        return "%s[%s] = %s" % (show_value(x[1])[:40], show_value(x[3])[:50], show_value(x[4])[:110]) if x[2] == "sub" else "%s.%s = %s" % (show_value(x[1])[:40], x[3], show_value(x[4])[:110])
    return " ".join(show_value(y)[:80] if not isinstance(y, str) else y for y in x)


def compare(model, roles_, code_fn, ref_fn, rep, rule, construct, where, what, free=(), mod=None, closed=False):
    """-> True when every feasible pair of paths agrees; violations are reported with the first differing effect.
    closed: the code may decide only on conditions and iterate only over collections the reference names; anything else
    is a shape this comparison does not pair reliably and is an analysis error, never a verdict"""
    nested = {x.name for x in ast.walk(ref_fn) if isinstance(x, ast.FunctionDef)}
    vocab = frozenset(c.func.id for c in ast.walk(ref_fn) if isinstance(c, ast.Call) and isinstance(c.func, ast.Name)) - nested

    def summarise(fn, pnames):
        hooks = RefHooks(model, roles_, ())
        hooks.mod, hooks.vocabulary = mod, vocab
        sm = GuardedSummarizer(hooks, Ctx())
        a = fn.args
        params = [x.arg for x in a.posonlyargs + a.args + a.kwonlyargs]
        if len(params) != len(pnames):
            raise AnalysisError("%s: %d parameters, the reference has %d" % (what, len(params), len(pnames)))
        env = {p: Sym(("name", q)) for p, q in zip(params, pnames)}
        for f in free:
            env.setdefault(f, Sym(("name", f)))
        try:
            return sm.summarize(fn, env)
        except Unsupported as e:
            raise AnalysisError("%s: %s" % (what, e))
    ra = ref_fn.args
    pn = [x.arg for x in ra.posonlyargs + ra.args + ra.kwonlyargs]
    cl, rl = summarise(code_fn, pn), summarise(ref_fn, pn)
    from .guards import literals
    # pair the paths directly: a code path and a reference path are compared when their guards can hold together
    def split(lf):
        lits = {}
        rest = []
        for g in lf.guards:
            before = dict(lits)
            try:
                literals(g, True, lits)
            except Exception:
                lits = before
            # keep every guard the literals do not say completely: a conjunction such as `not a and not (b and c)` yields the literal
            # a = False, and the part `not (b and c)` must not be lost
            if g is not True and not (set(atoms_of(g)) <= set(lits) and ev(g, lits) is True):
                rest.append(g)
        return lits, rest
    cs = [(lf, split(lf), signature(lf)) for lf in cl]
    rs = [(lf, split(lf), signature(lf)) for lf in rl]

    new_names = getattr(model, "new_names", set())

    def unread(x):
        if isinstance(x, Sym):
            if new_names and isinstance(x.key, tuple) and len(x.key) >= 2 and x.key[0] == "call" and isinstance(x.key[1], str) and x.key[1].split(".")[-1] in new_names:
                return "call to %s, which the inventory does not know and which could not be written out," % x.key[1]
            if new_names and isinstance(x.key, tuple) and len(x.key) >= 3 and x.key[0] == "mcall" and isinstance(x.key[2], str) and x.key[2] in new_names:
                return "call to %s, which the inventory does not know and which could not be written out," % x.key[2]
            if isinstance(x.key, tuple) and x.key and x.key[0] in ("comp", "lambda"):
                return x.key[0]
            if isinstance(x.key, tuple) and len(x.key) >= 2 and x.key[0] == "call" and isinstance(x.key[1], str) and \
                    (x.key[1] in ("dict.fromkeys", "map", "filter", "zip", "sorted", "reversed", "enumerate") or x.key[1].split(".")[0] in ("itertools", "functools", "operator")):
                return "call:" + x.key[1]
            if isinstance(x.key, tuple) and len(x.key) >= 3 and x.key[0] == "mcall" and x.key[2] in ("fromkeys",):
                return "call:" + str(x.key[2])
            return unread(x.key)
        if isinstance(x, (tuple, list)):
            for y in x:
                u = unread(y)
                if u:
                    return u
        if isinstance(x, ListV):
            return unread(x.items)
        return None
    for lf, _, sig in cs:
        u = unread(sig) or unread([e[1] for e in lf.events if e[0] == "loop"])
        if u:
            raise AnalysisError("%s: the code contains a %s the summary engine does not read" % (what, {"comp": "comprehension", "lambda": "lambda"}.get(u, u)))

    if closed:
        def vocab_of(ls):
            at, lp = set(), set()
            for lf, (lits, rest), _ in ls:
                at |= set(lits)
                for g in rest:
                    at |= set(atoms_of(g))
                lp |= {repr(vkey(e[1])) for e in lf.events if e[0] == "loop"}
            return at, lp
        (ca, cloops), (ra_, rloops) = vocab_of(cs), vocab_of(rs)
        if ca - ra_:
            raise AnalysisError("%s: decides on a condition the reference does not name: %s" % (what, show_key(sorted(ca - ra_, key=repr)[0])[:120]))
        if cloops - rloops:
            raise AnalysisError("%s: iterates over a collection the reference does not name: %s" % (what, sorted(cloops - rloops)[0][:120]))

    def together(a, b):
        la, ra = a
        lb, rb = b
        for k, v in la.items():
            if k in lb and lb[k] != v:
                return False
        rest = ra + rb
        if not rest:
            return True
        al0 = dict(la)
        al0.update(lb)
        free = sorted({x for g in rest for x in atoms_of(g)} - set(al0), key=repr)
        if len(free) > 12:
            raise AnalysisError("%s: %d free guard atoms in one pair of paths" % (what, len(free)))
        for bits in itertools.product((False, True), repeat=len(free)):
            al = dict(al0)
            al.update(zip(free, bits))
            if all(ev(g, al) is True for g in rest):
                return True
        return False
    ok, rows, reported = True, 0, set()
    for c, sc_, sigc in cs:
        matched = False
        for r_, sr_, sigr in rs:
            if not together(sc_, sr_):
                continue
            matched = True
            rows += 1
            if sigr[0] == "fall" and sigc[0] == "return":
                # the reference is a procedure (it returns nothing on this path): what the code additionally hands back to its caller is
                # no part of the state the comparison is about
                sigc = ("fall", None, sigc[2])
            if sigc == sigr:
                continue
            ok = False
            if sigc[0] != sigr[0] or sigc[1] != sigr[1]:
                msg = "ends with %s %s, expected %s %s" % (sigc[0], show_value(c.value) if c.kind == "return" else (sigc[1] or ""), sigr[0], show_value(r_.value) if r_.kind == "return" else (sigr[1] or ""))
            else:
                ec, er = list(sigc[2]), list(sigr[2])
                k = 0
                while k < min(len(ec), len(er)) and ec[k] == er[k]:
                    k += 1
                got = show_effect(ec[k]) if k < len(ec) else "nothing more"
                exp = show_effect(er[k]) if k < len(er) else "nothing more"
                msg = "effect %d is `%s`, expected `%s`" % (k + 1, got, exp)
            key = msg[:160]
            if key in reported:
                continue
            reported.add(key)
            rep.violation(rule, construct, where, "%s: when {%s} it %s" % (what, show_f(And(*r_.guards))[:200], msg), "%s: %s" % (what, key))
    return ok, rows
