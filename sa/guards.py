"""Guard formulas over canonical atoms, and the translation of comparisons into them.

Formula := True | False | ('A', key) | ('N', f) | ('&', (f..)) | ('|', (f..))
Atom keys:
  ('Z', atom)      the term atom is zero
  ('SP', rf)       the sign monomial rf equals +1
  ('POS', rf)      rf > 0            (rf normalised by a positive scale only: x>y and y>x stay different atoms)
  ('ZP', rf)       polynomial rf == 0 (normalised up to sign)
  ('B', ...)       named boolean (OFF[i], PC, IN, ...)
  ('EQ', a, b)     equality of two non-numeric symbolic values
  ('T', v)         truthiness of a symbolic value
"""
from fractions import Fraction
from .terms import RF, lift, is_sign, is_nn, _split, Unsupported, abs_, sign_, show, show_atom, ONE_M


def A(key):
    return ("A", key)


def Not(f):
    if f is True:
        return False
    if f is False:
        return True
    if f[0] == "N":
        return f[1]
    return ("N", f)


def And(*fs):
    out = []
    for f in fs:
        if f is False:
            return False
        if f is True:
            continue
        if f[0] == "&":
            out.extend(f[1])
        else:
            out.append(f)
    if not out:
        return True
    if len(out) == 1:
        return out[0]
    return ("&", tuple(out))


def Or(*fs):
    out = []
    for f in fs:
        if f is True:
            return True
        if f is False:
            continue
        if f[0] == "|":
            out.extend(f[1])
        else:
            out.append(f)
    if not out:
        return False
    if len(out) == 1:
        return out[0]
    return ("|", tuple(out))


def atoms_of(f, acc=None):
    acc = set() if acc is None else acc
    if f is True or f is False:
        return acc
    if f[0] == "A":
        acc.add(f[1])
    elif f[0] == "N":
        atoms_of(f[1], acc)
    else:
        for g in f[1]:
            atoms_of(g, acc)
    return acc


def ev(f, alpha):
    """three-valued evaluation: True / False / None (unknown atom)"""
    if f is True or f is False:
        return f
    if f[0] == "A":
        return alpha.get(f[1])
    if f[0] == "N":
        v = ev(f[1], alpha)
        return None if v is None else (not v)
    vals = [ev(g, alpha) for g in f[1]]
    if f[0] == "&":
        if any(v is False for v in vals):
            return False
        return None if any(v is None for v in vals) else True
    if any(v is True for v in vals):
        return True
    return None if any(v is None for v in vals) else False


def literals(f, pos=True, acc=None):
    """atom -> bool forced by a formula that is a conjunction of literals; compound parts are skipped"""
    acc = {} if acc is None else acc
    if f is True or f is False:
        return acc
    if f[0] == "A":
        acc[f[1]] = pos
    elif f[0] == "N":
        literals(f[1], not pos, acc)
    elif (f[0] == "&" and pos) or (f[0] == "|" and not pos):
        for g in f[1]:
            literals(g, pos, acc)
    return acc


def show_f(f):
    if f is True:
        return "T"
    if f is False:
        return "F"
    if f[0] == "A":
        return show_key(f[1])
    if f[0] == "N":
        return "not(" + show_f(f[1]) + ")"
    return "(" + (" and " if f[0] == "&" else " or ").join(show_f(g) for g in f[1]) + ")"


def show_key(k):
    t = k[0]
    if t == "Z":
        return show_atom(k[1]) + "==0"
    if t == "SP":
        return show(k[1]) + "==+1"
    if t == "POS":
        return show(k[1]) + ">0"
    if t == "ZP":
        return show(k[1]) + "==0"
    if t == "B":
        return "".join(str(x) if i == 0 else "[%s]" % (x,) for i, x in enumerate(k[1:]))
    if t == "EQ":
        return "%s==%s" % (show_v(k[1]), show_v(k[2]))
    if t == "T":
        return "truthy(%s)" % show_v(k[1])
    if t == "IN":
        return "%s in %s" % (show_v(k[1]), show_v(k[2]))
    return repr(k)


def show_v(v):
    from .summ import show_value
    return show_value(v)


# ------------------------------------------------------------------ context (mode facts and row facts)
class Ctx:
    """known: atom key -> bool (folded when a formula is built); pos: set of normalised RF known > 0;
    neg: known < 0"""

    def __init__(self, known=None, pos=(), neg=()):
        self.known = dict(known or {})
        self.pos = set(pos)
        self.neg = set(neg)

    def sign_of(self, r):
        n = norm_pos(r)
        if n in self.pos:
            return RF.const(1)
        if n in self.neg:
            return RF.const(-1)
        m = norm_pos(-r)
        if m in self.pos:
            return RF.const(-1)
        if m in self.neg:
            return RF.const(1)
        return None

    def fold(self, key):
        v = self.known.get(key)
        return A(key) if v is None else v


def norm_pos(r):
    """divide by |leading coefficient| (polynomial) - canonical representative under positive scaling"""
    r = lift(r)
    if not r.is_poly() or r.is_zero():
        return r
    c, M, R = _split(r.num)
    return r / abs(c)


def norm_pm(r):
    """canonical representative under scaling by any non-zero constant"""
    r = lift(r)
    if not r.is_poly() or r.is_zero():
        return r
    c, M, R = _split(r.num)
    return r / c


# ------------------------------------------------------------------ comparisons
def f_zero(t, ctx):
    """formula for  t == 0"""
    t = lift(t)
    if t.is_zero():
        return True
    if t.is_const():
        return False
    if len(t.num) == 1:
        (m, c), = t.num.items()
        fs = [ctx.fold(("Z", a)) for a, e in m if not is_sign(a)]
        return Or(*fs) if fs else False
    return ctx.fold(("ZP", norm_pm(RF(dict(t.num)))))


def _f_sp(sigma, ctx):
    """formula for: sign monomial sigma (coef +-1 times sign atoms) == +1"""
    st = sigma.single_term()
    if st is None:
        raise Unsupported("sign product is not a monomial")
    c, m = st
    if not m:
        return c > 0
    pure = RF({m: Fraction(1)})
    f = ctx.fold(("SP", pure))
    return f if c > 0 else Not(f)


def _int_len_poly(t):
    """c0 + sum(ci * len(Xi)) with integer coefficients (and at least one length): an integer"""
    if not t.is_poly() or not t.num:
        return False
    seen = False
    for m, c in t.num.items():
        if c.denominator != 1:
            return False
        if len(m) == 0:
            continue
        if len(m) != 1:
            return False
        (a, e), = m
        if e != 1 or not (isinstance(a, tuple) and len(a) == 2 and a[0] == "nn" and hasattr(a[1], "key") and isinstance(a[1].key, tuple) and a[1].key and a[1].key[0] == "len"):
            return False
        seen = True
    return seen


def f_pos(t, ctx, _oriented=False):
    """formula for  t > 0"""
    t = lift(t)
    if t.is_zero():
        return False
    if t.is_const():
        return t.const_value() > 0
    if not _oriented and _int_len_poly(t):
        # over the integers  t > 0  is  not (1 - t > 0): one atom for a question and its negation, whichever way round it was asked
        lead = sorted(((repr(m), c) for m, c in t.num.items() if len(m)), key=lambda x: x[0])[0][1]
        if lead < 0:
            return Not(f_pos(RF.const(1) - t, ctx, True))
    # bring the denominator up when its sign is known
    if not t.is_poly():
        if len(t.den) == 1 and RF(dict(t.den)).is_nonneg():
            t = RF(dict(t.num))
        else:
            return ctx.fold(("POS", t))
    if len(t.num) == 1:
        (m, c), = t.num.items()
        if all(is_sign(a) or is_nn(a) or e % 2 == 0 for a, e in m):
            sigma = RF({frozenset((a, e) for a, e in m if is_sign(a)): Fraction(1 if c > 0 else -1)})
            nz = [Not(ctx.fold(("Z", a))) for a, e in m if not is_sign(a)]
            return And(_f_sp(sigma, ctx), *nz)
    s = ctx.sign_of(t)
    if s is not None:
        return s.const_value() > 0
    if t.is_nonneg():
        # a sum of non-negative terms is positive iff one of its terms is non-zero
        return Or(*[And(*[Not(ctx.fold(("Z", a))) for a, e in m if not is_sign(a)]) for m in t.num])
    if (-t).is_nonneg():
        return False
    return ctx.fold(("POS", norm_pos(t)))


def f_cmp(op, a, b, ctx):
    a, b = lift(a), lift(b)
    if op == "==":
        return f_zero(a - b, ctx)
    if op == "!=":
        return Not(f_zero(a - b, ctx))
    if op == ">":
        return f_pos(a - b, ctx)
    if op == "<":
        return f_pos(b - a, ctx)
    if op == ">=":
        return Not(f_pos(b - a, ctx))
    if op == "<=":
        return Not(f_pos(a - b, ctx))
    raise Unsupported("comparison " + op)


def f_sign_eq(ta, tb, ctx):
    """formula for np.sign(x) == np.sign(y) given the two sign terms ta, tb (built by terms.sign_)"""
    if ta.is_const() and tb.is_const():
        return ta.const_value() == tb.const_value()
    prod = ta * tb
    # pure sign monomial: equal iff product is +1 (both sides are +-1)
    st = prod.single_term()
    if st is not None and all(is_sign(a) for a, _ in st[1]) and abs(st[0]) == 1 and not ta.is_zero() and not tb.is_zero():
        return _f_sp(prod, ctx)
    # sigma * SGN[r] against a pure sign: (tau=+1 and r>0) or (tau=-1 and r<0)
    if st is not None and abs(st[0]) == 1:
        sg = [a for a, e in st[1] if a[0] == "SGN"]
        if len(sg) == 1 and all(is_sign(a) or a is sg[0] for a, _ in st[1]):
            # exactly one side may carry the SGN atom; the other must be a pure non-zero sign
            pure_side = tb if sg[0] in ta.atoms() else ta
            if all(is_sign(a) for a in pure_side.atoms()) and not pure_side.is_zero():
                r = sg[0][1]
                tau = RF({frozenset((a, e) for a, e in st[1] if is_sign(a)): Fraction(st[0])})
                return Or(And(_f_sp(tau, ctx), f_pos(r, ctx)), And(_f_sp(-tau, ctx), f_pos(-r, ctx)))
    return f_zero(ta - tb, ctx)


# ------------------------------------------------------------------ row facts
def facts_from(alpha, base_ctx=None, derive=True):
    """substitution map and context implied by an assignment of the atoms"""
    mp = {}
    ctx = Ctx(known=dict(base_ctx.known) if base_ctx else {},
              pos=set(base_ctx.pos) if base_ctx else (), neg=set(base_ctx.neg) if base_ctx else ())
    for k, v in alpha.items():
        ctx.known[k] = v
    for k, v in alpha.items():
        if k[0] == "Z" and v:
            mp[k[1]] = RF.const(0)
        elif k[0] == "SP":
            st = k[1].single_term()
            atoms = sorted((a for a, _ in st[1]), key=repr)
            s0 = atoms[0]
            rest = RF({frozenset((a, 1) for a in atoms[1:]): Fraction(1)})
            mp[s0] = rest if v else -rest
        elif k[0] == "POS":
            if v:
                ctx.pos.add(k[1])
        elif k[0] == "ZP" and v:
            pass
    # resolve chains among sign substitutions (s1 := s2, s2 := 1)
    for _ in range(4):
        for a in list(mp):
            mp[a] = mp[a].subst({b: t for b, t in mp.items() if b is not a and b != a})
    # positivity facts also hold in their substituted form
    for k, v in alpha.items():
        if derive and k[0] == "POS" and v:
            try:
                t = k[1].subst(mp)
                if not t.is_const():
                    ctx.pos.add(norm_pos(t))
            except Unsupported:
                pass
    return mp, ctx


def rekey(key, mp, ctx):
    """re-evaluate an atom under the facts; returns a formula (possibly a constant)"""
    t = key[0]
    c0 = Ctx(known={k: v for k, v in ctx.known.items() if k != key}, pos=ctx.pos - ({key[1]} if t == "POS" else set()), neg=ctx.neg)
    if t == "Z":
        if key[1] in mp:
            return f_zero(mp[key[1]], c0)
        return A(key)
    if t == "SP":
        return _f_sp(key[1].subst(mp), c0)
    if t == "POS":
        return f_pos(key[1].subst(mp, c0), c0)
    if t == "ZP":
        return f_zero(key[1].subst(mp, c0), c0)
    return A(key)


def consistent(alpha, base_ctx=None):
    """False when the assignment contradicts itself after its own facts are substituted"""
    mp, ctx = facts_from(alpha, base_ctx, derive=False)
    for k, v in alpha.items():
        try:
            f = rekey(k, mp, ctx)
        except Unsupported:
            continue
        r = ev(f, {kk: vv for kk, vv in alpha.items() if kk != k})
        if r is not None and r != v:
            return False
        # x>0 and -x>0 cannot both hold; x>0 and x==0 neither
        if k[0] == "POS" and v:
            if alpha.get(("POS", norm_pos(-k[1]))):
                return False
            if alpha.get(("ZP", norm_pm(k[1]))):
                return False
    return True
