"""Run the rule set of one property on a source provider (disk or in-memory overlay)."""
import importlib
from .core import Model, Report, AnalysisError, load_known

LEVEL = {"C20": "proof"}
GENERAL_CALLS = {"C14", "C15", "C17"}


def evaluate(prop, provider=None, tier="quick"):
    mod = importlib.import_module("sa.rules." + prop.lower())
    rep = Report(prop, tier, LEVEL.get(prop, "other"))
    model = Model(provider)
    mod.run(model, rep, tier)
    withhold_unread(rep, model)
    # A new optional parameter is analysed at its default (sa/canon.py).  The effect-order, well-formedness and purity properties
    # quantify over *every* call, also one that uses the new parameter: for them the rules run a second time on the tree with the
    # parameter left in.  What the second run finds is reported; what it cannot read is not held against the code (the first run stands).
    if prop in GENERAL_CALLS and any(n.startswith("new optional parameter") for n in getattr(model, "canon_notes", [])):
        try:
            rep2 = Report(prop, tier, LEVEL.get(prop, "other"))
            model2 = Model(provider, specialise=False)
            mod.run(model2, rep2, tier)
            have = {f.ident() for f in rep.findings}
            for f in rep2.findings:
                if f.ident() not in have:
                    f.message += " (on the path that uses the new optional parameter)"
                    rep.findings.append(f)
        except AnalysisError:
            pass
        except Exception:
            pass
    return rep, model


def withhold_unread(rep, model):
    """A finding anchored in a function that hands part of its work to a function or class the inventory does not know - one the canonical
    form could not write out - is a finding about code that was only partly read.  It is withheld as an analysis error (with its text): a
    verdict needs the whole function."""
    import ast
    import os
    new = getattr(model, "new_names", None)
    if not new or os.environ.get("SYSLOSS_SA_NO_WITHHOLD"):
        return
    keep = []
    for f in rep.findings:
        parts = f.construct.split(" ")[0].split("/")[0].split(".")
        fn = None
        try:
            if len(parts) >= 3 and parts[1] in model.classes:
                fn = model.own_method(parts[1], parts[2])
            elif len(parts) >= 2 and (parts[0], parts[1]) in model.funcs:
                fn = model.funcs[(parts[0], parts[1])]
        except Exception:
            fn = None
        called = set()
        if fn is not None:
            # through the functions of the package it calls by name (two levels deep is where helpers of helpers live)
            by_name = {}
            for (m_, n_), f_ in model.funcs.items():
                by_name.setdefault(n_, []).append(f_)
            for cn_, (m_, cnode) in model.classes.items():
                for f_ in cnode.body:
                    if isinstance(f_, ast.FunctionDef):
                        by_name.setdefault(f_.name, []).append(f_)
            seen, todo = {id(fn)}, [(fn, 0)]
            while todo:
                g, depth = todo.pop()
                for c in ast.walk(g):
                    if isinstance(c, ast.Call):
                        nm = c.func.id if isinstance(c.func, ast.Name) else (c.func.attr if isinstance(c.func, ast.Attribute) and isinstance(c.func.value, ast.Name) and c.func.value.id in ("self", "cls") else None)
                        if nm in new:
                            called.add(nm)
                        elif nm in by_name and depth < 2 and len(by_name[nm]) == 1 and id(by_name[nm][0]) not in seen:
                            seen.add(id(by_name[nm][0]))
                            todo.append((by_name[nm][0], depth + 1))
        if called:
            rep.errors.append("%s %s: finding withheld - %s calls %s, which the inventory does not know and which could not be written out (%s)" % (
                f.rule, f.construct, parts[-1], ", ".join(sorted(called)), f.message[:160]))
        else:
            keep.append(f)
    rep.findings[:] = keep


def verdict(prop, provider=None):
    """-> (status, findings) ; status in ok / violation / error ; findings exclude the known ones"""
    try:
        rep, model = evaluate(prop, provider)
    except AnalysisError as e:
        return "error", [str(e)]
    except RecursionError as e:
        return "error", ["recursion: %r" % e]
    except Exception as e:
        return "error", ["internal: %r" % e]
    known = {(k["property"], k["rule"], k["construct"], k["key"]) for k in load_known().get("open", [])}
    fresh = [f for f in rep.findings if f.ident() not in known]
    if not fresh and rep.errors:
        return "error", rep.errors
    return ("violation" if fresh else "ok"), ["%s %s %s: %s" % (f.rule, f.construct, f.where, f.message[:300]) for f in fresh]
