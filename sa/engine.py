"""Run the rule set of one property on a source provider (disk or in-memory overlay)."""
import importlib
from .core import Model, Report, AnalysisError, load_known

LEVEL = {"C20": "proof"}


def evaluate(prop, provider=None, tier="quick"):
    mod = importlib.import_module("sa.rules." + prop.lower())
    rep = Report(prop, tier, LEVEL.get(prop, "other"))
    model = Model(provider)
    mod.run(model, rep, tier)
    return rep, model


def verdict(prop, provider=None):
    """-> (status, findings) ; status in ok / violation / error ; findings exclude the known ones"""
    try:
        rep, model = evaluate(prop, provider)
    except AnalysisError as e:
        return "error", [str(e)]
    except RecursionError as e:
        return "error", ["recursion: %r" % e]
    except Exception as e:
        return "error", ["internal: %r" % e]
    known = {(k["property"], k["rule"], k["construct"], k["key"]) for k in load_known().get("open", [])}
    fresh = [f for f in rep.findings if f.ident() not in known]
    if not fresh and rep.errors:
        return "error", rep.errors
    return ("violation" if fresh else "ok"), ["%s %s %s: %s" % (f.rule, f.construct, f.where, f.message[:300]) for f in fresh]
