"""Run the rule set of one property on a source provider (disk or in-memory overlay)."""
import importlib
from .core import Model, Report, AnalysisError, load_known

LEVEL = {"C20": "proof"}
GENERAL_CALLS = {"C14", "C15", "C17"}


def evaluate(prop, provider=None, tier="quick"):
    mod = importlib.import_module("sa.rules." + prop.lower())
    rep = Report(prop, tier, LEVEL.get(prop, "other"))
    model = Model(provider)
    mod.run(model, rep, tier)
    # A new optional parameter is analysed at its default (sa/canon.py).  The effect-order, well-formedness and purity properties
    # quantify over *every* call, also one that uses the new parameter: for them the rules run a second time on the tree with the
    # parameter left in.  What the second run finds is reported; what it cannot read is not held against the code (the first run stands).
    if prop in GENERAL_CALLS and any(n.startswith("new optional parameter") for n in getattr(model, "canon_notes", [])):
        try:
            rep2 = Report(prop, tier, LEVEL.get(prop, "other"))
            model2 = Model(provider, specialise=False)
            mod.run(model2, rep2, tier)
            have = {f.ident() for f in rep.findings}
            for f in rep2.findings:
                if f.ident() not in have:
                    f.message += " (on the path that uses the new optional parameter)"
                    rep.findings.append(f)
        except AnalysisError:
            pass
        except Exception:
            pass
    return rep, model


def verdict(prop, provider=None):
    """-> (status, findings) ; status in ok / violation / error ; findings exclude the known ones"""
    try:
        rep, model = evaluate(prop, provider)
    except AnalysisError as e:
        return "error", [str(e)]
    except RecursionError as e:
        return "error", ["recursion: %r" % e]
    except Exception as e:
        return "error", ["internal: %r" % e]
    known = {(k["property"], k["rule"], k["construct"], k["key"]) for k in load_known().get("open", [])}
    fresh = [f for f in rep.findings if f.ident() not in known]
    if not fresh and rep.errors:
        return "error", rep.errors
    return ("violation" if fresh else "ok"), ["%s %s %s: %s" % (f.rule, f.construct, f.where, f.message[:300]) for f in fresh]
