"""Reference texts for diagram.py (C19).  PARSED, NEVER EXECUTED: each function states, in the package's own vocabulary,
what the corresponding function of diagram.py has to do; sa/refcmp.py summarises both with one engine and compares the
paths.  Spelling, helper structure, local names and the order of independent statements are free in the code under test."""


def add_node(gr, name, attrs, ldf):
    conf = copy.deepcopy(attrs["default"])
    comp = type(sys._g[sys._g.attrs["nodes"][name]]).__name__
    if comp in attrs:
        for key in attrs[comp]:
            conf[key] = attrs[comp][key]
    if name in attrs:
        for key in attrs[name]:
            conf[key] = attrs[name][key]
    if ldf is not None:
        conf["fillcolor"] = _gcolor(ldf[ldf.Component == name]["Mix"].to_list()[0])
        conf["fontcolor"] = "silver"
        conf["label"] = "{}\n{}W".format(name, _nice_float(ldf[ldf.Component == name]["Loss (W)"].to_list()[0]))
    gr.add_node(pydot.Node(name, **conf))


def _prep_loss(loss, phases):
    if phases != {}:
        df2 = loss[loss.Type != ""][["Component", "Loss (W)", "Phase"]]
        avg, w = np.zeros(len(df2) // len(phases), dtype=np.dtype(float)), 0.0
        for key in phases.keys():
            avg += phases[key] * df2[df2.Phase == key]["Loss (W)"].to_numpy().astype(np.dtype(float))
            w += phases[key]
        avg = avg / w
        df = df2[df2.Phase == list(phases.keys())[0]].copy()
        df.update(pd.DataFrame(({"Loss (W)": avg})))
    else:
        df = loss[loss.Type != ""][["Component", "Loss (W)"]].copy()
    maxloss = df["Loss (W)"].max()
    if maxloss == 0.0:
        maxloss = 1.0
    df["Mix"] = df["Loss (W)"].to_numpy() / maxloss
    return df
