"""Reference texts for diagram.py (C19).  PARSED, NEVER EXECUTED: each function states, in the package's own vocabulary,
what the corresponding function of diagram.py has to do; sa/refcmp.py summarises both with one engine and compares the
paths.  Spelling, helper structure, local names and the order of independent statements are free in the code under test."""


def add_node(gr, name, attrs, ldf):
    conf = copy.deepcopy(attrs["default"])
    comp = type(sys._g[sys._g.attrs["nodes"][name]]).__name__
    if comp in attrs:
        for key in attrs[comp]:
            conf[key] = attrs[comp][key]
    if name in attrs:
        for key in attrs[name]:
            conf[key] = attrs[name][key]
    if ldf is not None:
        conf["fillcolor"] = _gcolor(ldf[ldf.Component == name]["Mix"].to_list()[0])
        conf["fontcolor"] = "silver"
        conf["label"] = "{}\n{}W".format(name, _nice_float(ldf[ldf.Component == name]["Loss (W)"].to_list()[0]))
    gr.add_node(pydot.Node(name, **conf))


def _prep_loss(loss, phases):
    if phases != {}:
        df2 = loss[loss.Type != ""][["Component", "Loss (W)", "Phase"]]
        avg, w = np.zeros(len(df2) // len(phases), dtype=np.dtype(float)), 0.0
        for key in phases.keys():
            avg += phases[key] * df2[df2.Phase == key]["Loss (W)"].to_numpy().astype(np.dtype(float))
            w += phases[key]
        avg = avg / w
        df = df2[df2.Phase == list(phases.keys())[0]].copy()
        df.update(pd.DataFrame(({"Loss (W)": avg})))
    else:
        df = loss[loss.Type != ""][["Component", "Loss (W)"]].copy()
    maxloss = df["Loss (W)"].max()
    if maxloss == 0.0:
        maxloss = 1.0
    df["Mix"] = df["Loss (W)"].to_numpy() / maxloss
    return df


def _diag(
    sys,
    *,
    fname=None,
    group=True,
    config={},
    loss=None
):
    """Create diagram"""
    if config == {}:
        bd_conf = copy.deepcopy(_DEF_CONF)
    else:
        bd_conf = copy.deepcopy(config)
    gname = sys._g.attrs["name"]
    if loss is not None:
        gname += " - Loss heat map"
    graph = pydot.Dot("sysLoss", label=gname, **bd_conf["graph"])

    def add_node(gr, name, attrs, ldf):
        comp = type(sys._g[sys._g.attrs["nodes"][name]]).__name__
        conf = copy.deepcopy(attrs["default"])
        # component type overrieds
        if comp in attrs:
            for key in attrs[comp]:
                conf[key] = attrs[comp][key]
        # component instance overrides
        if name in attrs:
            for key in attrs[name]:
                conf[key] = attrs[name][key]
        if ldf is not None:
            conf["fillcolor"] = _gcolor(ldf[ldf.Component == name]["Mix"].to_list()[0])
            conf["fontcolor"] = "silver"
            conf["label"] = "{}\n{}W".format(
                name, _nice_float(ldf[ldf.Component == name]["Loss (W)"].to_list()[0])
            )
        gr.add_node(pydot.Node(name, **conf))

    # heat diagram operations
    ldf = None
    if loss is not None:
        ldf = _prep_loss(loss, sys.get_sys_phases())

    # find groups
    groups = {}
    for n in sys._g.attrs["groups"].keys():
        g = sys._g.attrs["groups"][n]
        if g != "":
            groups[g] = 1
    # create clusters
    if group and groups != {}:
        for g in groups.keys():
            cconf = copy.deepcopy(bd_conf["cluster"]["default"])
            if g in bd_conf["cluster"]:
                for key in bd_conf["cluster"][g]:
                    cconf[key] = bd_conf["cluster"][g][key]
            sg = pydot.Subgraph("cluster_" + g, label=g, **cconf)
            for n in sys._g.attrs["nodes"]:
                if sys._g.attrs["groups"][n] == g:
                    add_node(sg, n, bd_conf["node"], ldf)
            graph.add_subgraph(sg)
    # non-clustered nodes
    for n in sys._g.attrs["nodes"]:
        if sys._g.attrs["groups"][n] == "" or not group:
            add_node(graph, n, bd_conf["node"], ldf)
    # color gradient
    if loss is not None:
        gconf = copy.deepcopy(_DEF_GRADIENT)
        gconf["label"] = "{}W|  |  | 0W".format(_nice_float(ldf["Loss (W)"].max()))
        rd = bd_conf["graph"]["rankdir"]
        if rd == "TB" or rd == "BT":
            gconf["label"] = "{" + gconf["label"] + "}"
        graph.add_node(pydot.Node("Scale", **gconf))
    # edges
    p = dict(zip(sys._g.attrs["nodes"].values(), sys._g.attrs["nodes"].keys()))
    for e in iter(sys._g.edge_indices()):
        ep = sys._g.get_edge_endpoints_by_index(e)
        graph.add_edge(pydot.Edge(p[ep[0]], p[ep[1]], **bd_conf["edge"]))
    # output image
    if fname == None:
        img = Image.open(io.BytesIO(graph.create_png(prog="dot")))
        return img
    graph.write(fname, prog="dot", format=fname.split(".")[-1])
    return None
