# Reference wiring of the solver passes and of the row assembly in System.solve (DESIGN.md C01-R4..R6,
# C02-R6, C05-R5, C09-R6).
#
# THIS FILE IS NEVER IMPORTED OR EXECUTED.  It is parsed with `ast` and summarised by sa/summ.py exactly
# like the repository's loop bodies; the rules compare the two summaries row by row of the guard table.
# Each function describes ONE iteration of a loop of system.py, with the loop variable as a parameter.
# DISPATCH(method, receiver, *args) stands for self._g[receiver].method(*args); ANY accepts anything;
# DONTCARE marks rows outside the property's quantifier.  The attribute names self._parents, self._childs,
# self._phase_lkup are placeholders for the *roles* PARENTS / CHILDS / PHASE_LKUP, which sa/sysrules.py
# resolves structurally in the repository and renames here before comparing.
# flake8: noqa


def child_curr__body(self, node, i, v, state, c, io):
    """one child c of `node`: contribution to the sum of currents drawn from `node`"""
    pp = self._parents[c]
    if pp == -1:
        return DONTCARE                      # a child always has a parent
    k = DISPATCH("_get_pri_inp", c, {"off": [state[j]["off"][0] for j in pp]}, [v[j] for j in pp])
    if len(pp) > 1 and k != -1 and pp[k] != node:
        return io                            # mux fed from another input: draws nothing from this parent
    return io + i[c]


def fwd_prop__body(self, n, v, i, phase, state):
    """forward pass, node n: which law is evaluated on which operands"""
    p = self._parents[n]
    if p == -1:
        vi = [v[n]]
        off = state[n]["off"]
    else:
        vi = [v[j] for j in p]
        off = [state[j]["off"][0] for j in p]
    if self._childs[n] == -1:
        io = 0.0
    else:
        io = self._child_curr(n, i, v, state)
    return DISPATCH("_solv_outp_volt", n, vi, ANY, io, phase, self._phase_lkup[n], {"off": off})


def back_prop__body(self, n, v, i, phase, state):
    """backward pass, node n"""
    p = self._parents[n]
    if p == -1:
        vi = [v[n]]
        off = state[n]["off"]
    else:
        vi = [v[j] for j in p]
        off = [state[j]["off"][0] for j in p]
    if self._childs[n] == -1:
        io = 0.0
    else:
        io = self._child_curr(n, i, v, state)
    return DISPATCH("_solv_inp_curr", n, vi, ANY, io, phase, self._phase_lkup[n], {"off": off})


def solve__row(self, n, v, i, state, ph, ta):
    """row of solve() for node n, as a dict header -> value"""
    p = self._parents[n]
    if p == -1:
        vin = v[n] + self._g[n]._params["rs"] * i[n]     # nominal source voltage
        iout = i[n]
        pn = ""
    else:
        k = DISPATCH("_get_pri_inp", n, {"off": [state[j]["off"][0] for j in p]}, [v[j] for j in p])
        if k != -1 and len(p) > 1:
            src = p[k]
        else:
            src = p[0]
        vin = v[src]
        pn = self._g[src]._params["name"]
        if self._childs[n] == -1:
            iout = 0.0
        else:
            iout = self._child_curr(n, i, v, state)
    if pn != "":
        rin = self._g.attrs["rails"][pn]
    else:
        rin = ""
    pl = DISPATCH("_solv_pwr_loss", n, vin, v[n], i[n], iout, ta, ph, self._phase_lkup[n])
    w = DISPATCH("_solv_get_warns", n, vin, v[n], i[n], iout, ta, ph, self._phase_lkup[n])
    name = self._g[n]._params["name"]
    return {
        "Component": name,
        "Type": self._g[n]._component_type.name,
        "Parent": pn,
        "Rail in": rin,
        "Rail out": self._g.attrs["rails"][name],
        "Group": self._g.attrs["groups"][name],
        "Phase": ph,
        "Vin (V)": vin,
        "Vout (V)": v[n],
        "Iin (A)": i[n],
        "Iout (A)": iout,
        "Power (W)": pl[0],
        "Loss (W)": pl[1],
        "Efficiency (%)": pl[2],
        "24h energy (Wh)": self._calc_energy(ph, pl[0]),
        "Warnings": w,
    }


def sys_init__body(self, n, phase, v, i, state):
    """initial vectors of the solver for node n: stores as a dict target -> value.  A node none of whose sources is live starts at
    0 V / 0 A (the laws keep it there): the first sweep must not evaluate a dead subtree with the nominal output of a converter in it"""
    dead = {}            # per-node flag filled in topological order (parents first): read at the parents' slots only
    p = self._parents[n]
    if p == -1:
        st = DISPATCH("_get_state", n, phase, self._phase_lkup[n])
    else:
        st = {"off": [DISPATCH("_get_state", BOUND, phase, self._phase_lkup[BOUND])["off"][0] for BOUND in p]}
        if all([dead[BOUND] for BOUND in p]):
            return {"v": 0.0, "i": 0.0, "state": st}
    return {
        "v": DISPATCH("_get_outp_voltage", n, phase, self._phase_lkup[n]),
        "i": DISPATCH("_get_inp_current", n, phase, self._phase_lkup[n]),
        "state": st,
    }


def _find_domain(self, n, domain, v):
    """the voltage domain of a row: a source is its own domain; a mux belongs to the root source above the first input
    that carries a voltage (input 0 if none does); everything else inherits the domain handed in"""
    if self._g[n]._component_type.name == "SOURCE":
        return self._g[n]._params["name"]
    elif self._g[n]._component_type.name == "PMUX":
        p = self._parents[n]
        vin = [v[i] for i in p]
        idx = 0
        for i in range(len(vin)):
            if abs(vin[i]) != 0.0:
                idx = i
                break
        an = rx.ancestors(self._g, p[idx])
        if an == set():
            return self._g[p[idx]]._params["name"]
        for i in an:
            if self._g.in_degree(i) == 0:
                return self._g[i]._params["name"]
    return domain
