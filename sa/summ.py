"""E2b - guarded summaries of loop-free code by a syntax-directed walk.

summarize(fn) -> [Leaf]; a Leaf is one path through the decision tree: its guards (formulas over canonical
atoms), how it exits (return / raise <Exc> / fall), the returned value as a term, and the ordered list of
events (calls, stores, channel emissions) seen on the way.  Nothing is executed; loops are refused unless the
caller supplies an idiom handler.
"""
import ast
from fractions import Fraction
from .terms import RF, lift, abs_, sign_, minmax, Unsupported, show
from .guards import (A, Not, And, Or, Ctx, f_cmp, f_zero, f_pos, f_sign_eq, ev, atoms_of, show_f, literals)


class Sym:
    """opaque symbolic value (non-numeric or unknown); equal only to itself"""
    __slots__ = ("key",)

    def __init__(self, key):
        self.key = key

    def __eq__(self, o):
        return isinstance(o, Sym) and self.key == o.key

    def __hash__(self):
        return hash(("Sym", self.key))

    def __repr__(self):
        return "Sym%r" % (self.key,)


class ListV:
    __slots__ = ("items",)

    def __init__(self, items):
        self.items = list(items)

    def __eq__(self, o):
        return isinstance(o, ListV) and self.items == o.items

    def __hash__(self):
        return hash(("ListV", tuple(self.items)))

    def __repr__(self):
        return "ListV%r" % (self.items,)


class DictV:
    __slots__ = ("items",)

    def __init__(self, items):
        self.items = sorted(items, key=lambda kv: repr(kv[0]))  # [(key value, value)], canonical order

    def get(self, k):
        for kk, vv in self.items:
            if kk == k:
                return vv
        return None

    def __eq__(self, o):
        return isinstance(o, DictV) and self.items == o.items

    def __hash__(self):
        return hash(("DictV", tuple(self.items)))

    def __repr__(self):
        return "DictV%r" % (self.items,)


class Vec:
    """a vector of signed scalars (the `vi` list handed to the laws); subscripting yields sign x magnitude"""
    __slots__ = ("name", "zero_idx")

    def __init__(self, name, zero_idx=()):
        self.name = name
        self.zero_idx = tuple(zero_idx)

    def __eq__(self, o):
        return isinstance(o, Vec) and (self.name, self.zero_idx) == (o.name, o.zero_idx)

    def __hash__(self):
        return hash(("Vec", self.name, self.zero_idx))

    def __repr__(self):
        return "Vec(%s)" % self.name


class BoolV:
    """a boolean-valued expression kept as a formula"""
    __slots__ = ("f",)

    def __init__(self, f):
        self.f = f

    def __eq__(self, o):
        return isinstance(o, BoolV) and self.f == o.f

    def __hash__(self):
        return hash(("BoolV", self.f))

    def __repr__(self):
        return "BoolV(%s)" % show_f(self.f)


WILD = Sym(("WILD",))          # spec only: any value accepted
DONTCARE = Sym(("DONTCARE",))  # spec only: the whole row is outside the property's quantifier


def signed(name, zero=False):
    if zero:
        return RF.const(0)
    return RF.atom(("s", name)) * RF.atom(("m", name))


def nn(name):
    return RF.atom(("nn", name))


def fr(name):
    return RF.atom(("fr", name))


def vkey(v):
    """canonical hashable key of a value"""
    if isinstance(v, (RF, Sym, ListV, DictV, Vec, BoolV)):
        return v
    if isinstance(v, tuple):
        return tuple(vkey(x) for x in v)
    if isinstance(v, (str, bool)) or v is None:
        return v
    if isinstance(v, (int, float, Fraction)):
        return lift(v)
    raise Unsupported("value %r" % (v,))


def show_value(v):
    if isinstance(v, RF):
        return show(v)
    if isinstance(v, Sym):
        return show_key_sym(v.key)
    if isinstance(v, tuple):
        return "(" + ", ".join(show_value(x) for x in v) + ")"
    if isinstance(v, ListV):
        return "[" + ", ".join(show_value(x) for x in v.items) + "]"
    if isinstance(v, DictV):
        return "{" + ", ".join("%s: %s" % (show_value(k), show_value(x)) for k, x in v.items) + "}"
    if isinstance(v, BoolV):
        return show_f(v.f)
    if isinstance(v, Vec):
        return v.name
    return repr(v)


def show_key_sym(k):
    if isinstance(k, tuple) and k:
        t = k[0]
        if t == "name":
            return str(k[1])
        if t == "attr":
            return "%s.%s" % (show_value(k[1]), k[2])
        if t == "sub":
            return "%s[%s]" % (show_value(k[1]), show_value(k[2]))
        if t == "call":
            return "%s(%s)" % (k[1], ", ".join(show_value(x) for x in k[2]))
        if t == "mcall":
            return "%s.%s(%s)" % (show_value(k[1]), k[2], ", ".join(show_value(x) for x in k[3]))
        if t == "P":
            return "P." + str(k[1])
        return str(t) + "(" + ", ".join(show_value(x) if not isinstance(x, str) else x for x in k[1:]) + ")"
    return str(k)


def replace_bound(v, repl):
    """substitute the comprehension's bound variable inside a value"""
    if isinstance(v, Sym):
        if v.key == ("bound",):
            return repl
        return Sym(_rb_key(v.key, repl))
    if isinstance(v, RF):
        mp = {}
        for a in v.atoms():
            if a[0] in ("fr", "nn") and isinstance(a[1], Sym):
                mp[a] = RF.atom((a[0], replace_bound(a[1], repl)))
        return v.subst(mp) if mp else v
    if isinstance(v, tuple):
        return tuple(replace_bound(x, repl) for x in v)
    if isinstance(v, ListV):
        return ListV([replace_bound(x, repl) for x in v.items])
    if isinstance(v, DictV):
        return DictV([(k, replace_bound(x, repl)) for k, x in v.items])
    return v


def _rb_key(k, repl):
    if isinstance(k, tuple):
        return tuple(_rb_key(x, repl) if isinstance(x, tuple) else replace_bound(x, repl) for x in k)
    return k


def to_num(v):
    """numeric view of a value (symbols are promoted to free atoms)"""
    if isinstance(v, RF):
        return v
    if isinstance(v, bool):
        return RF.const(int(v))
    if isinstance(v, (int, float, Fraction)):
        return lift(v)
    if isinstance(v, Sym):
        return RF.atom(("fr", v))
    if isinstance(v, BoolV):
        raise Unsupported("boolean used as a number")
    raise Unsupported("not a number: %r" % (v,))


class Leaf:
    __slots__ = ("guards", "kind", "value", "exc", "events", "env", "line")

    def __init__(self, guards, kind, value=None, exc=None, events=(), env=None, line=0):
        self.guards = list(guards)
        self.kind = kind
        self.value = value
        self.exc = exc
        self.events = list(events)
        self.env = env
        self.line = line

    def cond(self):
        return And(*self.guards)

    def describe(self):
        g = show_f(self.cond())
        if self.kind == "raise":
            return "%s -> raise %s" % (g, self.exc)
        return "%s -> %s %s" % (g, self.kind, show_value(self.value) if self.value is not None else "")


class State:
    __slots__ = ("env", "guards", "events")

    def __init__(self, env, guards=(), events=()):
        self.env = dict(env)
        self.guards = list(guards)
        self.events = list(events)

    def fork(self, extra_guard=None):
        s = State(self.env, self.guards, self.events)
        if extra_guard is not None:
            s.guards.append(extra_guard)
            s.events.append(("guard", extra_guard))   # branch decisions are ordered with the effects on each path
        return s


def strip_keyview(v):
    """list(D.keys()) / tuple(D) / D.keys(): for iteration order, emptiness and membership this is D itself"""
    while isinstance(v, Sym) and isinstance(v.key, tuple) and v.key:
        k = v.key
        if k[0] == "call" and k[1] in ("list", "tuple") and len(k) >= 3 and len(k[2]) == 1 and (len(k) < 4 or not k[3]):
            v = k[2][0]
            continue
        if k[0] == "mcall" and len(k) >= 4 and k[2] == "keys" and not k[3]:
            v = k[1]
            continue
        break
    return v


MAX_LEAVES = 4096
CMP = {ast.Eq: "==", ast.NotEq: "!=", ast.Lt: "<", ast.LtE: "<=", ast.Gt: ">", ast.GtE: ">="}


class Summarizer:
    """Generic walker.  Subclasses / instances customise through the `hooks` object:
       hooks.name(id) -> value|None, hooks.attr(basevalue, attr) -> value|None,
       hooks.subscript(basevalue, idxvalue) -> value|None, hooks.call(self, node, fname, args, kwargs, st) -> value|None,
       hooks.truthy(value) -> formula|None, hooks.inline(fname) -> (FunctionDef, bind_self)|None,
       hooks.loop(self, node, st) -> [State]|None, hooks.contains(a, b) -> formula|None"""

    def __init__(self, hooks, ctx=None, consts=None, depth=3):
        self.h = hooks
        self.ctx = ctx or Ctx()
        self.consts = consts or {}
        self.depth = depth
        self.nleaves = 0

    # ------------------------------------------------------------ entry
    def summarize(self, fn, args, guards=()):
        """fn: ast.FunctionDef; args: name -> value for the parameters (missing ones become symbols/defaults)"""
        env = {}
        a = fn.args
        params = [x.arg for x in a.posonlyargs + a.args + a.kwonlyargs]
        for k, v in getattr(self, "closure_env", {}).items():
            env.setdefault(k, v)
        for p in params:
            env[p] = args[p] if p in args else Sym(("name", p))
        for extra in (a.vararg, a.kwarg):
            if extra is not None and extra.arg in args:
                env[extra.arg] = args[extra.arg]
        st = State(env, guards)
        leaves = []
        for s, status in self.block(fn.body, st):
            if status is None:
                leaves.append(Leaf(s.guards, "return", None, events=s.events, env=s.env, line=fn.lineno))
            elif status[0] == "return":
                leaves.append(Leaf(s.guards, "return", status[1], events=s.events, env=s.env, line=status[2]))
            else:
                leaves.append(Leaf(s.guards, "raise", None, exc=status[1], events=s.events, env=s.env, line=status[2]))
        return leaves

    def summarize_block(self, stmts, env, guards=()):
        st = State(env, guards)
        out = []
        for s, status in self.block(stmts, st):
            kind = "fall" if status is None else status[0]
            out.append(Leaf(s.guards, kind, status[1] if status and status[0] == "return" else None,
                            exc=status[1] if status and status[0] == "raise" else None,
                            events=s.events, env=s.env, line=status[2] if status else 0))
        return out

    # ------------------------------------------------------------ statements
    def block(self, stmts, st):
        """-> list of (State, status) ; status None = fell through"""
        live = [st]
        done = []
        for stmt in stmts:
            nxt = []
            for s in live:
                for s2, status in self.stmt(stmt, s):
                    if status is None:
                        nxt.append(s2)
                    else:
                        done.append((s2, status))
            live = nxt
            self.nleaves = len(live) + len(done)
            if self.nleaves > MAX_LEAVES:
                raise Unsupported("more than %d leaves" % MAX_LEAVES)
            if not live:
                break
        return [(s, None) for s in live] + done

    def stmt(self, n, st):
        # `x = a if c else b` (also inside a return / append / call argument) is read as `if c: x = a  else: x = b`
        if isinstance(n, (ast.Assign, ast.AugAssign, ast.AnnAssign, ast.Return, ast.Expr)):
            from .core import desugar_ifexp
            syn = desugar_ifexp(n)
            if syn is not None:
                return self.stmt(syn, st)
        if isinstance(n, (ast.Assign, ast.AugAssign, ast.AnnAssign, ast.Return, ast.Expr)) and self.depth > 0 and hasattr(self.h, "inline"):
            hp = self.hoistable_call(n)
            if hp is not None:
                from .core import clone_ast
                new = clone_ast(n)
                cur = new
                for fld, i in hp[:-1]:
                    cur = getattr(cur, fld) if i is None else getattr(cur, fld)[i]
                fld, i = hp[-1]
                call = getattr(cur, fld) if i is None else getattr(cur, fld)[i]
                tmp = "__h%d_%d" % (getattr(call, "lineno", 0), getattr(call, "col_offset", 0))
                ref = ast.copy_location(ast.Name(id=tmp, ctx=ast.Load()), call)
                if i is None:
                    setattr(cur, fld, ref)
                else:
                    getattr(cur, fld)[i] = ref
                pre = ast.copy_location(ast.Assign(targets=[ast.Name(id=tmp, ctx=ast.Store())], value=call), n)
                ast.fix_missing_locations(pre)
                ast.fix_missing_locations(new)
                return self.block([pre, new], st)
        if isinstance(n, ast.Expr):
            if isinstance(n.value, ast.Constant):
                return [(st, None)]
            outs = []
            for s, v in self.expr_forks(n.value, st):
                outs.append((s, v.status() if isinstance(v, _Raise) else None))
            return outs
        if isinstance(n, ast.Pass):
            return [(st, None)]
        if isinstance(n, ast.Return):
            if n.value is None:
                return [(st, ("return", None, n.lineno))]
            return [(s, v.status() if isinstance(v, _Raise) else ("return", v, n.lineno)) for s, v in self.expr_forks(n.value, st)]
        if isinstance(n, ast.Raise):
            exc = self.exc_name(n.exc)
            st.events.append(("raise", exc, n.lineno))
            return [(st, ("raise", exc, n.lineno))]
        if isinstance(n, ast.Assign):
            outs = []
            for s, v in self.expr_forks(n.value, st):
                if isinstance(v, _Raise):
                    outs.append((s, v.status()))
                    continue
                for t in n.targets:
                    self.assign(t, v, s, n.lineno)
                outs.append((s, None))
            return outs
        if isinstance(n, ast.AnnAssign):
            if n.value is None:
                return [(st, None)]
            outs = []
            for s, v in self.expr_forks(n.value, st):
                if isinstance(v, _Raise):
                    outs.append((s, v.status()))
                    continue
                self.assign(n.target, v, s, n.lineno)
                outs.append((s, None))
            return outs
        if isinstance(n, ast.AugAssign):
            outs = []
            for s, v in self.expr_forks(n.value, st):
                if isinstance(v, _Raise):
                    outs.append((s, v.status()))
                    continue
                cur = self.expr(n.target, s)
                emitted = self.h.augassign(self, n, cur, v, s) if hasattr(self.h, "augassign") else None
                if emitted is None:
                    self.assign(n.target, self.binop(n.op, cur, v), s, n.lineno)
                outs.append((s, None))
            return outs
        if isinstance(n, ast.If):
            f = self.cond(n.test, st)
            outs = []
            if f is not True and f is not False:
                lits = {}
                for g in st.guards:
                    literals(g, True, lits)
                known = ev(f, lits)
                if known is not None:
                    f = known
            if f is True:
                return self.block(n.body, st)
            if f is False:
                return self.block(n.orelse, st) if n.orelse else [(st, None)]
            outs += self.block(n.body, st.fork(f))
            s2 = st.fork(Not(f))
            outs += self.block(n.orelse, s2) if n.orelse else [(s2, None)]
            return outs
        if isinstance(n, (ast.For, ast.While)):
            r = self.h.loop(self, n, st) if hasattr(self.h, "loop") else None
            if r is None:
                raise Unsupported("loop at line %d" % n.lineno)
            return r
        if isinstance(n, (ast.Import, ast.ImportFrom, ast.Global, ast.Nonlocal)):
            return [(st, None)]
        if isinstance(n, ast.With):
            for it in n.items:
                v = self.expr(it.context_expr, st)
                if it.optional_vars is not None:
                    self.assign(it.optional_vars, Sym(("with", vkey(v))), st, n.lineno)
            return self.block(n.body, st)
        if isinstance(n, ast.Continue):
            return [(st, ("continue", None, n.lineno))]
        if isinstance(n, ast.Break):
            return [(st, ("break", None, n.lineno))]
        if isinstance(n, ast.Delete):
            for t in n.targets:
                st.events.append(("del", self.target_key(t, st), n.lineno))
            return [(st, None)]
        if isinstance(n, ast.FunctionDef):
            st.env[n.name] = Sym(("func", n.name))
            self.local_funcs = dict(getattr(self, "local_funcs", {}))
            self.local_funcs[n.name] = n
            return [(st, None)]
        raise Unsupported("statement %s at line %d" % (type(n).__name__, n.lineno))

    def exc_name(self, e):
        if e is None:
            return "<reraise>"
        if isinstance(e, ast.Call):
            e = e.func
        if isinstance(e, ast.Name):
            # raise helper(...) where the helper only builds the exception: the class it returns
            model = getattr(self.h, "model", None)
            if model is not None and not e.id[:1].isupper():
                cands = [fn for (mod, nm), fn in getattr(model, "funcs", {}).items() if nm == e.id]
                for fn in cands:
                    rets = [r for r in ast.walk(fn) if isinstance(r, ast.Return)]
                    cls = set()
                    for r in rets:
                        v = r.value.func if isinstance(r.value, ast.Call) else r.value
                        cls.add(v.id if isinstance(v, ast.Name) and v.id[:1].isupper() else None)
                    if rets and len(cls) == 1 and None not in cls:
                        return cls.pop()
            return e.id
        if isinstance(e, ast.Attribute):
            return e.attr
        return "<expr>"

    def assign(self, t, v, st, line):
        if isinstance(t, ast.Name):
            st.env[t.id] = v
            return
        if isinstance(t, (ast.Tuple, ast.List)):
            items = None
            if isinstance(v, tuple):
                items = list(v)
            elif isinstance(v, ListV):
                items = v.items
            if items is None or len(items) != len(t.elts):
                items = [Sym(("sub", vkey(v), lift(i))) for i in range(len(t.elts))]
            for tt, vv in zip(t.elts, items):
                self.assign(tt, vv, st, line)
            return
        if isinstance(t, ast.Subscript) and isinstance(t.value, ast.Name) and isinstance(st.env.get(t.value.id), DictV) \
                and not isinstance(t.slice, ast.Slice):
            # mutation of a local dict literal: functional update of the environment
            d = st.env[t.value.id]
            k = vkey(self.expr(t.slice, st))
            st.env[t.value.id] = DictV([(kk, vv) for kk, vv in d.items if kk != k] + [(k, v)])
            return
        if isinstance(t, (ast.Subscript, ast.Attribute)):
            st.events.append(("store", self.target_key(t, st), v, line))
            return
        raise Unsupported("assignment target %s" % type(t).__name__)

    def target_key(self, t, st):
        if isinstance(t, ast.Subscript):
            return ("sub", vkey(self.expr(t.value, st)), vkey(self.expr(t.slice, st)))
        if isinstance(t, ast.Attribute):
            return ("attr", vkey(self.expr(t.value, st)), t.attr)
        if isinstance(t, ast.Name):
            return ("name", t.id)
        if isinstance(t, (ast.List, ast.Tuple)):
            return ("seq", tuple(self.target_key(x, st) for x in t.elts))
        raise Unsupported("target")

    # ------------------------------------------------------------ expressions
    def hoistable_call(self, stmt):
        """path to the first call of an inlinable multi-path helper that sits inside the statement's expression (not the
        whole value, which expr_forks forks anyway; not in a short-circuited operand, comprehension or lambda)"""
        top = stmt.value if isinstance(stmt, (ast.Assign, ast.AugAssign, ast.AnnAssign, ast.Return, ast.Expr)) else None
        if top is None:
            return None

        def rec(node, path):
            if isinstance(node, (ast.ListComp, ast.SetComp, ast.DictComp, ast.GeneratorExp, ast.Lambda, ast.IfExp)):
                return None
            if isinstance(node, ast.Call) and node is not top:
                fname = self.call_name(node)
                tgt = self.inline_target(fname)
                if tgt is not None and sum(1 for x in ast.walk(tgt[0]) if isinstance(x, (ast.Return, ast.Raise))) > 1:
                    return path
            for fld, val in ast.iter_fields(node):
                if isinstance(val, ast.AST):
                    if isinstance(node, ast.BoolOp):
                        continue
                    r = rec(val, path + ((fld, None),))
                    if r is not None:
                        return r
                elif isinstance(val, list):
                    for i, x in enumerate(val):
                        if isinstance(x, ast.AST):
                            if isinstance(node, ast.BoolOp) and i > 0:
                                continue
                            r = rec(x, path + ((fld, i),))
                            if r is not None:
                                return r
            return None
        return rec(top, (("value", None),))

    def expr_forks(self, n, st):
        """evaluate an expression that may be an inlinable call -> [(State, value)]"""
        if isinstance(n, ast.Call) and self.depth > 0:
            fname = self.call_name(n)
            tgt = self.inline_target(fname)
            if tgt is not None:
                return self.inline_call(n, tgt, st)
        return [(st, self.expr(n, st))]

    def inline_target(self, fname):
        """a function nested in the one being summarised (called by its bare name) or what the hooks offer"""
        lf = getattr(self, "local_funcs", {})
        if fname in lf:
            return lf[fname], "closure"
        return self.h.inline(fname) if hasattr(self.h, "inline") else None

    def inline_call(self, n, tgt, st):
        fn, bind = tgt
        closure = bind == "closure"
        if closure:
            bind = False
        a = fn.args
        params = [x.arg for x in a.posonlyargs + a.args]
        if bind:
            params = params[1:]
        actual = {}
        for p, arg in zip(params, n.args):
            actual[p] = self.expr(arg, st)
        if a.vararg is not None and not any(isinstance(x, ast.Starred) for x in n.args):
            actual[a.vararg.arg] = tuple(self.expr(x, st) for x in n.args[len(params):])
        for kw in n.keywords:
            actual[kw.arg] = self.expr(kw.value, st)
        # defaults
        defaults = dict(zip([x.arg for x in (a.posonlyargs + a.args)][-len(a.defaults):] if a.defaults else [], a.defaults))
        for p in params:
            if p not in actual and p in defaults:
                actual[p] = self.expr(defaults[p], State({}))
        for x, d in zip(a.kwonlyargs, a.kw_defaults):
            if x.arg not in actual and d is not None:
                actual[x.arg] = self.expr(d, State({}))
        if bind:
            actual[(a.posonlyargs + a.args)[0].arg] = st.env.get("self", Sym(("name", "self")))
        sub = type(self)(self.h, self.ctx, self.consts, self.depth - 1)
        if closure:
            # free variables of a nested function are the enclosing function's variables at the time of the call
            sub.closure_env = dict(st.env)
        outs = []
        for leaf in sub.summarize(fn, actual, guards=st.guards):
            s = State(st.env, leaf.guards, st.events + leaf.events)
            if leaf.kind == "raise":
                # an inlined raise ends the caller's path too
                outs.append((s, _Raise(leaf.exc, leaf.line)))
            else:
                outs.append((s, leaf.value))
        return outs

    def call_name(self, n):
        f = n.func
        parts = []
        while isinstance(f, ast.Attribute):
            parts.append(f.attr)
            f = f.value
        if isinstance(f, ast.Name):
            parts.append(f.id)
            return ".".join(reversed(parts))
        if isinstance(f, ast.Subscript):
            return "<sub>." + ".".join(reversed(parts))
        return "<expr>." + ".".join(reversed(parts))

    def expr(self, n, st):
        if isinstance(n, ast.Constant):
            v = n.value
            if isinstance(v, bool) or v is None or isinstance(v, str):
                return v
            if isinstance(v, (int, float)):
                return lift(v)
            return Sym(("const", repr(v)))
        if isinstance(n, ast.Name):
            if n.id in st.env:
                return st.env[n.id]
            v = self.h.name(n.id) if hasattr(self.h, "name") else None
            if v is not None:
                return v
            if n.id in self.consts:
                return self.consts[n.id]
            return Sym(("name", n.id))
        if isinstance(n, ast.Attribute):
            base = self.expr(n.value, st)
            v = self.h.attr(base, n.attr) if hasattr(self.h, "attr") else None
            if v is not None:
                return v
            return Sym(("attr", vkey(base), n.attr))
        if isinstance(n, ast.Subscript):
            base = self.expr(n.value, st)
            if isinstance(n.slice, ast.Slice):
                idx = Sym(("slice", tuple(vkey(self.expr(x, st)) if x is not None else None
                                          for x in (n.slice.lower, n.slice.upper, n.slice.step))))
            else:
                idx = self.expr(n.slice, st)
            return self.subscript(base, idx)
        if isinstance(n, ast.Tuple):
            return tuple(self.expr(x, st) for x in n.elts)
        if isinstance(n, ast.List):
            return ListV([self.expr(x, st) for x in n.elts])
        if isinstance(n, ast.Dict):
            return DictV([(vkey(self.expr(k, st)) if k is not None else None, self.expr(v, st)) for k, v in zip(n.keys, n.values)])
        if isinstance(n, ast.Set):
            return Sym(("set", tuple(sorted((vkey(self.expr(x, st)) for x in n.elts), key=repr))))
        if isinstance(n, ast.UnaryOp):
            if isinstance(n.op, ast.Not):
                return BoolV(Not(self.cond(n.operand, st)))
            v = to_num(self.expr(n.operand, st))
            if isinstance(n.op, ast.USub):
                return -v
            if isinstance(n.op, ast.UAdd):
                return v
            raise Unsupported("unary op")
        if isinstance(n, ast.BinOp):
            return self.binop(n.op, self.expr(n.left, st), self.expr(n.right, st))
        if isinstance(n, ast.BoolOp) and not all(isinstance(v, (ast.Compare, ast.BoolOp)) or (isinstance(v, ast.UnaryOp) and isinstance(v.op, ast.Not)) for v in n.values):
            # value semantics of  a or b / a and b
            vals = [self.expr(v, st) for v in n.values]
            out = vals[-1]
            for x in reversed(vals[:-1]):
                t = self.truthy(x)
                if isinstance(n.op, ast.Or):
                    out = x if t is True else (out if t is False else Sym(("ite", t, x, out)))
                else:
                    out = out if t is True else (x if t is False else Sym(("ite", t, out, x)))
            return out
        if isinstance(n, (ast.Compare, ast.BoolOp)):
            return BoolV(self.cond(n, st))
        if isinstance(n, ast.Call):
            return self.call(n, st)
        if isinstance(n, ast.IfExp):
            f = self.cond(n.test, st)
            if f is True:
                return self.expr(n.body, st)
            if f is False:
                return self.expr(n.orelse, st)
            return Sym(("ite", f, self.expr(n.body, st), self.expr(n.orelse, st)))
        if isinstance(n, (ast.ListComp, ast.GeneratorExp, ast.SetComp, ast.DictComp)):
            v = self.h.comprehension(self, n, st) if hasattr(self.h, "comprehension") else None
            if v is not None:
                return v
            return Sym(("comp", ast.dump(n)))
        if isinstance(n, ast.JoinedStr):
            return Sym(("fstr", ast.dump(n)))
        if isinstance(n, ast.Starred):
            return Sym(("star", vkey(self.expr(n.value, st))))
        if isinstance(n, ast.Lambda):
            return Sym(("lambda", ast.dump(n)))
        raise Unsupported("expression %s at line %d" % (type(n).__name__, getattr(n, "lineno", 0)))

    def subscript(self, base, idx):
        v = self.h.subscript(base, idx) if hasattr(self.h, "subscript") else None
        if v is not None:
            return v
        if isinstance(base, Vec):
            c = idx.const_value() if isinstance(idx, RF) else None
            if c is not None and int(c) in base.zero_idx:
                return RF.const(0)
            return signed("%s[%s]" % (base.name, show_value(idx)))
        if isinstance(base, (tuple, ListV)):
            items = list(base) if isinstance(base, tuple) else base.items
            c = idx.const_value() if isinstance(idx, RF) else None
            if c is not None and c.denominator == 1 and -len(items) <= c < len(items):
                return items[int(c)]
        if isinstance(base, DictV):
            r = base.get(vkey(idx))
            if r is not None:
                return r
        if isinstance(base, Sym) and isinstance(base.key, tuple) and base.key and base.key[0] == "concat" and isinstance(base.key[2], ListV):
            # (prefix + [e1..ek])[-j] is e_(k-j+1)
            c = idx.const_value() if isinstance(idx, RF) else None
            tail = base.key[2].items
            if c is not None and c.denominator == 1 and -len(tail) <= c < 0:
                return tail[int(c)]
        if isinstance(base, Sym) and isinstance(base.key, tuple) and base.key and base.key[0] == "listcomp":
            if isinstance(idx, Sym) and isinstance(idx.key, tuple) and idx.key and idx.key[0] == "slice" and len(base.key) == 3:
                # [f(x) for x in it][a:b]  ==  [f(x) for x in it[a:b]]
                return Sym(("listcomp", base.key[1], vkey(self.subscript(base.key[2], idx))))
            # [f(x) for x in it][i]  ==  f(it[i])
            return replace_bound(base.key[1], self.subscript(base.key[2], idx))
        return Sym(("sub", vkey(base), vkey(idx)))

    def binop(self, op, a, b):
        if isinstance(op, ast.Add):
            if isinstance(a, str) and isinstance(b, str):
                return a + b
            if isinstance(a, ListV) and isinstance(b, ListV):
                return ListV(a.items + b.items)
            if isinstance(a, Sym) and isinstance(a.key, tuple) and a.key and a.key[0] == "concat" and isinstance(a.key[2], ListV) and isinstance(b, ListV):
                return Sym(("concat", a.key[1], ListV(a.key[2].items + b.items)))
            if isinstance(a, (str, ListV)) or isinstance(b, (str, ListV)):
                return Sym(("concat", vkey(a), vkey(b)))
            return to_num(a) + to_num(b)
        if isinstance(op, ast.Mult) and (isinstance(a, (ListV, str)) or isinstance(b, (ListV, str))):
            return Sym(("repeat", vkey(a), vkey(b)))
        if isinstance(op, ast.Mod) and isinstance(a, str):
            return Sym(("fmt", a, vkey(b)))
        if isinstance(op, ast.BitAnd) or isinstance(op, ast.BitOr):
            return Sym(("bit" + type(op).__name__, vkey(a), vkey(b)))
        x, y = to_num(a), to_num(b)
        if isinstance(op, ast.Sub):
            return x - y
        if isinstance(op, ast.Mult):
            return x * y
        if isinstance(op, ast.Div):
            return x / y
        if isinstance(op, ast.Pow):
            return x ** y
        if isinstance(op, (ast.Mod, ast.FloorDiv)):
            return RF.atom(("F", type(op).__name__, (x, y)))
        raise Unsupported("operator %s" % type(op).__name__)

    # ------------------------------------------------------------ calls
    def call(self, n, st):
        fname = self.call_name(n)
        args = [self.expr(a, st) for a in n.args]
        # x.append(e) / x.extend([..]) on a list built in this function: functional update, like x += [e]
        if isinstance(n.func, ast.Attribute) and n.func.attr in ("append", "extend") and isinstance(n.func.value, ast.Name) and len(args) == 1 and not n.keywords:
            cur = st.env.get(n.func.value.id)
            islist = isinstance(cur, ListV) or (isinstance(cur, Sym) and isinstance(cur.key, tuple) and cur.key and cur.key[0] in ("prefix", "concat", "entry"))
            if islist:
                add = ListV([args[0]]) if n.func.attr == "append" else args[0]
                if isinstance(add, ListV):
                    st.env[n.func.value.id] = self.binop(ast.Add(), cur, add)
                    return Sym(("none",))
        kwargs = {}
        for k in n.keywords:
            val = self.expr(k.value, st)
            if k.arg is None and isinstance(val, DictV) and all(isinstance(kk, str) for kk, _ in val.items):
                for kk, vv in val.items:          # f(**{"a": x, "b": y})  ==  f(a=x, b=y)
                    kwargs[kk] = vv
            else:
                kwargs[k.arg] = val
        v = self.h.call(self, n, fname, args, kwargs, st) if hasattr(self.h, "call") else None
        if v is not None:
            return v
        if fname == "bool" and len(n.args) == 1 and not n.keywords:
            return BoolV(self.cond(n.args[0], st))       # the truth value of its argument
        v = self.builtin(fname, args, kwargs, st)
        if v is not None:
            return v
        # any(C(k) for k in (a, b, c)) / all(..) over a literal tuple: the disjunction / conjunction of the instances
        if fname in ("any", "all") and len(n.args) == 1 and isinstance(n.args[0], (ast.GeneratorExp, ast.ListComp)) and len(n.args[0].generators) == 1:
            g = n.args[0].generators[0]
            if isinstance(g.iter, (ast.Tuple, ast.List)) and 1 <= len(g.iter.elts) <= 8 and isinstance(g.target, ast.Name):
                fs = []
                for e in g.iter.elts:
                    s3 = st.fork()
                    s3.env[g.target.id] = self.expr(e, st)
                    c = self.cond(n.args[0].elt, s3)
                    flt = [self.cond(x, s3) for x in g.ifs]
                    fs.append(And(*(flt + [c])) if fname == "any" else Or(*([Not(x) for x in flt] + [c])))
                return BoolV(Or(*fs) if fname == "any" else And(*fs))
        # a call of an inlinable helper in expression position (a condition, an operand): the helper's paths become one
        # conditional value; helpers that can raise stay opaque here (statement-level calls are forked by expr_forks)
        if self.depth > 0:
            tgt = self.inline_target(fname)
            if tgt is not None:
                try:
                    outs = self.inline_call(n, tgt, st)
                except Unsupported:
                    outs = None
                if outs and not any(isinstance(val, _Raise) for _, val in outs):
                    base = len(st.guards)
                    seen = len(st.events)
                    val = outs[-1][1]
                    for s2, v2 in reversed(outs[:-1]):
                        val = Sym(("ite", And(*s2.guards[base:]), v2, val))
                    for s2, _ in outs:
                        for e in s2.events[seen:]:
                            if e[0] != "guard" and e not in st.events[seen:]:
                                st.events.append(e)
                    return val
        if isinstance(n.func, ast.Name) and n.func.id in st.env and not isinstance(st.env[n.func.id], Sym):
            pass
        elif isinstance(n.func, ast.Name) and n.func.id in st.env and isinstance(st.env[n.func.id], Sym) and st.env[n.func.id].key[:1] not in (("name",), ("func",)):
            # the callee is whatever a local variable holds (picked from a table, returned by a call): what is called is not known here
            raise Unsupported("call through the local variable %s (%s)" % (n.func.id, show_value(st.env[n.func.id])[:60]))
        recv0 = self.expr(n.func.value, st) if isinstance(n.func, ast.Attribute) else None
        st.events.append(("call", fname, tuple(vkey(a) for a in args), tuple(sorted(((k or "**"), vkey(x)) for k, x in kwargs.items())), n.lineno, vkey(recv0) if recv0 is not None else None))
        allargs = tuple(vkey(a) for a in args) + tuple((k, vkey(x)) for k, x in sorted(kwargs.items(), key=lambda kv: kv[0] or "**"))
        if isinstance(n.func, ast.Attribute):
            recv = self.expr(n.func.value, st)
            if not (isinstance(recv, Sym) and recv.key == ("name", "self")):
                return Sym(("mcall", vkey(recv), n.func.attr, allargs))
        return Sym(("call", fname, allargs))

    def builtin(self, fname, args, kwargs, st):
        if fname in ("abs", "np.abs", "np.absolute", "numpy.abs", "math.fabs") and len(args) == 1:
            return abs_(to_num(args[0]), self.ctx)
        if fname in ("np.sign", "numpy.sign") and len(args) == 1:
            return sign_(to_num(args[0]), self.ctx)
        if fname in ("min", "max") and len(args) >= 2:
            return minmax(fname.upper(), [to_num(a) for a in args])
        if fname in ("float", "int") and len(args) == 1 and isinstance(args[0], RF) and fname == "float":
            return args[0]
        if fname == "len" and len(args) == 1:
            a = args[0]
            if isinstance(a, (tuple,)):
                return lift(len(a))
            if isinstance(a, ListV):
                return lift(len(a.items))
            return RF.atom(("nn", Sym(("len", vkey(a)))))
        if fname == "list" and len(args) == 1 and isinstance(args[0], ListV):
            return args[0]
        if fname.endswith(".format"):
            return Sym(("str", fname, tuple(vkey(a) for a in args)))
        return None

    # ------------------------------------------------------------ conditions
    def cond(self, n, st):
        if isinstance(n, ast.BoolOp):
            fs = [self.cond(v, st) for v in n.values]
            return And(*fs) if isinstance(n.op, ast.And) else Or(*fs)
        if isinstance(n, ast.UnaryOp) and isinstance(n.op, ast.Not):
            return Not(self.cond(n.operand, st))
        if isinstance(n, ast.Compare):
            fs = []
            left = self.expr(n.left, st)
            lnode = n.left
            for op, rn in zip(n.ops, n.comparators):
                right = self.expr(rn, st)
                fs.append(self.compare(op, left, right, lnode, rn, st))
                left, lnode = right, rn
            return And(*fs)
        # bool(x) in a condition is the truth value of x
        if isinstance(n, ast.Call) and isinstance(n.func, ast.Name) and n.func.id == "bool" and len(n.args) == 1 and not n.keywords:
            return self.cond(n.args[0], st)
        v = self.expr(n, st)
        return self.truthy(v)

    def truthy(self, v):
        v = strip_keyview(v)        # list(D.keys()) is empty exactly when D is
        if hasattr(self.h, "truthy_first"):
            f = self.h.truthy_first(self, v)
            if f is not None:
                return f
        if isinstance(v, BoolV):
            return v.f
        if isinstance(v, Sym) and isinstance(v.key, tuple) and v.key and v.key[0] == "ite":
            return Or(And(v.key[1], self.truthy(v.key[2])), And(Not(v.key[1]), self.truthy(v.key[3])))
        if isinstance(v, bool):
            return v
        if v is None:
            return False
        if isinstance(v, str):
            return v != ""
        if isinstance(v, RF):
            return Not(f_zero(v, self.ctx))
        if isinstance(v, (tuple,)):
            return len(v) > 0
        if isinstance(v, ListV):
            return len(v.items) > 0
        if isinstance(v, DictV):
            return len(v.items) > 0
        f = self.h.truthy(v) if hasattr(self.h, "truthy") else None
        if f is not None:
            return f
        return self.ctx.fold(("T", vkey(v)))

    def compare(self, op, a, b, an, bn, st):
        if isinstance(op, (ast.In, ast.NotIn)):
            f = self.h.contains(a, b) if hasattr(self.h, "contains") else None
            if f is None:
                if isinstance(b, (ListV, tuple)) and not isinstance(a, (Sym, RF)):
                    items = b.items if isinstance(b, ListV) else list(b)
                    f = any(vkey(a) == vkey(x) for x in items)
                elif isinstance(b, (ListV, tuple)):
                    items = b.items if isinstance(b, ListV) else list(b)
                    f = Or(*[self.eq(a, x) for x in items])
                elif isinstance(b, DictV):
                    f = Or(*[self.eq(a, k) for k, _ in b.items]) if b.items else False
                else:
                    f = self.ctx.fold(("IN", vkey(a), vkey(b)))
            return Not(f) if isinstance(op, ast.NotIn) else f
        if isinstance(op, (ast.Is, ast.IsNot)):
            f = self.eq(a, b)
            return Not(f) if isinstance(op, ast.IsNot) else f
        o = CMP[type(op)]
        # np.sign(x) == np.sign(y)
        if o in ("==", "!=") and ((self.is_sign_call(an) and self.is_sign_call(bn)) or (self.is_sign_value(a) and self.is_sign_value(b))):
            f = f_sign_eq(to_num(a), to_num(b), self.ctx)
            return f if o == "==" else Not(f)
        if o in ("==", "!="):
            # x == {} / [] / () / set(): x is empty (the compared value is taken to be a container of that kind)
            for x, y in ((a, b), (b, a)):
                if self.is_empty_container(y) and not self.is_empty_container(x) and not isinstance(x, (str, bool, int, float, Fraction, RF)):
                    f = Not(self.truthy(x))
                    return f if o == "==" else Not(f)
            f = self.eq(a, b)
            return f if o == "==" else Not(f)
        return f_cmp(o, to_num(a), to_num(b), self.ctx)

    def is_empty_container(self, v):
        if isinstance(v, DictV) and not v.items:
            return True
        if isinstance(v, ListV) and not v.items:
            return True
        if isinstance(v, tuple) and len(v) == 0:
            return True
        return isinstance(v, Sym) and isinstance(v.key, tuple) and len(v.key) == 3 and v.key[0] == "call" and v.key[1] in ("set", "dict", "list", "tuple", "frozenset") and v.key[2] == ()

    def is_sign_value(self, v):
        """a value that is a sign (+-1 times sign atoms), however it reached the comparison (a local, a helper result)"""
        from .guards import is_sign
        if not isinstance(v, RF) or v.is_const():
            return False
        st = v.single_term()
        return st is not None and abs(st[0]) == 1 and len(st[1]) > 0 and all(is_sign(a) or a[0] == "SGN" for a, _ in st[1])

    def is_sign_call(self, n):
        return isinstance(n, ast.Call) and self.call_name(n) in ("np.sign", "numpy.sign") or (
            isinstance(n, ast.Name) and False)

    def eq(self, a, b):
        num = (RF, int, float, Fraction)
        if isinstance(a, num) and isinstance(b, num) and not isinstance(a, bool) and not isinstance(b, bool):
            return f_zero(to_num(a) - to_num(b), self.ctx)
        const = (str, bool, type(None))
        if isinstance(a, const) and isinstance(b, const):
            return a == b
        if isinstance(a, BoolV) and isinstance(b, bool):
            return a.f if b else Not(a.f)
        if isinstance(b, BoolV) and isinstance(a, bool):
            return b.f if a else Not(b.f)
        if isinstance(a, Sym) and isinstance(b, bool):
            return self.truthy(a) if b else Not(self.truthy(a))
        if isinstance(b, Sym) and isinstance(a, bool):
            return self.truthy(b) if a else Not(self.truthy(b))
        if isinstance(a, (ListV, DictV, tuple)) and isinstance(b, (ListV, DictV, tuple)) and not self._has_sym(a) and not self._has_sym(b):
            return vkey(a) == vkey(b)
        f = self.h.equal(a, b) if hasattr(self.h, "equal") else None
        if f is not None:
            return f
        if isinstance(a, num) and isinstance(b, Sym) or isinstance(b, num) and isinstance(a, Sym):
            return f_zero(to_num(a) - to_num(b), self.ctx)
        ka, kb = vkey(a), vkey(b)
        if ka == kb:
            return True
        if repr(ka) > repr(kb):
            ka, kb = kb, ka
        return self.ctx.fold(("EQ", ka, kb))

    def _has_sym(self, v):
        if isinstance(v, (Sym, RF, BoolV, Vec)):
            return not (isinstance(v, RF) and v.is_const())
        if isinstance(v, tuple):
            return any(self._has_sym(x) for x in v)
        if isinstance(v, ListV):
            return any(self._has_sym(x) for x in v.items)
        if isinstance(v, DictV):
            return any(self._has_sym(x) for _, x in v.items)
        return False


class _Raise:
    def __init__(self, exc, line):
        self.exc = exc
        self.line = line

    def status(self):
        return ("raise", self.exc, self.line)
