"""E4 - idiom matchers: the handful of loops the properties depend on, each in its accepted spellings.
Anything else at those sites is an AnalysisError (the checker then knows nothing), never a verdict."""
import ast
from .core import AnalysisError


def _range_len(it):
    """range(len(X)) -> X ; reversed(range(len(X))) -> (X, reversed) ; else None"""
    rev = False
    if isinstance(it, ast.Call) and isinstance(it.func, ast.Name) and it.func.id == "reversed" and len(it.args) == 1:
        rev = True
        it = it.args[0]
    if isinstance(it, ast.Call) and isinstance(it.func, ast.Name) and it.func.id == "range":
        a = it.args
        if len(a) == 1 and isinstance(a[0], ast.Call) and isinstance(a[0].func, ast.Name) and a[0].func.id == "len" and len(a[0].args) == 1:
            return a[0].args[0], rev
        # range(len(X)-1, -1, -1)
        if len(a) == 3 and all(isinstance(x, ast.UnaryOp) and isinstance(x.op, ast.USub) and isinstance(x.operand, ast.Constant) and x.operand.value == 1 for x in a[1:]) \
                and isinstance(a[0], ast.BinOp) and isinstance(a[0].op, ast.Sub) and isinstance(a[0].right, ast.Constant) and a[0].right.value == 1 \
                and isinstance(a[0].left, ast.Call) and isinstance(a[0].left.func, ast.Name) and a[0].left.func.id == "len":
            return a[0].left.args[0], True
    return None


_DEENUM = {}


def _deenumerate(loop):
    """for i, e in enumerate(X): ..e..   ->   for i in range(len(X)): ..X[i]..   (on a copy; e must not be re-bound)"""
    if id(loop) in _DEENUM:
        return _DEENUM[id(loop)][1]
    out = loop
    it = loop.iter
    if isinstance(it, ast.Call) and isinstance(it.func, ast.Name) and it.func.id == "enumerate" and len(it.args) == 1 and not it.keywords \
            and isinstance(loop.target, ast.Tuple) and len(loop.target.elts) == 2 and all(isinstance(e, ast.Name) for e in loop.target.elts):
        i, e = loop.target.elts[0].id, loop.target.elts[1].id
        rebound = any(isinstance(x, ast.Name) and x.id == e and isinstance(x.ctx, ast.Store) for s in loop.body for x in ast.walk(s))
        if not rebound:
            from .core import clone_ast
            new = clone_ast(loop)
            X = new.iter.args[0]

            class Sub(ast.NodeTransformer):
                def visit_Name(self, n):
                    if n.id == e and isinstance(n.ctx, ast.Load):
                        return ast.copy_location(ast.Subscript(value=clone_ast(X), slice=ast.Name(id=i, ctx=ast.Load()), ctx=ast.Load()), n)
                    return n
            new.body = [Sub().visit(s) for s in new.body]
            new.target = ast.Name(id=i, ctx=ast.Store())
            new.iter = ast.Call(func=ast.Name(id="range", ctx=ast.Load()), args=[ast.Call(func=ast.Name(id="len", ctx=ast.Load()), args=[clone_ast(X)], keywords=[])], keywords=[])
            ast.fix_missing_locations(new)
            out = new
    elif isinstance(it, ast.Call) and isinstance(it.func, ast.Name) and it.func.id == "enumerate" and len(it.args) == 1 and not it.keywords \
            and isinstance(it.args[0], ast.Call) and isinstance(it.args[0].func, ast.Name) and it.args[0].func.id == "zip" and not it.args[0].keywords \
            and isinstance(loop.target, ast.Tuple) and len(loop.target.elts) == 2 and isinstance(loop.target.elts[0], ast.Name) \
            and isinstance(loop.target.elts[1], ast.Tuple) and len(loop.target.elts[1].elts) == len(it.args[0].args) >= 1 \
            and all(isinstance(e, ast.Name) for e in loop.target.elts[1].elts):
        # for i, (a, b) in enumerate(zip(A, B)): ..a..b..  ->  for i in range(len(A)): ..A[i]..B[i]..   (A and B are of one length: zip stops at the shorter)
        i = loop.target.elts[0].id
        names = {e.id: k for k, e in enumerate(loop.target.elts[1].elts)}
        rebound = any(isinstance(x, ast.Name) and x.id in names and isinstance(x.ctx, ast.Store) for s in loop.body for x in ast.walk(s))
        if not rebound and len(names) == len(loop.target.elts[1].elts):
            from .core import clone_ast
            new = clone_ast(loop)
            XS = new.iter.args[0].args

            class Sub2(ast.NodeTransformer):
                def visit_Name(self, n):
                    if n.id in names and isinstance(n.ctx, ast.Load):
                        return ast.copy_location(ast.Subscript(value=clone_ast(XS[names[n.id]]), slice=ast.Name(id=i, ctx=ast.Load()), ctx=ast.Load()), n)
                    return n
            new.body = [Sub2().visit(s) for s in new.body]
            new.target = ast.Name(id=i, ctx=ast.Store())
            new.iter = ast.Call(func=ast.Name(id="range", ctx=ast.Load()), args=[ast.Call(func=ast.Name(id="len", ctx=ast.Load()), args=[clone_ast(XS[0])], keywords=[])], keywords=[])
            ast.fix_missing_locations(new)
            out = new
    _DEENUM[id(loop)] = (loop, out)      # keep the original alive so that its id is not reused
    return out


class FirstMatch:
    """result of recognising  'smallest index i of X with C(i), else default' (form A, B, C) or its mirror
    'largest index' (form *-last: scan direction and stop/overwrite discipline do not combine to first-match)"""

    @property
    def first(self):
        return not self.form.endswith("-last")

    def __init__(self, loop, over, var, cond, result, default, form):
        self.loop, self.over, self.var, self.cond, self.result, self.default, self.form = loop, over, var, cond, result, default, form


def scan_form(lp):
    """(form, loop, over, var, test, result name) of an index scan, or None"""
    lp = _deenumerate(lp)
    rl = _range_len(lp.iter)
    if rl is None or not isinstance(lp.target, ast.Name) or lp.orelse:
        return None
    over, rev = rl
    if len(lp.body) != 1 or not isinstance(lp.body[0], ast.If) or lp.body[0].orelse:
        return None
    iff = lp.body[0]
    body = iff.body
    var = lp.target.id
    asg = isinstance(body[0], ast.Assign) and isinstance(body[0].targets[0], ast.Name) and isinstance(body[0].value, ast.Name) and body[0].value.id == var
    if len(body) == 2 and asg and isinstance(body[1], ast.Break):
        return ("A" if not rev else "A-last", lp, over, var, iff.test, body[0].targets[0].id)
    if len(body) == 1 and asg:
        return ("B" if rev else "B-last", lp, over, var, iff.test, body[0].targets[0].id)
    if len(body) == 1 and isinstance(body[0], ast.Return) and isinstance(body[0].value, ast.Name) and body[0].value.id == var:
        return ("C" if not rev else "C-last", lp, over, var, iff.test, None)
    return None


def exit_scan(lp):
    """for i in range(len(X)): <tree of ifs whose leaves are `return e`, `continue`, `pass` or nothing>
    -> (loop, X, i, [(conditions as (test, polarity) list, returned expression)]) or None; the paths exclude each other"""
    lp = _deenumerate(lp)
    rl = _range_len(lp.iter)
    if rl is None or rl[1] or not isinstance(lp.target, ast.Name) or lp.orelse:
        return None
    paths = []

    def walk(stmts, conds):
        """-> True when every way through stmts returns"""
        for k, s in enumerate(stmts):
            if isinstance(s, ast.Return):
                paths.append((list(conds), s.value))
                return True
            if isinstance(s, ast.Continue):
                return True
            if isinstance(s, ast.Pass) or (isinstance(s, ast.Expr) and isinstance(s.value, ast.Constant)):
                continue
            if isinstance(s, ast.If):
                rest = stmts[k + 1:]
                a = walk(s.body + rest, conds + [(s.test, True)])
                b = walk(s.orelse + rest, conds + [(s.test, False)])
                if a is None or b is None:
                    return None
                return a and b
            return None
        return False
    if walk(lp.body, []) is None or not paths:
        return None
    return lp, rl[0], lp.target.id, paths


def first_match(stmts, what):
    """find the first-match scan in a statement list.  Accepted forms:
       A  r = d; for i in range(len(X)): if C(i): r = i; break
       B  r = d; for i in reversed(range(len(X))): if C(i): r = i            (overwrite, last writer = smallest index)
       C  for i in range(len(X)): if C(i): return i        ... return d
    """
    loops = [_deenumerate(s) for s in stmts if isinstance(s, ast.For)]
    stmts = [(_deenumerate(s) if isinstance(s, ast.For) else s) for s in stmts]
    loops = [s for s in stmts if isinstance(s, ast.For)]
    cands = []
    for lp in loops:
        c = scan_form(lp)
        if c is not None:
            cands.append(c)
    if not cands and len(loops) == 1:
        es = exit_scan(loops[0])
        after = stmts[stmts.index(loops[0]) + 1:]
        if es is not None and len(after) == 1 and isinstance(after[0], ast.Return):
            fm = FirstMatch(es[0], es[1], es[2], None, None, after[0].value, "D")
            fm.paths = es[3]
            return fm
    if len(cands) != 1:
        raise AnalysisError("%s: first-match scan not recognised (%d candidate loops of %d)" % (what, len(cands), len(loops)))
    form, lp, over, var, test, res = cands[0]
    default = None
    idx = stmts.index(lp)
    if form[0] in "AB":
        for s in stmts[:idx]:
            if isinstance(s, ast.Assign) and isinstance(s.targets[0], ast.Name) and s.targets[0].id == res:
                default = s.value
        for s in stmts[idx + 1:]:
            for n in ast.walk(s):
                if isinstance(n, ast.Name) and n.id == res and isinstance(n.ctx, ast.Store):
                    raise AnalysisError("%s: scan result is re-assigned after the loop" % what)
    else:
        for s in stmts[idx + 1:]:
            if isinstance(s, ast.Return):
                default = s.value
                break
    if default is None:
        raise AnalysisError("%s: default of the scan not found" % what)
    return FirstMatch(lp, over, var, test, res, default, form)


def const_int(node):
    if isinstance(node, ast.Constant) and isinstance(node.value, int):
        return node.value
    if isinstance(node, ast.UnaryOp) and isinstance(node.op, ast.USub) and isinstance(node.operand, ast.Constant):
        return -node.operand.value
    return None


# ------------------------------------------------------------------------------------------ pandas selections
class Sel:
    """df[<pred>][<col>].<reducer>  as a canonical record"""

    def __init__(self, frame, conds, col, reducer):
        self.frame, self.conds, self.col, self.reducer = frame, frozenset(conds), col, reducer

    def key(self):
        return (self.frame, tuple(sorted(self.conds)), self.col, self.reducer)

    def __repr__(self):
        return "%s(%s | %s)" % (self.reducer, self.col, " & ".join("%s%s%s" % c for c in sorted(self.conds)) or "all")


def _col_of(node, frame):
    """df.Col / df["Col"] -> 'Col'"""
    if isinstance(node, ast.Attribute) and isinstance(node.value, ast.Name) and node.value.id == frame:
        return node.attr
    if isinstance(node, ast.Subscript) and isinstance(node.value, ast.Name) and node.value.id == frame and isinstance(node.slice, ast.Constant):
        return node.slice.value
    return None


def parse_pred(node, frame, resolve):
    """conjunction of  df.C == x / df["C"] != x  -> set of (col, op, canonical value text)"""
    if isinstance(node, ast.BinOp) and isinstance(node.op, ast.BitAnd):
        a, b = parse_pred(node.left, frame, resolve), parse_pred(node.right, frame, resolve)
        return None if a is None or b is None else a | b
    if isinstance(node, ast.Compare) and len(node.ops) == 1 and isinstance(node.ops[0], (ast.Eq, ast.NotEq)):
        col = _col_of(node.left, frame)
        val = node.comparators[0]
        if col is None:
            col = _col_of(node.comparators[0], frame)
            val = node.left
        if col is None:
            return None
        return {(col, "==" if isinstance(node.ops[0], ast.Eq) else "!=", resolve(val))}
    # an ordering comparison on a column is a condition too (never the one a report cell should use, but readable)
    if isinstance(node, ast.Compare) and len(node.ops) == 1 and isinstance(node.ops[0], (ast.Lt, ast.LtE, ast.Gt, ast.GtE)):
        txt = {ast.Lt: "<", ast.LtE: "<=", ast.Gt: ">", ast.GtE: ">="}[type(node.ops[0])]
        flip = {"<": ">", "<=": ">=", ">": "<", ">=": "<="}
        col = _col_of(node.left, frame)
        if col is not None:
            return {(col, txt, resolve(node.comparators[0]))}
        col = _col_of(node.comparators[0], frame)
        if col is not None:
            return {(col, flip[txt], resolve(node.left))}
        return None
    if isinstance(node, ast.Name):
        r = resolve(node)
        if isinstance(r, frozenset):
            return set(r)
    # masks[r] with  masks = {k: df["C"] == k for k in ...}: the predicate of the map with the key put in
    if isinstance(node, ast.Subscript) and isinstance(node.value, ast.Name):
        r = resolve(node.value)
        if isinstance(r, tuple) and r[:1] == ("predmap",):
            key = resolve(node.slice)
            return {(c, op, key if v == ("compvar", r[1]) else v) for c, op, v in r[2]}
    return None


def parse_selection(node, frame, resolve):
    """recognise df[P][C].sum() | sum(df[P][C]) | df[P][C].values[0] | .tolist()[0] | .max() | .unique() | .tolist()"""
    reducer = None
    cur = node
    if isinstance(cur, ast.Call) and isinstance(cur.func, ast.Name) and cur.func.id == "sum" and len(cur.args) == 1:
        reducer, cur = "sum", cur.args[0]
    elif isinstance(cur, ast.Call) and isinstance(cur.func, ast.Attribute) and cur.func.attr in ("sum", "max", "min") and not cur.args:
        reducer, cur = cur.func.attr, cur.func.value
    elif isinstance(cur, ast.Subscript) and const_int(cur.slice) == 0:
        inner = cur.value
        if isinstance(inner, ast.Attribute) and inner.attr == "values":
            reducer, cur = "first", inner.value
        elif isinstance(inner, ast.Call) and isinstance(inner.func, ast.Attribute) and inner.func.attr in ("tolist", "to_list") and not inner.args:
            reducer, cur = "first", inner.func.value
        elif isinstance(inner, ast.Attribute) and inner.attr == "iloc":
            reducer, cur = "first", inner.value
    elif isinstance(cur, ast.Call) and isinstance(cur.func, ast.Attribute) and cur.func.attr in ("tolist", "to_list", "unique") and not cur.args:
        reducer, cur = ("unique" if cur.func.attr == "unique" else "list"), cur.func.value
        if isinstance(cur, ast.Call) and isinstance(cur.func, ast.Attribute) and cur.func.attr == "unique":
            reducer, cur = "unique", cur.func.value
    if reducer is None:
        return None
    # cur must be df[P][C] or df[C]
    if not (isinstance(cur, ast.Subscript) and isinstance(cur.slice, ast.Constant) and isinstance(cur.slice.value, str)):
        return None
    col = cur.slice.value
    base = cur.value
    if isinstance(base, ast.Name) and base.id == frame:
        return Sel(frame, set(), col, reducer)
    if isinstance(base, ast.Name):
        r = resolve(base)       # rows = df[P]  ...  rows[C]
        if isinstance(r, tuple) and r[:1] == ("fframe",):
            return Sel(frame, set(r[1]), col, reducer)
    if isinstance(base, ast.Subscript) and isinstance(base.value, ast.Name) and base.value.id == frame:
        conds = parse_pred(base.slice, frame, resolve)
        if conds is None:
            return None
        return Sel(frame, conds, col, reducer)
    return None
