"""Reference texts of the edit / configuration methods of System (C14, C15, C16).  PARSED, NEVER EXECUTED (see
sa/refcmp.py).  They state which checks precede which registry / graph modification, in which order the name registries and
the input-order registry are written, and what a rejected call raises.  Private helpers of System that only check
(_chk_parent, _chk_comp, _chk_name) are written out by the comparison on both sides."""


def add_comp(self, parent, *, comp, group='', rail=''):
    if isinstance(parent, list):
        if len(parent) > len(set(parent)):
            raise ValueError('parent paramenter contains duplicates!')
        if comp._component_type != _ComponentTypes.PMUX:
            raise ValueError('only PMux component can have multiple inputs!')
        for p in parent:
            self._chk_parent(p)
        plist = parent
    else:
        self._chk_parent(parent)
        plist = [parent]
    self._chk_name(comp._params['name'], rail)
    pidx = []
    for p in plist:
        pidx += [self._get_index(p)]
        if not comp._component_type in self._g[pidx[-1]]._child_types:
            raise ValueError('Parent {} does not allow child of type {}!'.format(p, comp._component_type.name))
    if comp._component_type.name == 'PMUX':
        for key in self._g.attrs['nodes']:
            if self._g[self._g.attrs['nodes'][key]]._component_type.name == 'PMUX':
                raise ValueError('a system can only have one PMux')
    if comp._component_type == _ComponentTypes.LOAD and rail != '':
        warn('rail parameter ignored, not applicable on loads', stacklevel=2)
        rail = ''
    cidx = self._g.add_child(pidx[0], comp, None)
    self._g.attrs['nodes'][comp._params['name']] = cidx
    self._g.attrs['phase_conf'][comp._params['name']] = {}
    self._g.attrs['groups'][comp._params['name']] = group
    self._g.attrs['pnames'][cidx] = pidx
    self._g.attrs['rails'][comp._params['name']] = rail
    if len(pidx) > 1:
        for p in range(1, len(pidx), 1):
            self._g.add_edge(pidx[p], cidx, None)


def add_source(self, source, *, group='', rail=''):
    self._chk_name(source._params['name'], rail)
    if not isinstance(source, Source):
        raise ValueError('Component must be a source!')
    cidx = self._g.add_node(source)
    self._g.attrs['nodes'][source._params['name']] = cidx
    self._g.attrs['phase_conf'][source._params['name']] = {}
    self._g.attrs['groups'][source._params['name']] = group
    self._g.attrs['rails'][source._params['name']] = rail
    self._g.attrs['pnames'][cidx] = []


def change_comp(self, name, *, comp, group='', rail=''):
    self._chk_comp(name)
    if name != comp._params['name']:
        self._chk_name(comp._params['name'], rail)
    elif rail != '':
        if name == rail:
            raise ValueError('Component name and rail name cannot be the same!')
        orails = [self._g.attrs['rails'][k] for k in self._g.attrs['rails'] if k != name]
        if rail in self._g.attrs['nodes'].keys() or rail in orails:
            raise ValueError('Rail name "{}" is already used!'.format(rail))
    eidx = self._get_index(name)
    if self._g[eidx]._component_type == _ComponentTypes.SOURCE:
        if not isinstance(comp, Source):
            raise ValueError('Source cannot be changed to other type!')
    if self._g[eidx]._component_type == _ComponentTypes.PMUX:
        if not isinstance(comp, PMux):
            raise ValueError('PMux cannot be changed to other type!')
    elif comp._component_type == _ComponentTypes.PMUX:
        for key in self._g.attrs['nodes']:
            if self._g[self._g.attrs['nodes'][key]]._component_type.name == 'PMUX':
                raise ValueError('a system can only have one PMux')
    parents = self._get_parents()
    if parents[eidx] != -1:
        if not comp._component_type in self._g[parents[eidx][0]]._child_types:
            raise ValueError('Parent does not allow child of type {}!'.format(comp._component_type.name))
    childs = self._get_childs()
    if childs[eidx] != -1:
        for c in childs[eidx]:
            if not self._g[c]._component_type in comp._child_types:
                raise ValueError('Component of type {} does not allow child of type {}!'.format(comp._component_type.name, self._g[c]._component_type.name))
    if comp._component_type == _ComponentTypes.LOAD and rail != '':
        warn('rail parameter ignored, not applicable on loads', stacklevel=2)
        rail = ''
    self._g[eidx] = comp
    del [self._g.attrs['nodes'][name]]
    self._g.attrs['nodes'][comp._params['name']] = eidx
    del [self._g.attrs['phase_conf'][name]]
    self._g.attrs['phase_conf'][comp._params['name']] = {}
    del [self._g.attrs['groups'][name]]
    self._g.attrs['groups'][comp._params['name']] = group
    del [self._g.attrs['rails'][name]]
    self._g.attrs['rails'][comp._params['name']] = rail


def del_comp(self, name, *, del_childs=True):
    if not name in self._g.attrs['nodes'].keys():
        raise ValueError('Component name does not exist!')
    eidx = self._get_index(name)
    parents = self._get_parents()
    if parents[eidx] == -1:
        if not del_childs:
            raise ValueError('Source must be deleted with its childs')
        if len(self._get_sources()) < 2:
            raise ValueError('Cannot delete the last source component!')
    childs = self._get_childs()
    if del_childs:
        for c in rx.descendants(self._g, eidx):
            del [self._g.attrs['nodes'][self._g[c]._params['name']]]
            del [self._g.attrs['phase_conf'][self._g[c]._params['name']]]
            del [self._g.attrs['groups'][self._g[c]._params['name']]]
            del [self._g.attrs['rails'][self._g[c]._params['name']]]
            self._g.remove_node(c)
    self._g.remove_node(eidx)
    del [self._g.attrs['nodes'][name]]
    del [self._g.attrs['phase_conf'][name]]
    del [self._g.attrs['groups'][name]]
    del [self._g.attrs['rails'][name]]
    if not del_childs:
        if childs[eidx] != -1:
            for c in childs[eidx]:
                self._g.add_edge(parents[eidx][0], c, None)
                pn = [parents[eidx][0] if i == eidx else i for i in self._g.attrs['pnames'][c]]
                self._g.attrs['pnames'][c] = list(dict.fromkeys(pn))


def set_sys_phases(self, phases):
    if len(list(phases.keys())) < 2 and phases != {}:
        raise ValueError('There must be at least two phases!')
    if 'N/A' in list(phases.keys()):
        raise ValueError('"N/A" is a reserved name!')
    self._g.attrs['phases'] = phases


def set_comp_phases(self, name, phase_conf):
    cidx = self._get_index(name)
    if cidx == -1:
        raise ValueError('Component name does not exist!')
    if not isinstance(phase_conf, dict) and (not isinstance(phase_conf, list)):
        raise ValueError('phase_conf must be a dict or list!')
    if isinstance(self._g[cidx], RLoss) or isinstance(self._g[cidx], VLoss):
        raise ValueError('Loss components does not support load phases!')
    self._g.attrs['phase_conf'][self._g[cidx]._params['name']] = phase_conf
