"""E4 - sequential reader for the table-aggregation sections of system.py (solve() roll-ups, rail_rep()):
turns pandas selections, frame updates and list appends into canonical records that a rule can compare with
its expected table.  Straight-line + if/for only; anything else is an AnalysisError."""
import ast
from .core import AnalysisError
from .idioms import parse_selection, Sel, const_int, parse_pred


class Reader:
    MODEL = None     # set by the rule modules: lets the reader look into one-expression helpers of System

    def __init__(self, frame, env=None, special=None):
        self.frame = frame
        self.env = dict(env or {})        # name -> descriptor
        self.updates = []                 # (conds, rowdesc, column, valuedesc, line)
        self.appends = {}                 # name -> [(conds, desc, line)]
        self.special = special or (lambda node, rd: None)
        self.skips = []                   # (conds, predicate descriptor, line) for `if <empty>: continue`
        self.breaks = []                  # the same for `if ..: break`

    # ---------------------------------------------------------------- descriptors
    def desc(self, n):
        sp = self.special(n, self)
        if sp is not None:
            return sp
        if isinstance(n, ast.Constant):
            return ("const", n.value)
        if isinstance(n, ast.Name):
            return self.env.get(n.id, ("name", n.id))
        sel = parse_selection(n, self.frame, self.res)
        if sel is not None:
            return ("sel",) + sel.key()[1:]
        if isinstance(n, ast.Call):
            fn = ast.unparse(n.func)
            # self.<helper>(..) whose body is a single `return <expr>`: read the expression with the arguments bound
            if fn.startswith("self.") and fn[5:].isidentifier() and Reader.MODEL is not None and not n.keywords:
                h = Reader.MODEL.own_method("System", fn[5:])
                if h is not None:
                    body = [s for s in h.body if not (isinstance(s, ast.Expr) and isinstance(s.value, ast.Constant))]
                    params = [a.arg for a in h.args.args][1:]
                    if len(body) == 1 and isinstance(body[0], ast.Return) and body[0].value is not None and len(params) == len(n.args) \
                            and not any(isinstance(c, ast.Call) and ast.unparse(c.func).startswith("self.") for c in ast.walk(body[0].value)):
                        sub_ = Reader(self.frame, env=dict(self.env), special=self.special)
                        for p_, a_ in zip(params, n.args):
                            sub_.env[p_] = self.desc(a_)
                        return sub_.desc(body[0].value)
            if fn == "_get_eff" and len(n.args) >= 2:
                return ("eff", self.desc(n.args[0]), self.desc(n.args[1]))
            if fn.endswith("._calc_energy") and len(n.args) == 2:
                return ("energy", self.desc(n.args[0]), self.desc(n.args[1]))
            if fn in ("np.asarray", "np.array", "list", "float") and len(n.args) == 1:
                return self.desc(n.args[0])
            if fn == "np.sum" and len(n.args) == 1:
                return ("SUM", self.desc(n.args[0]))
            if fn == "np.multiply" and len(n.args) == 2:
                return ("MUL",) + tuple(sorted([self.desc(n.args[0]), self.desc(n.args[1])], key=repr))
            if fn in ("sorted", "set") and len(n.args) == 1 and not n.keywords:
                # iterating a bare column selection is iterating its values: set(df[P][C]) = set(df[P][C].tolist())
                a0 = n.args[0]
                if isinstance(a0, ast.Subscript) and isinstance(a0.slice, ast.Constant) and isinstance(a0.slice.value, str):
                    aslist = ast.Call(func=ast.Attribute(value=a0, attr="tolist", ctx=ast.Load()), args=[], keywords=[])
                    sel2 = parse_selection(aslist, self.frame, self.res)
                    if sel2 is not None:
                        return (fn, ("sel",) + sel2.key()[1:])
                return (fn, self.desc(a0))
            if fn.endswith(".join") and len(n.args) == 1 and isinstance(n.func, ast.Attribute) and isinstance(n.func.value, ast.Constant):
                return ("join", n.func.value.value, self.desc(n.args[0]))
            if fn.endswith(".format") and isinstance(n.func, ast.Attribute) and isinstance(n.func.value, ast.Constant):
                return ("fmt", n.func.value.value) + tuple(self.desc(a) for a in n.args)
            return ("call", fn) + tuple(self.desc(a) for a in n.args) + tuple((k.arg, self.desc(k.value)) for k in n.keywords)
        if isinstance(n, ast.BinOp):
            op = type(n.op).__name__
            # set(..) - {""}: the set with the empty text removed (whether or not it was present)
            if op == "Sub" and isinstance(n.right, ast.Set) and len(n.right.elts) == 1 and isinstance(n.right.elts[0], ast.Constant):
                return ("removed", self.desc(n.left), ("const", n.right.elts[0].value), ("always",))
            a, b = self.desc(n.left), self.desc(n.right)
            if op in ("Add", "Mult"):
                a, b = sorted([a, b], key=repr)
            return (op, a, b)
        if isinstance(n, ast.Subscript):
            return ("sub", self.desc(n.value), self.desc(n.slice))
        if isinstance(n, ast.Attribute):
            return ("attr", self.desc(n.value), n.attr)
        if isinstance(n, ast.UnaryOp) and isinstance(n.op, ast.USub):
            c = const_int(n)
            if c is not None:
                return ("const", c)
            return ("neg", self.desc(n.operand))
        if isinstance(n, ast.List):
            return ("list",) + tuple(self.desc(e) for e in n.elts)
        if isinstance(n, ast.Compare) or isinstance(n, ast.BoolOp) or isinstance(n, ast.UnaryOp):
            return ("expr", ast.unparse(n))
        return ("expr", ast.unparse(n))

    def res(self, node):
        """canonical text of a value inside a selection predicate; a name bound to a predicate resolves to its conditions"""
        if isinstance(node, ast.Name) and node.id in self.env and isinstance(self.env[node.id], tuple) and self.env[node.id][:1] in (("predmap",), ("compvar",)):
            return self.env[node.id]
        if isinstance(node, ast.Name) and node.id in self.env and isinstance(self.env[node.id], tuple) and self.env[node.id][:1] == ("pred",):
            return self.env[node.id][1]
        if isinstance(node, ast.Name) and node.id in self.env and isinstance(self.env[node.id], tuple) and self.env[node.id][:1] == ("fframe",):
            return self.env[node.id]
        d = self.desc(node)
        return d

    # ---------------------------------------------------------------- statements
    @staticmethod
    def deaug(s):
        """f &= X  ->  f = f & X  (also inside a one-statement `if`)"""
        def one(x):
            if isinstance(x, ast.AugAssign) and isinstance(x.op, ast.BitAnd) and isinstance(x.target, ast.Name):
                return ast.copy_location(ast.Assign(targets=[ast.Name(id=x.target.id, ctx=ast.Store())],
                                                    value=ast.BinOp(left=ast.Name(id=x.target.id, ctx=ast.Load()), op=ast.BitAnd(), right=x.value)), x)
            return x
        if isinstance(s, ast.If) and len(s.body) == 1 and not s.orelse and isinstance(s.body[0], ast.AugAssign):
            n = one(s.body[0])
            if n is not s.body[0]:
                s2 = ast.copy_location(ast.If(test=s.test, body=[n], orelse=[]), s)
                ast.fix_missing_locations(s2)
                return s2
        n = one(s)
        if n is not s:
            ast.fix_missing_locations(n)
        return n

    def run(self, stmts, conds=()):
        for s in stmts:
            self.stmt(s, conds)

    def stmt(self, s, conds):
        s = self.deaug(s)
        if isinstance(s, ast.Assign) and len(s.targets) == 1:
            t = s.targets[0]
            if isinstance(t, ast.Name):
                # a filtered frame bound to a name:  rows = df[filt]
                if isinstance(s.value, ast.Subscript) and isinstance(s.value.value, ast.Name) and s.value.value.id == self.frame \
                        and not isinstance(s.value.slice, ast.Constant):
                    fp = parse_pred(s.value.slice, self.frame, self.res)
                    if fp is not None:
                        self.env[t.id] = ("fframe", frozenset(fp))
                        return
                # a map of predicates built once:  masks = {k: df["A"] == k for k in keys}
                if isinstance(s.value, ast.DictComp) and len(s.value.generators) == 1 and not s.value.generators[0].ifs \
                        and isinstance(s.value.generators[0].target, ast.Name) and isinstance(s.value.key, ast.Name) \
                        and s.value.key.id == s.value.generators[0].target.id:
                    k = s.value.key.id
                    saved = self.env.get(k)
                    self.env[k] = ("compvar", k)
                    pm = parse_pred(s.value.value, self.frame, self.res)
                    if saved is None:
                        del self.env[k]
                    else:
                        self.env[k] = saved
                    if pm is not None:
                        self.env[t.id] = ("predmap", k, frozenset(pm))
                        return
                # a predicate bound to a name:  filt = (df["A"] == x) & (...)
                pr = parse_pred(s.value, self.frame, self.res)
                if pr is not None:
                    prev = self.env.get(t.id)
                    self.env[t.id] = ("pred", frozenset(pr))
                    self.env.setdefault("__preds__", {})
                    self.env["__preds__"].setdefault(t.id, []).append((conds, frozenset(pr)))
                    return
                self.env[t.id] = self.desc(s.value)
                return
            if isinstance(t, ast.Tuple) and isinstance(s.value, ast.Tuple) and len(t.elts) == len(s.value.elts):
                for a, b in zip(t.elts, s.value.elts):
                    if isinstance(a, ast.Name):
                        self.env[a.id] = self.desc(b)
                return
            # df.at[idx, "Col"] = value
            if isinstance(t, ast.Subscript) and isinstance(t.value, ast.Attribute) and t.value.attr in ("at", "loc") \
                    and isinstance(t.value.value, ast.Name) and t.value.value.id == self.frame and isinstance(t.slice, ast.Tuple) and len(t.slice.elts) == 2:
                row, col = t.slice.elts
                if not (isinstance(col, ast.Constant) and isinstance(col.value, str)):
                    raise AnalysisError("frame update with a computed column at line %d" % s.lineno)
                self.updates.append((conds, self.desc(row), col.value, self.desc(s.value), s.lineno))
                return
            # res["Header"] = name
            if isinstance(t, ast.Subscript) and isinstance(t.value, ast.Name) and isinstance(t.slice, ast.Constant):
                v = ("name", s.value.id) if isinstance(s.value, ast.Name) else self.desc(s.value)
                self.updates.append((conds, ("dict", t.value.id), t.slice.value, v, s.lineno))
                return
            raise AnalysisError("aggregation section: unsupported assignment at line %d" % s.lineno)
        if isinstance(s, ast.AugAssign) and isinstance(s.target, ast.Name) and isinstance(s.op, ast.Add):
            if isinstance(s.value, ast.List) and len(s.value.elts) == 1:
                self.appends.setdefault(s.target.id, []).append((conds, self.desc(s.value.elts[0]), s.lineno))
                return
            self.env[s.target.id] = ("Add",) + tuple(sorted([self.env.get(s.target.id, ("name", s.target.id)), self.desc(s.value)], key=repr))
            return
        if isinstance(s, ast.If) and len(s.body) == 1 and len(s.orelse) == 1 and isinstance(s.body[0], ast.Assign) and isinstance(s.orelse[0], ast.Assign) \
                and isinstance(s.body[0].targets[0], ast.Name) and isinstance(s.orelse[0].targets[0], ast.Name) \
                and s.body[0].targets[0].id == s.orelse[0].targets[0].id:
            pa = parse_pred(s.body[0].value, self.frame, self.res)
            pb = parse_pred(s.orelse[0].value, self.frame, self.res)
            if pa is not None and pb is not None:
                self.env[s.body[0].targets[0].id] = ("pred", frozenset({("__ite__", ast.unparse(s.test), tuple(sorted(pa, key=repr)), tuple(sorted(pb, key=repr)))}))
                return
        # `if T: filt = filt & (...)` without else: the predicate is refined under T
        if isinstance(s, ast.If) and len(s.body) == 1 and not s.orelse and isinstance(s.body[0], ast.Assign) and isinstance(s.body[0].targets[0], ast.Name) \
                and isinstance(self.env.get(s.body[0].targets[0].id), tuple) and self.env[s.body[0].targets[0].id][:1] == ("pred",):
            nm = s.body[0].targets[0].id
            pa = parse_pred(s.body[0].value, self.frame, self.res)
            pb = self.env[nm][1]
            if pa is not None and not any(isinstance(x, tuple) and x and x[0] == "__ite__" for x in pb):
                self.env[nm] = ("pred", frozenset({("__ite__", ast.unparse(s.test), tuple(sorted(pa, key=repr)), tuple(sorted(pb, key=repr)))}))
                return
        if isinstance(s, ast.If):
            c = ast.unparse(s.test)
            # `if <emptiness test>: continue` records a skip
            if len(s.body) == 1 and isinstance(s.body[0], ast.Continue) and not s.orelse:
                self.skips.append((conds, self.desc_test(s.test), s.lineno))
                return
            if len(s.body) == 1 and isinstance(s.body[0], ast.Break) and not s.orelse:
                self.breaks.append((conds, self.desc_test(s.test), s.lineno))      # ends the loop: every later cell is dropped
                return
            self.run(s.body, conds + (("if", c),))
            self.run(s.orelse, conds + (("ifnot", c),))
            return
        if isinstance(s, ast.For):
            tgt = ast.unparse(s.target)
            self.env_loop(s)
            self.run(s.body, conds + (("for", tgt, ast.unparse(s.iter)),))
            return
        if isinstance(s, ast.Expr):
            if isinstance(s.value, ast.Constant):
                return
            c = s.value
            if isinstance(c, ast.Call) and isinstance(c.func, ast.Attribute) and isinstance(c.func.value, ast.Name):
                # x.remove(v) / df.drop(...) / df.reset_index(...)
                recv, meth = c.func.value.id, c.func.attr
                if meth == "remove" and len(c.args) == 1:
                    self.env[recv] = ("removed", self.env.get(recv, ("name", recv)), self.desc(c.args[0]), conds)
                    return
                if meth == "append" and len(c.args) == 1:
                    self.appends.setdefault(recv, []).append((conds, self.desc(c.args[0]), s.lineno))
                    return
                self.updates.append((conds, ("call", recv), meth, self.desc(c), s.lineno))
                return
            return
        if isinstance(s, (ast.Return, ast.Pass, ast.Continue)):
            if isinstance(s, ast.Return):
                self.updates.append((conds, ("return",), "", self.desc(s.value) if s.value is not None else ("const", None), s.lineno))
            return
        raise AnalysisError("aggregation section: unsupported statement %s at line %d" % (type(s).__name__, s.lineno))

    def env_loop(self, s):
        b = self.binder(s, self) if getattr(self, "binder", None) else None
        if b:
            self.env.update(b)
            return
        if isinstance(s.target, ast.Name):
            self.env[s.target.id] = ("loopvar", s.target.id, self.desc(s.iter))

    def desc_test(self, t):
        return ("test", ast.unparse(t), tuple(sorted({n.id: self.env.get(n.id) for n in ast.walk(t) if isinstance(n, ast.Name)}.items(), key=repr)))


def show(d):
    if not isinstance(d, tuple):
        return repr(d)
    t = d[0]
    if t == "sel":
        conds, col, red = d[1], d[2], d[3]
        def sc(c):
            if c[0] == "__ite__":
                return "(%s if %s else %s)" % (" & ".join(sc(x) for x in c[2]), c[1], " & ".join(sc(x) for x in c[3]))
            return "%s%s%s" % (c[0], c[1], show(c[2]))
        return "%s(%s | %s)" % (red, col, " & ".join(sc(c) for c in conds) or "all rows")
    if t == "const":
        return repr(d[1])
    if t == "name":
        return d[1]
    if t in ("eff",):
        return "EFF(%s, %s)" % (show(d[1]), show(d[2]))
    if t == "energy":
        return "energy(%s, %s)" % (show(d[1]), show(d[2]))
    return "%s(%s)" % (t, ", ".join(show(x) for x in d[1:]))
