"""C11 - constructors reject unphysical parameters and normalise signs (DESIGN.md section 4, C11)."""
import ast
from ..core import KINDS, AnalysisError
from ..ctors import ctor_paths, final_params, CtorHooks, ctor_args
from ..laws import summarize_law, NN_PARAMS
from ..terms import RF, lift, Unsupported
from ..guards import Ctx, A, And, Or, Not, atoms_of, show_f, f_pos
from ..summ import Summarizer, State, Sym, ListV, vkey, show_value, to_num, signed
from ..editrules import implies
from ..effects import EditHooks, GuardedSummarizer

EXPLANATION = (
    "Each of the eleven constructors is summarised into its paths (table-flattening loops read as an idiom). (R1) magnitude "
    "taint: every parameter that the laws treat as a non-negative magnitude (the sign lemmas of the term algebra: rs, rt, "
    "iq, iis, pwr, pwrs, ii, vdrop - exactly those the kind's law summaries mention) is, on every accepting scalar path, "
    "stored as abs(argument); constants handed to the constant interpolator are abs(argument) or are implied positive by "
    "the path's checks; the 1-D / 2-D interpolators take magnitudes of all their arrays; a list is stored raw only where "
    "the law takes abs() of the element; (R2) range checks present and correctly oriented: on every accepting path the "
    "guards imply the documented conditions (0 < eff <= 1 scalar and table, |vdrop| < |vo|, rs != 0 for RLoad, tabulated "
    "ig >= 0, numeric resistance lists), tables pass _check_interp with the key that is then read, limits pass "
    "_check_limits, and both helpers reject what they document. (R3) consequence, derived with C02: Loss is a "
    "non-negative combination and a passive output magnitude is input minus a non-negative drop. Not decided: nothing "
    "numeric here.")

OBLIGATIONS = {
    "Converter": [("eff-scalar-range", ["isinstance(eff, dict) or (eff > 0.0 and eff <= 1.0)"]),
                  ("eff-table-range", ["not isinstance(eff, dict) or (np.min(eff['eff']) > 0.0 and np.max(eff['eff']) <= 1.0)"])],
    "LinReg": [("dropout-below-vo", ["abs(vdrop) < abs(vo)"]),
               ("ig-table-nonneg", ["iq != 0.0 or not isinstance(ig, dict) or np.min(ig['ig']) >= 0.0"]),
               ("iq-table-nonneg", ["iq == 0.0 or not isinstance(iq, dict) or np.min(iq['ig']) >= 0.0"])],
    "RLoad": [("rs-nonzero", ["abs(rs) != 0.0"])],
    "PSwitch": [("ig-table-nonneg", ["not isinstance(ig, dict) or np.min(ig['ig']) >= 0.0"])],
    "PMux": [("ig-table-nonneg", ["not isinstance(ig, dict) or np.min(ig['ig']) >= 0.0"]),
             ("rs-list-numeric", ["not isinstance(rs, list) or all(isinstance(e, (int, float)) for e in rs)"])],
    "Rectifier": [("ig-table-nonneg", ["vdrop != 0.0 or not isinstance(ig, dict) or np.min(ig['ig']) >= 0.0"]),
                  ("rs-list-numeric", ["vdrop != 0.0 or not isinstance(rs, list) or all(isinstance(e, (int, float)) for e in rs)"]),
                  ("rs-scalar-numeric", ["vdrop != 0.0 or isinstance(rs, list) or isinstance(rs, (int, float))"])],
}


def run(model, rep, tier):
    rep.explanation = EXPLANATION
    A_ = rep.attempt
    A_(r1, model, rep)
    A_(r2, model, rep)
    A_(interp_classes, model, rep)
    A_(helpers, model, rep)


def law_magnitudes(model, kind):
    """NN parameter atoms the kind's law summaries mention"""
    used = set()
    for which in "IVP":
        owner, fn, leaves, ctx = summarize_law(model, kind, which, False)
        for lf in leaves:
            vals = []
            if lf.value is not None:
                vals += list(lf.value) if isinstance(lf.value, tuple) else [lf.value]
            for v in vals:
                if isinstance(v, RF):
                    for a in all_atoms_deep(v):
                        if a[0] == "nn" and isinstance(a[1], str) and a[1].startswith("P."):
                            used.add(a[1][2:])
            for g in lf.guards:
                for k in atoms_of(g):
                    for x in k[1:]:
                        if isinstance(x, RF):
                            for a in all_atoms_deep(x):
                                if a[0] == "nn" and isinstance(a[1], str) and a[1].startswith("P."):
                                    used.add(a[1][2:])
                        elif isinstance(x, tuple) and len(x) == 2 and x[0] == "nn" and isinstance(x[1], str) and x[1].startswith("P."):
                            used.add(x[1][2:])
    return used


def all_atoms_deep(rf):
    out = set()
    for a in rf.atoms():
        out.add(a)
        if a[0] in ("ABS", "SGN"):
            out |= all_atoms_deep(a[1])
        elif a[0] in ("MIN", "MAX"):
            for x in a[1]:
                out |= all_atoms_deep(x)
        elif a[0] in ("F", "NNF"):
            for x in a[2]:
                if isinstance(x, RF):
                    out |= all_atoms_deep(x)
    return out


def isa(leaf_guards, pname, tname):
    from ..guards import literals
    lits = {}
    for g in leaf_guards:
        literals(g, True, lits)
    for k, v in lits.items():
        if k[0] == "ISA" and k[1] == Sym(("name", pname)) and tname in k[2]:
            return v
    return None


def r1(model, rep):
    rel = model.rel("components")
    n = 0
    for kind in KINDS:
        owner, fn, leaves = ctor_paths(model, kind)
        used = law_magnitudes(model, kind)
        where = "%s:%d" % (rel, fn.lineno)
        construct = "components.%s.__init__" % kind
        ok = True
        nacc = 0
        for lf in leaves:
            if lf.kind == "raise":
                continue
            nacc += 1
            fp = final_params(lf)
            for k in sorted(used):
                if k not in fp:
                    # a parameter the law reads is never stored on this path (e.g. rs on the diode path) - the law's mode guard covers it
                    continue
                v, line = fp[k]
                if isinstance(v, RF) and v.is_nonneg():
                    continue
                roots = [a[1] for a in v.atoms() if a[0] in ("s", "m")] if isinstance(v, RF) else []
                root = roots[0] if roots else k
                if isa(lf.guards, root, "dict"):
                    continue
                if isa(lf.guards, root, "list"):
                    continue
                ok = False
                rep.violation("R1", construct, "%s:%d" % (rel, line), "'%s' is stored as %s: the laws treat it as a non-negative magnitude, so a negative argument yields a voltage gain / negative loss" % (k, show_value(v)), "raw magnitude " + k)
            for e in lf.events:
                if e[0] == "interp" and e[1] == "_Interp0d":
                    x = e[2][0]
                    good = isinstance(x, RF) and x.is_nonneg()
                    if not good and isinstance(x, RF):
                        try:
                            good = implies(lf.guards, f_pos(x, Ctx()))[0]
                        except AnalysisError:
                            good = False
                    if not good:
                        ok = False
                        rep.violation("R1", construct, "%s:%d" % (rel, e[3]), "the constant %s is handed to the interpolator without taking its magnitude or checking its sign" % show_value(x), "raw constant " + show_value(x))
        rep.instance("R1", construct + " magnitudes", where, ok, "%d accepting paths; law reads %s" % (nacc, sorted(used)))
        n += 1
    rep.floor("R1", n, 11)


def _mentions(x, atoms):
    """does a value / atom key mention one of the parameter atoms (sign or magnitude of p)?"""
    if isinstance(x, RF):
        return bool(x.atoms() & atoms) or any(_mentions(a, atoms) for a in x.atoms())
    if isinstance(x, Sym):
        return _mentions(x.key, atoms)
    if isinstance(x, tuple):
        return x in atoms or any(_mentions(y, atoms) for y in x)
    if isinstance(x, (ListV,)):
        return any(_mentions(y, atoms) for y in x.items)
    return False


def r2(model, rep):
    rel = model.rel("components")
    n = 0
    for kind in KINDS:
        owner, fn, leaves = ctor_paths(model, kind)
        where = "%s:%d" % (rel, fn.lineno)
        construct = "components.%s.__init__" % kind
        acc = [lf for lf in leaves if lf.kind != "raise"]
        if not acc:
            raise AnalysisError("%s.__init__ has no accepting path" % kind)
        hooks = CtorHooks(model, kind)
        sm = Summarizer(hooks, Ctx())
        env = ctor_args(fn)
        from ..guards import f_zero
        # a dict never compares equal to a number: ISA(p, dict) -> not (p == 0)
        axioms = [Or(Not(A(("ISA", vkey(Sym(("name", p))), ("dict",)))), Not(f_zero(signed(p), Ctx()))) for p in sorted(hooks.table_params())]
        for oid, alts in OBLIGATIONS.get(kind, []):
            fs = [sm.cond(ast.parse(t, mode="eval").body, State(env)) for t in alts]
            ok = True
            for lf in acc:
                if not any(implies(list(lf.guards) + axioms, f)[0] for f in fs):
                    ok = False
                    rep.violation("R2", construct, where, "range check '%s' is not established on the accepting path {%s}; required: %s" % (oid, show_f(And(*lf.guards))[:300], show_f(fs[0])[:200]), "range check " + oid)
                    break
            rep.instance("R2", "%s check %s" % (construct, oid), where, ok)
            n += 1
        # raise kinds: all rejections are ValueError
        for lf in leaves:
            if lf.kind == "raise" and lf.exc != "ValueError":
                rep.violation("R2", construct, "%s:%d" % (rel, lf.line), "an unphysical parameter is rejected with %s, not ValueError" % lf.exc, "raises " + str(lf.exc))
        # limits validated, tables validated with the key that is read
        ok = True
        for lf in acc:
            lim = [e for e in lf.events if e[0] == "store" and e[1][0] == "attr" and e[1][2] == "_limits"]
            if not lim or not (isinstance(lim[-1][2], Sym) and lim[-1][2].key[:2] == ("call", "_check_limits")):
                ok = False
                rep.violation("R2", construct, where, "the limits are stored without passing _check_limits", "limits unchecked")
                break
            # a parameter that may be a table: on an accepting path it is either known not to be a dict or it was validated
            for p in sorted(hooks.table_params()):
                isd = A(("ISA", vkey(Sym(("name", p))), ("dict",)))
                checked = any(c[0] == "check" and c[1] == "_check_interp" and c[2] and vkey(hooks.root(c[2][0])) == vkey(Sym(("name", p))) for c in lf.events)
                if checked:
                    continue
                # a parameter this path neither decides on nor stores / interpolates is ignored by it (ig on the diode path)
                pa = {("s", p), ("m", p)}
                used = any(isinstance(a, tuple) and (a in pa or (a and a[0] in ("ISA", "NONEMPTY") and (a[1:2] == (p,) or a[1:2] == (vkey(Sym(("name", p))),)))) or _mentions(a, pa) for g in lf.guards for a in atoms_of(g))
                used = used or any(_mentions(v, pa) for v, _ in final_params(lf).values()) or any(e[0] == "interp" and any(_mentions(x, pa) for x in e[2]) for e in lf.events)
                if not used:
                    continue
                from ..guards import f_zero
                ax = Or(Not(f_zero(signed(p), Ctx())), Not(isd))     # a dict never compares equal to a number
                if not implies(list(lf.guards) + [ax], Not(isd))[0]:
                    ok = False
                    rep.violation("R2", construct, where, "'%s' may be a table (dict) on the accepting path {%s} but is not validated there: e.g. an empty table passes a truthiness test as if it were 0" % (p, show_f(And(*lf.guards))[:200]), "table %s unvalidated" % p)
                    break
            if not ok:
                break
            for i, e in enumerate(lf.events):
                if e[0] == "interp" and e[1] in ("_Interp1d", "_Interp2d"):
                    chk = [c for c in lf.events[:i] if c[0] == "check" and c[1] == "_check_interp"]
                    if not chk:
                        ok = False
                        rep.violation("R2", construct, "%s:%d" % (rel, e[3]), "a table interpolator is built without _check_interp on the table", "table unchecked")
                        break
        rep.instance("R2", construct + " limits / tables validated", where, ok)
        n += 1
    rep.floor("R2", n, 20)


def interp_classes(model, rep):
    rel = model.rel("components")
    for cname, attrs in (("_Interp1d", {"_x": 0, "_fx": 1}), ("_Interp2d", {"_x": 0, "_y": 1, "_fxy": 2})):
        fn = model.own_method(cname, "__init__")
        params = [a.arg for a in fn.args.args][1:]
        ok = True
        for attr, pi in attrs.items():
            st = [x for x in ast.walk(fn) if isinstance(x, ast.Assign) and ast.unparse(x.targets[0]) == "self." + attr]
            want = {"np.abs(np.asarray(%s))" % params[pi], "np.abs(%s)" % params[pi], "np.absolute(%s)" % params[pi], "np.abs(np.array(%s))" % params[pi]}
            if len(st) != 1 or ast.unparse(st[0].value) not in want:
                ok = False
                rep.violation("R1", "components.%s.__init__" % cname, "%s:%d" % (rel, fn.lineno), "%s.%s is stored as %s: the magnitude of argument '%s' is not taken, negative table entries / axes survive" % (
                    cname, attr, ast.unparse(st[0].value) if st else "nothing", params[pi]), "%s.%s raw" % (cname, attr))
        # apart from those stores the constructor works on the stored magnitudes, never on the raw arguments
        stores = [x for x in ast.walk(fn) if isinstance(x, ast.Assign) and ast.unparse(x.targets[0]) in {"self." + a for a in attrs}]
        inside = {id(y) for x in stores for y in ast.walk(x)}
        for x in ast.walk(fn):
            if isinstance(x, ast.Name) and isinstance(x.ctx, ast.Load) and x.id in params and id(x) not in inside:
                ok = False
                rep.violation("R1", "components.%s.__init__" % cname, "%s:%d" % (rel, x.lineno), "%s reads the raw argument '%s' after storing its magnitude: a negative table entry / axis value reaches the interpolation" % (cname, x.id), "%s raw use of %s" % (cname, x.id))
        rep.instance("R1", "components.%s stores magnitudes" % cname, "%s:%d" % (rel, fn.lineno), ok)
    fn = model.own_method("_Interp0d", "_interp")
    rets = [x for x in ast.walk(fn) if isinstance(x, ast.Return)]
    ok = len(rets) == 1 and ast.unparse(rets[0].value) == "self._x"
    if not ok:
        rep.violation("R1", "components._Interp0d._interp", "%s:%d" % (rel, fn.lineno), "the constant interpolator does not return its constant", "interp0d")
    rep.instance("R1", "components._Interp0d returns its constant", "%s:%d" % (rel, fn.lineno), ok)


def helpers(model, rep):
    """_check_interp and _check_limits reject what they document"""
    rel = model.rel("components")
    for fname, ref in (("_check_interp", ["('vi' in idata.keys() and 'io' in idata.keys() and z in idata.keys())",
                                          "np.all(np.diff(idata['io']) > 0)",
                                          "np.array(idata['vi']).shape[0] == np.array(idata[z]).shape[0]",
                                          "np.array(idata['io']).shape[0] == np.array(idata[z]).shape[1]"]),
                       ("_check_limits", ["not (ELEM(LIMITS_DEFAULT) in limits) or not (type(limits[ELEM(LIMITS_DEFAULT)]) is not list)",
                                          "not (ELEM(LIMITS_DEFAULT) in limits) or not (len(limits[ELEM(LIMITS_DEFAULT)]) != 2)",
                                          "not (ELEM(LIMITS_DEFAULT) in limits) or all(isinstance(item, (int, float)) for item in limits[ELEM(LIMITS_DEFAULT)])"])):
        fn = model.func("components", fname)
        hooks = EditHooks(model, {}, ())
        sm = GuardedSummarizer(hooks, Ctx())
        env = {a.arg: Sym(("name", a.arg)) for a in fn.args.args}
        try:
            leaves = sm.summarize(fn, env)
        except Unsupported as e:
            raise AnalysisError("%s: %s" % (fname, e))
        acc = [lf for lf in leaves if lf.kind != "raise"]
        ok = bool(acc)
        for text in ref:
            f = sm.cond(ast.parse(text, mode="eval").body, State(env))
            for lf in acc:
                if not implies(lf.guards, f)[0]:
                    ok = False
                    rep.violation("R2", "components." + fname, "%s:%d" % (rel, fn.lineno), "%s accepts input that violates `%s`" % (fname, text), "%s accepts not(%s)" % (fname, text[:50]))
                    break
        for lf in leaves:
            if lf.kind == "raise" and lf.exc != "ValueError":
                ok = False
                rep.violation("R2", "components." + fname, "%s:%d" % (rel, lf.line), "%s rejects with %s, not ValueError" % (fname, lf.exc), "%s raises %s" % (fname, lf.exc))
        if fname == "_check_limits":
            rets = [lf for lf in acc if not (isinstance(lf.value, Sym) and lf.value.key == ("name", "limits"))]
            if rets:
                ok = False
                rep.violation("R2", "components._check_limits", "%s:%d" % (rel, fn.lineno), "_check_limits does not return the limits it checked", "check_limits return")
        rep.instance("R2", "components.%s rejects malformed input" % fname, "%s:%d" % (rel, fn.lineno), ok, "%d paths" % len(leaves))
