"""C19 - diagrams show exactly the system; heat colours and labels follow the losses (DESIGN.md section 4, C19).
Structure of the graph that is built; not what Graphviz renders."""
import ast
import itertools
from ..core import AnalysisError
from ..terms import RF, lift, Unsupported
from ..guards import Ctx, A, And, Or, Not, atoms_of, ev, show_f
from ..summ import Summarizer, State, Sym, ListV, DictV, BoolV, vkey, show_value, to_num, fr
from ..sysrules import is_name, registry_of
from . import c17

EXPLANATION = (
    "(R1) exactly-once nodes: a component is added in the cluster loop iff grouping is on and its group is non-empty, in "
    "the flat loop iff the complement (conditions compared as truth tables), both loops range over the 'nodes' registry, the "
    "cluster set is exactly the non-empty values of the 'groups' registry; there is one edge per graph edge with endpoints "
    "mapped through the inverse of 'nodes'; the only extra node is the legend, only when a loss frame is given; (R2) "
    "override precedence: default (deep copy) -> component kind (class name of the node's own payload) -> component name; "
    "clusters: default -> group name; (R3) no mutation of the caller's configuration or the module defaults (shared with "
    "C17-R1); (R4) heat: _gcolor(m) == (1-m)*cold + m*warm, Mix == loss/max(loss) with max := 1 exactly when it is 0, the "
    "label and the colour of a node are read from that node's own row, the legend shows max(loss), _prep_loss is the "
    "duration-weighted mean over component rows; (R5) _nice_float: exponent bands contiguous in steps of three decades, "
    "each band with (prefix, scale 10^E, decimals 2-(pwr+E)) from {p:12,n:9,u:6,m:3,'':0,k:-3,M:-6}, i.e. three significant "
    "digits everywhere, '.2e' outside. Not decided: what Graphviz renders.")


def run(model, rep, tier):
    rep.explanation = EXPLANATION
    A_ = rep.attempt
    A_(r1, model, rep)
    A_(r2, model, rep)
    A_(r3, model, rep)
    A_(r4, model, rep)
    A_(r5, model, rep)


class DHooks:
    def attr(self, base, attr):
        return None

    def call(self, sm, node, fname, args, kwargs, st):
        return None


def cond_formula(node, env):
    sm = Summarizer(DHooks(), Ctx())
    return sm.cond(node, State(env))


def equiv(f, g):
    atoms = sorted(atoms_of(f) | atoms_of(g), key=repr)
    for bits in itertools.product((False, True), repeat=len(atoms)):
        al = dict(zip(atoms, bits))
        if ev(f, al) != ev(g, al):
            return False
    return True


def loops_over_nodes(lp):
    return isinstance(lp, ast.For) and ast.unparse(lp.iter).replace('"', "'") in ("sys._g.attrs['nodes']", "sys._g.attrs['nodes'].keys()", "list(sys._g.attrs['nodes'])", "list(sys._g.attrs['nodes'].keys())")


def r1(model, rep):
    rel = model.rel("diagram")
    fn = model.func("diagram", "_diag")
    where = "%s:%d" % (rel, fn.lineno)
    construct = "diagram._diag"
    GROUP = "group"
    env = {a.arg: Sym(("name", a.arg)) for a in fn.args.args + fn.args.kwonlyargs}
    ok = True
    # calls of the nested add_node helper
    helper = [x for x in fn.body if isinstance(x, ast.FunctionDef)]
    if len(helper) != 1:
        raise AnalysisError("_diag: nested node helper not found")
    hname = helper[0].name
    sites = []
    for lp in ast.walk(fn):
        if isinstance(lp, ast.For):
            for iff in lp.body:
                if isinstance(iff, ast.If) and len(iff.body) == 1 and isinstance(iff.body[0], ast.Expr) and isinstance(iff.body[0].value, ast.Call) \
                        and is_name(iff.body[0].value.func, hname) and not iff.orelse:
                    sites.append((lp, iff, iff.body[0].value))
    other_calls = [c for c in ast.walk(fn) if isinstance(c, ast.Call) and is_name(c.func, hname) and not any(c is s[2] for s in sites)]
    if len(sites) == 1 and not other_calls:
        which = "grouped" if is_name(sites[0][2].args[0], "graph") or True else ""
        rep.violation("R1", construct, where, "only one loop adds components to the diagram: either the clustered or the unclustered components are never drawn", "one node loop only")
        rep.instance("R1", construct + " every component added exactly once", where, False)
        return
    if len(sites) != 2 or other_calls:
        raise AnalysisError("_diag: expected two guarded node-adding loops, found %d (+%d other calls)" % (len(sites), len(other_calls)))
    gnames = [x.targets[0].id for x in ast.walk(fn) if isinstance(x, ast.Assign) and isinstance(x.targets[0], ast.Name) and isinstance(x.value, ast.Call) and ast.unparse(x.value.func) == "pydot.Dot"]
    if len(gnames) != 1:
        raise AnalysisError("_diag: the top-level graph object is not bound once")
    GRAPH = gnames[0]
    flat = [s for s in sites if is_name(s[2].args[0], GRAPH)]
    clus = [s for s in sites if not is_name(s[2].args[0], GRAPH)]
    if len(flat) != 1 or len(clus) != 1:
        raise AnalysisError("_diag: flat / cluster loop not told apart")
    for lp, iff, call in sites:
        if not loops_over_nodes(lp):
            ok = False
            rep.violation("R1", construct, "%s:%d" % (rel, lp.lineno), "a node loop ranges over %s, not over the 'nodes' registry" % ast.unparse(lp.iter), "node loop domain " + ast.unparse(lp.iter))
        if not is_name(call.args[1], lp.target.id):
            ok = False
            rep.violation("R1", construct, "%s:%d" % (rel, call.lineno), "the node added is %s, not the loop's component" % ast.unparse(call.args[1]), "node added")
    # flat condition
    lp, iff, call = flat[0]
    n = lp.target.id
    e2 = dict(env)
    e2[n] = Sym(("name", "N"))
    got = cond_formula(iff.test, e2)
    want = cond_formula(ast.parse('sys._g.attrs["groups"][N] == "" or not group', mode="eval").body, {**env, "N": Sym(("name", "N"))})
    if not equiv(got, want):
        ok = False
        rep.violation("R1", construct, "%s:%d" % (rel, iff.lineno), "an ungrouped node is added when %s, expected %s: a component can appear twice or not at all" % (show_f(got), show_f(want)), "flat condition " + show_f(got))
    # cluster condition and its guards
    lp, iff, call = clus[0]
    n = lp.target.id
    outer = getattr(lp, "_parent", None)
    while outer is not None and not isinstance(outer, ast.For):
        outer = getattr(outer, "_parent", None)
    if outer is None or not isinstance(outer.target, ast.Name):
        raise AnalysisError("_diag: cluster loop not nested in a loop over the groups")
    g = outer.target.id
    e2 = dict(env)
    e2[n] = Sym(("name", "N"))
    e2[g] = Sym(("name", "G"))
    got = cond_formula(iff.test, e2)
    want = cond_formula(ast.parse('sys._g.attrs["groups"][N] == G', mode="eval").body, {**env, "N": Sym(("name", "N")), "G": Sym(("name", "G"))})
    if not equiv(got, want):
        ok = False
        rep.violation("R1", construct, "%s:%d" % (rel, iff.lineno), "a node joins cluster G when %s, expected %s" % (show_f(got), show_f(want)), "cluster condition " + show_f(got))
    gate = getattr(outer, "_parent", None)
    gdict = ast.unparse(outer.iter).replace(".keys()", "")
    if not isinstance(gate, ast.If):
        ok = False
        rep.violation("R1", construct, "%s:%d" % (rel, outer.lineno), "clusters are built even when grouping is off", "cluster gate missing")
    else:
        got = cond_formula(gate.test, env)
        want = cond_formula(ast.parse("group and %s != {}" % gdict, mode="eval").body, env)
        want2 = cond_formula(ast.parse("group", mode="eval").body, env)
        if not (equiv(got, want) or equiv(got, want2)):
            ok = False
            rep.violation("R1", construct, "%s:%d" % (rel, gate.lineno), "clusters are built when %s, expected: grouping is on" % show_f(got), "cluster gate " + show_f(got))
    # the cluster set = non-empty values of the groups registry
    build = [x for x in ast.walk(fn) if isinstance(x, ast.For) and any(isinstance(y, ast.Assign) and isinstance(y.targets[0], ast.Subscript) and is_name(y.targets[0].value, gdict) for y in ast.walk(x))]
    good = False
    for b in build:
        tv = b.target.id if isinstance(b.target, ast.Name) else None
        if not tv or ast.unparse(b.iter).replace('"', "'").replace(" ", "") not in ("sys._g.attrs['groups'].keys()", "sys._g.attrs['groups']"):
            continue
        gv = [y for y in b.body if isinstance(y, ast.Assign) and isinstance(y.targets[0], ast.Name) and ast.unparse(y.value).replace('"', "'") == "sys._g.attrs['groups'][%s]" % tv]
        iffs = [y for y in b.body if isinstance(y, ast.If) and not y.orelse and len(y.body) == 1 and isinstance(y.body[0], ast.Assign) and isinstance(y.body[0].targets[0], ast.Subscript)
                and is_name(y.body[0].targets[0].value, gdict)]
        if len(gv) == 1 and len(iffs) == 1:
            G_ = gv[0].targets[0].id
            f_ = cond_formula(iffs[0].test, {G_: Sym(("name", "GV"))})
            w_ = cond_formula(ast.parse('GV != ""', mode="eval").body, {"GV": Sym(("name", "GV"))})
            if equiv(f_, w_) and is_name(iffs[0].body[0].targets[0].slice, G_):
                good = True
    if not good:
        ok = False
        rep.violation("R1", construct, where, "the set of clusters is not 'the non-empty group names of the registry'", "cluster set")
    rep.instance("R1", construct + " every component added exactly once", where, ok)
    # ---- edges
    ok = True
    eloops = [x for x in ast.walk(fn) if isinstance(x, ast.For) and any(isinstance(c, ast.Call) and ast.unparse(c.func) == GRAPH + ".add_edge" for c in ast.walk(x))]
    if len(eloops) != 1 or any(isinstance(p_, ast.For) for p_ in [getattr(eloops[0], "_parent", None)]):
        ok = False
        rep.violation("R1", construct, where, "edges are not added by one loop over the graph's edges (found %d edge-adding loops / nesting): a link can be drawn twice or not at all" % len(eloops), "edge loop shape")
    else:
        el = eloops[0]
        it = ast.unparse(el.iter).replace(" ", "")
        if it not in ("iter(sys._g.edge_indices())", "sys._g.edge_indices()", "sys._g.edge_list()", "iter(sys._g.edge_list())"):
            ok = False
            rep.violation("R1", construct, "%s:%d" % (rel, el.lineno), "the edge loop ranges over %s, not over the graph's edge list" % it, "edge loop domain " + it)
        calls = [c for c in ast.walk(el) if isinstance(c, ast.Call) and ast.unparse(c.func) == "pydot.Edge"]
        if len(calls) != 1:
            ok = False
            rep.violation("R1", construct, "%s:%d" % (rel, el.lineno), "not exactly one edge object per graph edge", "edges per edge")
        else:
            a0, a1 = calls[0].args[0], calls[0].args[1]
            mp = a0.value.id if isinstance(a0, ast.Subscript) and isinstance(a0.value, ast.Name) else None
            mdef = [x for x in ast.walk(fn) if isinstance(x, ast.Assign) and is_name(x.targets[0], mp)] if mp else []
            inv = {"dict(zip(sys._g.attrs['nodes'].values(),sys._g.attrs['nodes'].keys()))", "{v:kfork,vinsys._g.attrs['nodes'].items()}",
                   "{i:nforn,iinsys._g.attrs['nodes'].items()}"}
            def inverse_comp(v):
                # {idx: name for name, idx in <nodes>.items()}, whatever the two names are
                if isinstance(v, ast.DictComp) and len(v.generators) == 1 and not v.generators[0].ifs:
                    g = v.generators[0]
                    if isinstance(g.target, ast.Tuple) and len(g.target.elts) == 2 and all(isinstance(e, ast.Name) for e in g.target.elts) \
                            and ast.unparse(g.iter).replace('"', "'").replace(" ", "") == "sys._g.attrs['nodes'].items()":
                        return is_name(v.key, g.target.elts[1].id) and is_name(v.value, g.target.elts[0].id)
                return False
            if not mdef or (ast.unparse(mdef[0].value).replace('"', "'").replace(" ", "") not in inv and not inverse_comp(mdef[0].value)):
                ok = False
                rep.violation("R1", construct, "%s:%d" % (rel, calls[0].lineno), "edge endpoints are not mapped to names through the inverse of the 'nodes' registry (%s): deleted nodes leave index holes" % (ast.unparse(mdef[0].value) if mdef else "no map"), "edge endpoint map")
            e0, e1 = ast.unparse(a0.slice), ast.unparse(a1.slice)
            if not (e0.endswith("[0]") and e1.endswith("[1]") and e0[:-3] == e1[:-3]):
                ok = False
                rep.violation("R1", construct, "%s:%d" % (rel, calls[0].lineno), "edge endpoints are (%s, %s), expected (parent, child) of the same edge" % (e0, e1), "edge endpoints")
    # legend: the only other node, only with a loss frame
    extra = [c for c in ast.walk(fn) if isinstance(c, ast.Call) and ast.unparse(c.func) == GRAPH + ".add_node"]
    good = len(extra) == 1
    if good:
        par = getattr(extra[0], "_parent", None)
        while par is not None and not isinstance(par, ast.If):
            par = getattr(par, "_parent", None)
        good = par is not None and ast.unparse(par.test).replace(" ", "").endswith("isnotNone") and ast.unparse(par.test).split()[0] in ("loss",) + tuple(
            x.targets[0].id for x in ast.walk(fn) if isinstance(x, ast.Assign) and isinstance(x.targets[0], ast.Name) and isinstance(x.value, ast.Call) and is_name(x.value.func, "_prep_loss"))
    if not good:
        ok = False
        rep.violation("R1", construct, where, "the legend is not the single extra node added exactly when a loss frame is given", "legend node")
    rep.instance("R1", construct + " one edge per link, legend only for heat diagrams", where, ok)


def r2(model, rep):
    rel = model.rel("diagram")
    fn = model.func("diagram", "_diag")
    helper = [x for x in fn.body if isinstance(x, ast.FunctionDef)][0]
    ps = [a.arg for a in helper.args.args]
    if len(ps) != 4:
        raise AnalysisError("node helper has %d parameters" % len(ps))
    GR, NAME, ATTRS, LDF = ps
    where = "%s:%d" % (rel, helper.lineno)
    # the whole helper against its reference text: default copy -> kind overrides -> name overrides -> heat colour / font /
    # label from the node's own row (exactly when a loss frame is given) -> one node with these attributes
    from .. import refcmp, sysrules
    ok, rows = refcmp.compare(model, sysrules.roles(model), helper, refcmp.spec_function("spec_diag", "add_node"), rep, "R2",
                              "diagram._diag.add_node", where, "node attributes", free=("sys",))
    rep.instance("R2", "diagram._diag.add_node override precedence", where, ok)
    # clusters: default -> group name
    src = ast.unparse(fn).replace('"', "'")
    ok = True
    bds = [x.targets[0].id for x in ast.walk(fn) if isinstance(x, ast.Assign) and isinstance(x.targets[0], ast.Name) and ast.unparse(x.value).replace(" ", "") in ("copy.deepcopy(config)", "copy.deepcopy(_DEF_CONF)")]
    if not bds or len(set(bds)) != 1:
        raise AnalysisError("_diag: working copy of the configuration not found")
    BD = bds[0]
    sub = [c for c in ast.walk(fn) if isinstance(c, ast.Call) and ast.unparse(c.func) == "pydot.Subgraph"]
    if len(sub) != 1 or not sub[0].keywords or sub[0].keywords[-1].arg is not None or not isinstance(sub[0].keywords[-1].value, ast.Name):
        raise AnalysisError("_diag: pydot.Subgraph(name, **attributes) not found")
    CC = sub[0].keywords[-1].value.id
    gl = getattr(sub[0], "_parent", None)
    while gl is not None and not isinstance(gl, ast.For):
        gl = getattr(gl, "_parent", None)
    G = gl.target.id if gl is not None and isinstance(gl.target, ast.Name) else None
    cl = [x for x in ast.walk(fn) if isinstance(x, ast.Assign) and is_name(x.targets[0], CC)]
    if not cl or ast.unparse(cl[0].value).replace('"', "'").replace(" ", "") != "copy.deepcopy(%s['cluster']['default'])" % BD:
        ok = False
        rep.violation("R2", "diagram._diag", "%s:%d" % (rel, fn.lineno), "a cluster does not start from a deep copy of the cluster defaults", "cluster default")
    good = False
    for iff in ast.walk(fn):
        if isinstance(iff, ast.If) and G and ast.unparse(iff.test).replace('"', "'").replace(" ", "") == "%sin%s['cluster']" % (G, BD) and len(iff.body) == 1 \
                and isinstance(iff.body[0], ast.For) and isinstance(iff.body[0].target, ast.Name):
            kv = iff.body[0].target.id
            if "%s[%s]=%s['cluster'][%s][%s]" % (CC, kv, BD, G, kv) in ast.unparse(iff.body[0]).replace('"', "'").replace(" ", ""):
                good = True
    if not good:
        ok = False
        rep.violation("R2", "diagram._diag", "%s:%d" % (rel, fn.lineno), "cluster overrides are not taken from the entry named after the group", "cluster override")
    rep.instance("R2", "diagram._diag cluster override precedence", "%s:%d" % (rel, fn.lineno), ok)


def r3(model, rep):
    # shared with C17-R1: arguments and module defaults are never written
    n = 0
    for mod, qn, fn in model.all_functions():
        if mod != "diagram":
            continue
        muts, params, consts = c17.arg_mutations(fn, mod, model)
        ok = not muts
        for line, desc, root in muts:
            rep.violation("R3", "diagram." + qn, "%s:%d" % (model.rel(mod), line), "stores into %s: the caller's configuration / system data or a module default is modified" % desc, "arg mutation " + desc)
        rep.instance("R3", "diagram.%s leaves its arguments and the defaults alone" % qn, "%s:%d" % (model.rel(mod), fn.lineno), ok)
        n += 1
    d = model.func("diagram", "_diag")
    ok = True
    for x in ast.walk(d):
        if isinstance(x, ast.Assign) and isinstance(x.targets[0], ast.Name) and isinstance(x.value, (ast.Subscript, ast.Name)):
            tname = x.targets[0].id
            b = c17.base_name(x.value)
            if b in ("config", "bd_conf", "attrs", "_DEF_CONF", "_DEF_GRADIENT", "_DEF_NODE_CONF", "_DEF_CLUSTER_CONF"):
                stores = [y for y in ast.walk(d) if isinstance(y, ast.Assign) and any(isinstance(t, ast.Subscript) and is_name(t.value, tname) for t in y.targets)]
                if stores or (isinstance(x.value, ast.Name) and x.value.id == "config"):
                    ok = False
                    rep.violation("R3", "diagram._diag", "%s:%d" % (model.rel("diagram"), x.lineno), "'%s' aliases %s and is written to / used without a deep copy: settings leak between nodes, clusters or calls" % (tname, ast.unparse(x.value)), "alias written: " + tname)
    rep.instance("R3", "diagram._diag works on deep copies", "%s:%d" % (model.rel("diagram"), d.lineno), ok)
    gc = model.func("diagram", "get_conf")
    ok = ast.unparse(gc.body[-1]).replace(" ", "") == "returncopy.deepcopy(_DEF_CONF)"
    if not ok:
        rep.violation("R3", "diagram.get_conf", "%s:%d" % (model.rel("diagram"), gc.lineno), "get_conf() hands out the module default itself", "get_conf copy")
    rep.instance("R3", "diagram.get_conf returns a copy", "%s:%d" % (model.rel("diagram"), gc.lineno), ok)


class ColHooks:
    def call(self, sm, node, fname, args, kwargs, st):
        if fname in ("mpl.colors.to_rgb", "matplotlib.colors.to_rgb") and len(args) == 1:
            return fr("RGB(%s)" % show_value(args[0]))
        if fname in ("np.array", "np.asarray") and len(args) == 1:
            return args[0]
        if fname in ("mpl.colors.to_hex", "matplotlib.colors.to_hex") and len(args) == 1:
            return Sym(("HEX", vkey(args[0])))
        return None

    def name(self, id):
        return None


def r4(model, rep):
    rel = model.rel("diagram")
    # _gcolor
    fn = model.func("diagram", "_gcolor")
    sm = Summarizer(ColHooks(), Ctx(), consts={})
    m = fr("mix")
    leaves = sm.summarize(fn, {fn.args.args[0].arg: m})
    cold = model.const_value("diagram", "_COLD_RGB")
    warm = model.const_value("diagram", "_WARM_RGB")
    ok = len(leaves) == 1 and leaves[0].kind == "return" and isinstance(leaves[0].value, Sym) and leaves[0].value.key[0] == "HEX"
    if ok:
        got = leaves[0].value.key[1]
        C1, C2 = fr("RGB(_COLD_RGB)"), fr("RGB(_WARM_RGB)")
        ok = isinstance(got, RF) and got == (1 - m) * C1 + m * C2
    if not ok:
        rep.violation("R4", "diagram._gcolor", "%s:%d" % (rel, fn.lineno), "the heat colour is %s, expected (1-mix)*cold + mix*warm" % (show_value(leaves[0].value) if leaves else "?"), "gcolor")
    rep.instance("R4", "diagram._gcolor affine mix cold -> warm", "%s:%d" % (rel, fn.lineno), ok)
    # _prep_loss against its reference text (component rows only, duration-weighted mean over the phases written onto one
    # phase's rows, scale = maximum loss or 1 when that is 0, Mix = loss / scale)
    from .. import refcmp, sysrules
    fn = model.func("diagram", "_prep_loss")
    where = "%s:%d" % (rel, fn.lineno)
    ok, rows = refcmp.compare(model, sysrules.roles(model), fn, refcmp.spec_function("spec_diag", "_prep_loss"), rep, "R4",
                              "diagram._prep_loss", where, "loss preparation")
    rep.instance("R4", "diagram._prep_loss scale and duration-weighted mean", where, ok, "%d guard rows" % rows)
    # label / colour of a node come from its own row; legend shows the maximum
    d = model.func("diagram", "_diag")
    helper = [x for x in d.body if isinstance(x, ast.FunctionDef)][0]
    GR, NAME, ATTRS, LDF = [a.arg for a in helper.args.args]
    ok = True

    lg = [x for x in ast.walk(d) if isinstance(x, ast.Assign) and isinstance(x.targets[0], ast.Subscript) and ast.unparse(x.targets[0].slice).replace('"', "'") == "'label'"
          and isinstance(x.value, ast.Call) and isinstance(x.value.func, ast.Attribute) and x.value.func.attr == "format" and x not in ast.walk(helper)]
    good = False
    if lg and isinstance(lg[0].value, ast.Call) and len(lg[0].value.args) == 1:
        a = lg[0].value.args[0]
        LDFN = [x.targets[0].id for x in ast.walk(d) if isinstance(x, ast.Assign) and isinstance(x.targets[0], ast.Name) and isinstance(x.value, ast.Call) and is_name(x.value.func, "_prep_loss")]
        good = isinstance(a, ast.Call) and is_name(a.func, "_nice_float") and LDFN and ast.unparse(a.args[0]).replace('"', "'") == "%s['Loss (W)'].max()" % LDFN[0] and lg[0].value.func.value.value.startswith("{}W")
    if not good:
        ok = False
        rep.violation("R4", "diagram._diag", "%s:%d" % (rel, (lg[0] if lg else d).lineno), "the legend does not show the maximum loss", "legend value")
    pl = [x for x in ast.walk(d) if isinstance(x, ast.Assign) and isinstance(x.targets[0], ast.Name) and isinstance(x.value, ast.Call) and is_name(x.value.func, "_prep_loss")]
    if not pl or ast.unparse(pl[0].value).replace(" ", "") != "_prep_loss(loss,sys.get_sys_phases())":
        ok = False
        rep.violation("R4", "diagram._diag", "%s:%d" % (rel, d.lineno), "losses are not prepared from the given table with the system's own phases", "prep call")
    if pl:
        par = getattr(pl[0], "_parent", None)
        if not (isinstance(par, ast.If) and ast.unparse(par.test).replace(" ", "") == "lossisnotNone"):
            ok = False
            rep.violation("R4", "diagram._diag", "%s:%d" % (rel, pl[0].lineno), "losses are not prepared exactly when a loss table is given", "prep condition")
    rep.instance("R4", "diagram._diag heat colour / label / legend sources", "%s:%d" % (rel, d.lineno), ok)
    hd = model.func("diagram", "make_hdiag")
    sv = [x.targets[0].id for x in ast.walk(hd) if isinstance(x, ast.Assign) and isinstance(x.targets[0], ast.Name) and ast.unparse(x.value).replace(" ", "") == "sys.solve()"]
    calls = [c for c in ast.walk(hd) if isinstance(c, ast.Call) and is_name(c.func, "_diag")]
    ok = bool(sv) and len(calls) == 1 and any(k.arg == "loss" and is_name(k.value, sv[0]) for k in calls[0].keywords)
    if not ok:
        rep.violation("R4", "diagram.make_hdiag", "%s:%d" % (rel, hd.lineno), "the heat diagram is not drawn from the system's own solve() table", "hdiag source")
    rep.instance("R4", "diagram.make_hdiag uses solve()", "%s:%d" % (rel, hd.lineno), ok)


PREFIX_E = {"p": 12, "n": 9, "u": 6, "m": 3, "": 0, "k": -3, "M": -6}


def r5(model, rep):
    rel = model.rel("diagram")
    fn = model.func("diagram", "_nice_float")
    where = "%s:%d" % (rel, fn.lineno)
    F = fn.args.args[0].arg
    body = [s for s in fn.body if not (isinstance(s, ast.Expr) and isinstance(s.value, ast.Constant))]
    ok = True
    if not (isinstance(body[0], ast.Assign) and isinstance(body[0].targets[0], ast.Name) and ast.unparse(body[0].value).replace('"', "'") == "int('{:e}'.format(%s).split('e')[1])" % F):
        raise AnalysisError("_nice_float: decimal exponent extraction not recognised")
    P = body[0].targets[0].id
    chain = body[1]
    if not isinstance(chain, ast.If):
        raise AnalysisError("_nice_float: branch chain not found")
    branches = []
    cur = chain
    while True:
        branches.append((cur.test, cur.body))
        if len(cur.orelse) == 1 and isinstance(cur.orelse[0], ast.If):
            cur = cur.orelse[0]
        else:
            tail = cur.orelse
            break
    from ..idioms import const_int
    # first branch: out of range -> .2e
    t0 = ast.unparse(branches[0][0]).replace(" ", "")
    lo = hi = None
    if isinstance(branches[0][0], ast.BoolOp) and isinstance(branches[0][0].op, ast.Or) and len(branches[0][0].values) == 2:
        a, b = branches[0][0].values
        if isinstance(a, ast.Compare) and isinstance(a.ops[0], ast.Lt) and is_name(a.left, P):
            lo = const_int(a.comparators[0])
        if isinstance(b, ast.Compare) and isinstance(b.ops[0], ast.Gt) and is_name(b.left, P):
            hi = const_int(b.comparators[0])
    if "'{:.2e}'.format(%s)" % F not in ast.unparse(branches[0][1][0]).replace('"', "'"):
        raise AnalysisError("_nice_float: out-of-range branch not recognised")
    if lo is None or hi is None:
        # the fallback test has another shape: compare it, as a formula, with the range the bands leave uncovered
        Ts = [const_int(t.comparators[0]) for t, _ in branches[1:] if isinstance(t, ast.Compare)]
        if not Ts or any(x is None for x in Ts):
            raise AnalysisError("_nice_float: out-of-range branch not recognised")
        lo, hi = Ts[0] - 3, Ts[-1] - 1
        got = cond_formula(branches[0][0], {P: fr("pwr")})
        want = cond_formula(ast.parse("pwr < %d or pwr > %d" % (lo, hi), mode="eval").body, {"pwr": fr("pwr")})
        if not equiv(got, want):
            ok = False
            rep.violation("R5", "diagram._nice_float", where, "scientific notation is used when `%s`, but the prefix bands cover %d <= pwr <= %d" % (ast.unparse(branches[0][0]), lo, hi), "fallback test " + t0)
    prev = lo
    seen = []
    pw = fr("pwr")
    for test, bd in branches[1:]:
        if not (isinstance(test, ast.Compare) and isinstance(test.ops[0], ast.Lt) and is_name(test.left, P)):
            raise AnalysisError("_nice_float: band test `%s` not recognised" % ast.unparse(test))
        T = const_int(test.comparators[0])
        ret = bd[0]
        if not (isinstance(ret, ast.Return) and isinstance(ret.value, ast.Call) and isinstance(ret.value.func, ast.Attribute) and isinstance(ret.value.func.value, ast.Constant)):
            raise AnalysisError("_nice_float: band body not recognised")
        fmt = ret.value.func.value.value
        if not fmt.startswith("{}"):
            raise AnalysisError("_nice_float: band format not recognised")
        prefix = fmt[2:]
        rnd = ret.value.args[0]
        if not (isinstance(rnd, ast.Call) and is_name(rnd.func, "round") and len(rnd.args) == 2):
            raise AnalysisError("_nice_float: band does not round")
        val, dec = rnd.args
        E = None
        if is_name(val, F):
            E = 0
        elif isinstance(val, ast.BinOp) and isinstance(val.op, ast.Mult) and is_name(val.right, F) and isinstance(val.left, ast.Constant) and val.left.value > 0:
            import math
            k = math.log10(val.left.value)
            if abs(k - round(k)) < 1e-9:
                E = int(round(k))
        elif isinstance(val, ast.BinOp) and is_name(val.left, F) and isinstance(val.right, ast.Constant) and val.right.value > 0:
            import math
            k = math.log10(val.right.value)
            if abs(k - round(k)) < 1e-9:
                E = int(round(k)) if isinstance(val.op, ast.Mult) else (-int(round(k)) if isinstance(val.op, ast.Div) else None)
        if E is None:
            raise AnalysisError("_nice_float: scale of band '%s' not recognised" % prefix)
        seen.append(prefix)
        sm = Summarizer(DHooks(), Ctx())
        d = to_num(sm.expr(dec, State({P: pw})))
        problems = []
        if prefix not in PREFIX_E or PREFIX_E[prefix] != E:
            problems.append("prefix '%s' is paired with the scale 1e%d" % (prefix, E))
        if not (d == 2 - (pw + E)):
            problems.append("decimals are %s, expected %s (three significant digits)" % (show_value(d), show_value(2 - (pw + E))))
        if T != -E + 2:
            problems.append("the band ends below 1e%s, expected 1e%d" % (T, -E + 2))
        if prev is not None and T - 3 != (prev if seen[:-1] else lo + 0) and seen[:-1]:
            problems.append("the band is not three decades wide")
        for pr in problems:
            ok = False
            rep.violation("R5", "diagram._nice_float", "%s:%d" % (rel, ret.lineno), "band '%s': %s" % (prefix or "(none)", pr), "band %s: %s" % (prefix, pr[:40]))
        prev = T
    if seen != ["p", "n", "u", "m", "", "k", "M"]:
        ok = False
        rep.violation("R5", "diagram._nice_float", where, "prefix bands are %s" % seen, "bands %s" % seen)
    first_T = const_int(branches[1][0].comparators[0])
    if lo != first_T - 3 or hi != prev - 1:
        ok = False
        rep.violation("R5", "diagram._nice_float", where, "the scientific-notation fallback covers pwr < %s or pwr > %s, leaving a gap or overlap with the prefix bands [%s, %s)" % (lo, hi, first_T - 3, prev), "fallback range")
    if tail:
        ok = False
        rep.violation("R5", "diagram._nice_float", where, "unexpected trailing branch", "tail")
    rep.instance("R5", "diagram._nice_float band table", where, ok, "%d bands" % len(seen))
