"""C19 - diagrams show exactly the system; heat colours and labels follow the losses (DESIGN.md section 4, C19).
Structure of the graph that is built; not what Graphviz renders."""
import ast
import itertools
from ..core import AnalysisError
from ..terms import RF, lift, Unsupported
from ..guards import Ctx, A, And, Or, Not, atoms_of, ev, show_f
from ..summ import Summarizer, State, Sym, ListV, DictV, BoolV, vkey, show_value, to_num, fr
from ..sysrules import is_name, registry_of
from . import c17

EXPLANATION = (
    "(R1) exactly-once nodes: a component is added in the cluster loop iff grouping is on and its group is non-empty, in "
    "the flat loop iff the complement (conditions compared as truth tables), both loops range over the 'nodes' registry, the "
    "cluster set is exactly the non-empty values of the 'groups' registry; there is one edge per graph edge with endpoints "
    "mapped through the inverse of 'nodes' and never filed in a mapping under one of their endpoints; the only extra node is the legend, only when a loss frame is given; (R2) "
    "override precedence: default (deep copy) -> component kind (class name of the node's own payload) -> component name; "
    "clusters: default -> group name; (R3) no mutation of the caller's configuration or the module defaults (shared with "
    "C17-R1); (R4) heat: _gcolor(m) == (1-m)*cold + m*warm, Mix == loss/max(loss) with max := 1 exactly when it is 0, the "
    "label and the colour of a node are read from that node's own row, the legend shows max(loss), _prep_loss is the "
    "duration-weighted mean over component rows; (R5) _nice_float: exponent bands contiguous in steps of three decades, "
    "each band with (prefix, scale 10^E, decimals 2-(pwr+E)) from {p:12,n:9,u:6,m:3,'':0,k:-3,M:-6}, i.e. three significant "
    "digits everywhere, '.2e' outside. Not decided: what Graphviz renders.")


def run(model, rep, tier):
    rep.explanation = EXPLANATION
    A_ = rep.attempt
    A_(r1, model, rep)
    A_(links_by_endpoint, model, rep)
    A_(r2, model, rep)
    A_(r3, model, rep)
    A_(r4, model, rep)
    A_(r5, model, rep)


class DHooks:
    def attr(self, base, attr):
        return None

    def call(self, sm, node, fname, args, kwargs, st):
        return None


def cond_formula(node, env):
    sm = Summarizer(DHooks(), Ctx())
    return sm.cond(node, State(env))


def equiv(f, g):
    atoms = sorted(atoms_of(f) | atoms_of(g), key=repr)
    for bits in itertools.product((False, True), repeat=len(atoms)):
        al = dict(zip(atoms, bits))
        if ev(f, al) != ev(g, al):
            return False
    return True


def loops_over_nodes(lp):
    return isinstance(lp, ast.For) and ast.unparse(lp.iter).replace('"', "'") in ("sys._g.attrs['nodes']", "sys._g.attrs['nodes'].keys()", "list(sys._g.attrs['nodes'])", "list(sys._g.attrs['nodes'].keys())")


def r1(model, rep):
    """_diag as a whole against its reference text (sa/spec_diag.py): which nodes are added to which (sub)graph under which
    condition, the cluster set and the cluster attributes, the legend, the edge loop with its endpoint map, the returned
    image / written file.  Decided by reference comparison of the path summaries (sa/refcmp.py)."""
    from .. import refcmp, sysrules
    rel = model.rel("diagram")
    fn = model.func("diagram", "_diag")
    where = "%s:%d" % (rel, fn.lineno)
    ok, rows = refcmp.compare(model, sysrules.roles(model), fn, refcmp.spec_function("spec_diag", "_diag"), rep, "R1", "diagram._diag", where, "diagram construction", mod="diagram")
    rep.instance("R1", "diagram._diag every component added exactly once", where, ok, "%d path pairs" % rows)
    rep.instance("R1", "diagram._diag one edge per link, legend only for heat diagrams", where, ok)
    if rows < 20:
        raise AnalysisError("_diag: only %d path pairs compared" % rows)


EDGE_VIEWS = ("edge_list", "edge_indices", "edge_index_map", "weighted_edge_list", "get_edge_endpoints_by_index", "in_edges", "out_edges")


def links_by_endpoint(model, rep):
    """R1: the parent-child links are never filed in a mapping under ONE of their endpoints: a component with several
    parents (PMux) or several childs would keep only the last link filed.  Looked for: a dict comprehension, or a keyed
    store in a loop, over a view of the graph's edges whose key mentions exactly one of the two endpoint variables."""
    rel = model.rel("diagram")
    n = 0
    ok = True
    for mod, qn, fn in model.all_functions():
        if mod != "diagram":
            continue
        for x in ast.walk(fn):
            gens = []
            if isinstance(x, ast.DictComp):
                gens = [(g, x.key, x.lineno) for g in x.generators]
            elif isinstance(x, ast.For):
                for st in ast.walk(x):
                    if isinstance(st, ast.Assign) and len(st.targets) == 1 and isinstance(st.targets[0], ast.Subscript) and isinstance(st.targets[0].value, ast.Name):
                        gens.append((x, st.targets[0].slice, st.lineno))
            for g, key, line in gens:
                if not any(isinstance(c, ast.Attribute) and c.attr in EDGE_VIEWS for c in ast.walk(g.iter)):
                    continue
                if not (isinstance(g.target, ast.Tuple) and len(g.target.elts) in (2, 3) and all(isinstance(e, ast.Name) for e in g.target.elts[:2])):
                    continue
                n += 1
                ends = {e.id for e in g.target.elts[:2]}
                used = {y.id for y in ast.walk(key) if isinstance(y, ast.Name)} & ends
                if len(used) == 1:
                    ok = False
                    rep.violation("R1", "diagram.%s" % qn, "%s:%d" % (rel, line), "the links are filed under one endpoint (`%s`): of several links sharing that endpoint (a mux with several inputs, a parent with several childs) only one is drawn" % ast.unparse(key), "links keyed by one endpoint in " + qn)
    rep.instance("R1", "diagram: links are not filed under a single endpoint", rel + ":1", ok, "%d mapping(s) over the edge view" % n)


def r2(model, rep):
    rel = model.rel("diagram")
    fn = model.norm_func("diagram", "_diag")
    helpers = [x for x in fn.body if isinstance(x, ast.FunctionDef)]
    if not helpers:
        # the node-building code stands inline in _diag (or was brought there from a module-level helper): the whole-function comparison of
        # R1 reads it in place - its reference text inlines the closure in the same way - so precedence is decided there
        rep.instance("R2", "diagram._diag node attributes (inline, decided by R1)", "%s:%d" % (rel, fn.lineno),
                     not any(f.rule == "R1" for f in rep.findings))
        return
    helper = helpers[0]
    ps = [a.arg for a in helper.args.args]
    if len(ps) != 4:
        raise AnalysisError("node helper has %d parameters" % len(ps))
    GR, NAME, ATTRS, LDF = ps
    where = "%s:%d" % (rel, helper.lineno)
    # the whole helper against its reference text: default copy -> kind overrides -> name overrides -> heat colour / font /
    # label from the node's own row (exactly when a loss frame is given) -> one node with these attributes
    # the reference reads the helper's last parameter as the prepared loss frame (or None): what the calls hand over must be that
    for c in ast.walk(fn):
        if isinstance(c, ast.Call) and isinstance(c.func, ast.Name) and c.func.id == helper.name and len(c.args) == 4:
            a = c.args[3]
            srcs = [a] if not isinstance(a, ast.Name) else [y.value for y in ast.walk(fn) if isinstance(y, ast.Assign) and any(isinstance(t, ast.Name) and t.id == a.id for t in y.targets)]
            for v in srcs:
                is_none = isinstance(v, ast.Constant) and v.value is None
                is_frame = isinstance(v, ast.Call) and isinstance(v.func, ast.Name) and v.func.id == "_prep_loss"
                if not (is_none or is_frame):
                    raise AnalysisError("node helper: the heat data handed to %s is %s, not the prepared loss frame: representation not readable" % (helper.name, ast.unparse(v)[:60]))
    from .. import refcmp, sysrules
    ok, rows = refcmp.compare(model, sysrules.roles(model), helper, refcmp.spec_function("spec_diag", "add_node"), rep, "R2",
                              "diagram._diag.add_node", where, "node attributes", free=("sys",), mod="diagram")
    rep.instance("R2", "diagram._diag.add_node override precedence", where, ok)
    # cluster attribute precedence (default -> group entry) is part of the whole-function comparison of R1
    rep.instance("R2", "diagram._diag cluster override precedence", "%s:%d" % (rel, fn.lineno), not any(f.rule == "R1" and "cluster" in f.message for f in rep.findings))


def r3(model, rep):
    # shared with C17-R1: arguments and module defaults are never written
    n = 0
    for mod, qn, fn in model.all_functions():
        if mod != "diagram":
            continue
        muts, params, consts = c17.arg_mutations(fn, mod, model)
        # a helper that fills a dict handed in by its callers is fine when every caller hands in a fresh copy (as in C17-R1)
        kept = []
        for line, desc, root in muts:
            if root in params:
                plist = [a.arg for a in fn.args.posonlyargs + fn.args.args]
                if root in plist and c17.fresh_at_all_call_sites(model, fn.name, plist.index(root), None):
                    continue
            kept.append((line, desc, root))
        muts = kept
        ok = not muts
        for line, desc, root in muts:
            rep.violation("R3", "diagram." + qn, "%s:%d" % (model.rel(mod), line), "stores into %s: the caller's configuration / system data or a module default is modified" % desc, "arg mutation " + desc)
        rep.instance("R3", "diagram.%s leaves its arguments and the defaults alone" % qn, "%s:%d" % (model.rel(mod), fn.lineno), ok)
        n += 1
    d = model.norm_func("diagram", "_diag")
    ok = True
    for x in ast.walk(d):
        if isinstance(x, ast.Assign) and isinstance(x.targets[0], ast.Name) and isinstance(x.value, (ast.Subscript, ast.Name)):
            tname = x.targets[0].id
            b = c17.base_name(x.value)
            if b in ("config", "bd_conf", "attrs", "_DEF_CONF", "_DEF_GRADIENT", "_DEF_NODE_CONF", "_DEF_CLUSTER_CONF"):
                stores = [y for y in ast.walk(d) if isinstance(y, ast.Assign) and any(isinstance(t, ast.Subscript) and is_name(t.value, tname) for t in y.targets)]
                # an alias that is only read (e.g. handed to copy.deepcopy) is harmless; one that is written through is not
                if stores:
                    ok = False
                    rep.violation("R3", "diagram._diag", "%s:%d" % (model.rel("diagram"), x.lineno), "'%s' aliases %s and is written to / used without a deep copy: settings leak between nodes, clusters or calls" % (tname, ast.unparse(x.value)), "alias written: " + tname)
    rep.instance("R3", "diagram._diag works on deep copies", "%s:%d" % (model.rel("diagram"), d.lineno), ok)
    gc = model.func("diagram", "get_conf")
    ok = ast.unparse(gc.body[-1]).replace(" ", "") == "returncopy.deepcopy(_DEF_CONF)"
    if not ok:
        rep.violation("R3", "diagram.get_conf", "%s:%d" % (model.rel("diagram"), gc.lineno), "get_conf() hands out the module default itself", "get_conf copy")
    rep.instance("R3", "diagram.get_conf returns a copy", "%s:%d" % (model.rel("diagram"), gc.lineno), ok)


class ColHooks:
    def call(self, sm, node, fname, args, kwargs, st):
        if fname in ("mpl.colors.to_rgb", "matplotlib.colors.to_rgb") and len(args) == 1:
            return fr("RGB(%s)" % show_value(args[0]))
        if fname in ("np.array", "np.asarray") and len(args) == 1:
            return args[0]
        if fname in ("mpl.colors.to_hex", "matplotlib.colors.to_hex") and len(args) == 1:
            return Sym(("HEX", vkey(args[0])))
        return None

    def name(self, id):
        return None


def r4(model, rep):
    rel = model.rel("diagram")
    # _gcolor
    fn = model.func("diagram", "_gcolor")
    sm = Summarizer(ColHooks(), Ctx(), consts={})
    m = fr("mix")
    leaves = sm.summarize(fn, {fn.args.args[0].arg: m})
    cold = model.const_value("diagram", "_COLD_RGB")
    warm = model.const_value("diagram", "_WARM_RGB")
    ok = len(leaves) == 1 and leaves[0].kind == "return" and isinstance(leaves[0].value, Sym) and leaves[0].value.key[0] == "HEX"
    if ok:
        got = leaves[0].value.key[1]
        C1, C2 = fr("RGB(_COLD_RGB)"), fr("RGB(_WARM_RGB)")
        ok = isinstance(got, RF) and got == (1 - m) * C1 + m * C2
    if not ok:
        rep.violation("R4", "diagram._gcolor", "%s:%d" % (rel, fn.lineno), "the heat colour is %s, expected (1-mix)*cold + mix*warm" % (show_value(leaves[0].value) if leaves else "?"), "gcolor")
    rep.instance("R4", "diagram._gcolor affine mix cold -> warm", "%s:%d" % (rel, fn.lineno), ok)
    # _prep_loss against its reference text (component rows only, duration-weighted mean over the phases written onto one
    # phase's rows, scale = maximum loss or 1 when that is 0, Mix = loss / scale)
    from .. import refcmp, sysrules
    fn = model.func("diagram", "_prep_loss")
    where = "%s:%d" % (rel, fn.lineno)
    ok, rows = refcmp.compare(model, sysrules.roles(model), fn, refcmp.spec_function("spec_diag", "_prep_loss"), rep, "R4",
                              "diagram._prep_loss", where, "loss preparation", mod="diagram")
    rep.instance("R4", "diagram._prep_loss scale and duration-weighted mean", where, ok, "%d guard rows" % rows)
    # label / colour of a node from its own row, the legend value and the preparation call are part of the reference
    # comparisons of add_node (R2) and _diag (R1)
    d = model.func("diagram", "_diag")
    ok = not any(f.rule in ("R1", "R2") and ("label" in f.message or "fillcolor" in f.message or "_prep_loss" in f.message) for f in rep.findings)
    rep.instance("R4", "diagram._diag heat colour / label / legend sources", "%s:%d" % (rel, d.lineno), ok)
    hd = model.func("diagram", "make_hdiag")
    sv = [x.targets[0].id for x in ast.walk(hd) if isinstance(x, ast.Assign) and isinstance(x.targets[0], ast.Name) and ast.unparse(x.value).replace(" ", "") == "sys.solve()"]
    calls = [c for c in ast.walk(hd) if isinstance(c, ast.Call) and is_name(c.func, "_diag")]
    ok = bool(sv) and len(calls) == 1 and any(k.arg == "loss" and is_name(k.value, sv[0]) for k in calls[0].keywords)
    if not ok:
        rep.violation("R4", "diagram.make_hdiag", "%s:%d" % (rel, hd.lineno), "the heat diagram is not drawn from the system's own solve() table", "hdiag source")
    rep.instance("R4", "diagram.make_hdiag uses solve()", "%s:%d" % (rel, hd.lineno), ok)


PREFIX_E = {"p": 12, "n": 9, "u": 6, "m": 3, "": 0, "k": -3, "M": -6}


def r5(model, rep):
    rel = model.rel("diagram")
    fn = model.func("diagram", "_nice_float")
    where = "%s:%d" % (rel, fn.lineno)
    F = fn.args.args[0].arg
    body = [s for s in fn.body if not (isinstance(s, ast.Expr) and isinstance(s.value, ast.Constant))]
    ok = True
    if not (isinstance(body[0], ast.Assign) and isinstance(body[0].targets[0], ast.Name) and ast.unparse(body[0].value).replace('"', "'") == "int('{:e}'.format(%s).split('e')[1])" % F):
        raise AnalysisError("_nice_float: decimal exponent extraction not recognised")
    P = body[0].targets[0].id
    chain = body[1]
    if not isinstance(chain, ast.If):
        raise AnalysisError("_nice_float: branch chain not found")
    branches = []
    cur = chain
    while True:
        branches.append((cur.test, cur.body))
        if len(cur.orelse) == 1 and isinstance(cur.orelse[0], ast.If):
            cur = cur.orelse[0]
        else:
            tail = cur.orelse
            break
    from ..idioms import const_int
    # first branch: out of range -> .2e
    t0 = ast.unparse(branches[0][0]).replace(" ", "")
    lo = hi = None
    if isinstance(branches[0][0], ast.BoolOp) and isinstance(branches[0][0].op, ast.Or) and len(branches[0][0].values) == 2:
        a, b = branches[0][0].values
        if isinstance(a, ast.Compare) and isinstance(a.ops[0], ast.Lt) and is_name(a.left, P):
            lo = const_int(a.comparators[0])
        if isinstance(b, ast.Compare) and isinstance(b.ops[0], ast.Gt) and is_name(b.left, P):
            hi = const_int(b.comparators[0])
    if "'{:.2e}'.format(%s)" % F not in ast.unparse(branches[0][1][0]).replace('"', "'"):
        raise AnalysisError("_nice_float: out-of-range branch not recognised")
    if lo is None or hi is None:
        # the fallback test has another shape: compare it, as a formula, with the range the bands leave uncovered
        Ts = [const_int(t.comparators[0]) for t, _ in branches[1:] if isinstance(t, ast.Compare)]
        if not Ts or any(x is None for x in Ts):
            raise AnalysisError("_nice_float: out-of-range branch not recognised")
        lo, hi = Ts[0] - 3, Ts[-1] - 1
        got = cond_formula(branches[0][0], {P: fr("pwr")})
        want = cond_formula(ast.parse("pwr < %d or pwr > %d" % (lo, hi), mode="eval").body, {"pwr": fr("pwr")})
        if not equiv(got, want):
            ok = False
            rep.violation("R5", "diagram._nice_float", where, "scientific notation is used when `%s`, but the prefix bands cover %d <= pwr <= %d" % (ast.unparse(branches[0][0]), lo, hi), "fallback test " + t0)
    prev = lo
    seen = []
    pw = fr("pwr")
    for test, bd in branches[1:]:
        if not (isinstance(test, ast.Compare) and isinstance(test.ops[0], ast.Lt) and is_name(test.left, P)):
            raise AnalysisError("_nice_float: band test `%s` not recognised" % ast.unparse(test))
        T = const_int(test.comparators[0])
        ret = bd[0]
        if not (isinstance(ret, ast.Return) and isinstance(ret.value, ast.Call) and isinstance(ret.value.func, ast.Attribute) and isinstance(ret.value.func.value, ast.Constant)):
            raise AnalysisError("_nice_float: band body not recognised")
        fmt = ret.value.func.value.value
        if not fmt.startswith("{}"):
            raise AnalysisError("_nice_float: band format not recognised")
        prefix = fmt[2:]
        rnd = ret.value.args[0]
        if not (isinstance(rnd, ast.Call) and is_name(rnd.func, "round") and len(rnd.args) == 2):
            raise AnalysisError("_nice_float: band does not round")
        val, dec = rnd.args
        E = None
        if is_name(val, F):
            E = 0
        elif isinstance(val, ast.BinOp) and isinstance(val.op, ast.Mult) and is_name(val.right, F) and isinstance(val.left, ast.Constant) and val.left.value > 0:
            import math
            k = math.log10(val.left.value)
            if abs(k - round(k)) < 1e-9:
                E = int(round(k))
        elif isinstance(val, ast.BinOp) and is_name(val.left, F) and isinstance(val.right, ast.Constant) and val.right.value > 0:
            import math
            k = math.log10(val.right.value)
            if abs(k - round(k)) < 1e-9:
                E = int(round(k)) if isinstance(val.op, ast.Mult) else (-int(round(k)) if isinstance(val.op, ast.Div) else None)
        if E is None:
            raise AnalysisError("_nice_float: scale of band '%s' not recognised" % prefix)
        seen.append(prefix)
        sm = Summarizer(DHooks(), Ctx())
        d = to_num(sm.expr(dec, State({P: pw})))
        problems = []
        if prefix not in PREFIX_E or PREFIX_E[prefix] != E:
            problems.append("prefix '%s' is paired with the scale 1e%d" % (prefix, E))
        if not (d == 2 - (pw + E)):
            problems.append("decimals are %s, expected %s (three significant digits)" % (show_value(d), show_value(2 - (pw + E))))
        if T != -E + 2:
            problems.append("the band ends below 1e%s, expected 1e%d" % (T, -E + 2))
        if prev is not None and T - 3 != (prev if seen[:-1] else lo + 0) and seen[:-1]:
            problems.append("the band is not three decades wide")
        for pr in problems:
            ok = False
            rep.violation("R5", "diagram._nice_float", "%s:%d" % (rel, ret.lineno), "band '%s': %s" % (prefix or "(none)", pr), "band %s: %s" % (prefix, pr[:40]))
        prev = T
    if not seen:
        raise AnalysisError("_nice_float: no prefix band recognised (the bands are not an if / elif chain on the exponent)")
    if seen != ["p", "n", "u", "m", "", "k", "M"]:
        ok = False
        rep.violation("R5", "diagram._nice_float", where, "prefix bands are %s" % seen, "bands %s" % seen)
    first_T = const_int(branches[1][0].comparators[0])
    if lo != first_T - 3 or hi != prev - 1:
        ok = False
        rep.violation("R5", "diagram._nice_float", where, "the scientific-notation fallback covers pwr < %s or pwr > %s, leaving a gap or overlap with the prefix bands [%s, %s)" % (lo, hi, first_T - 3, prev), "fallback range")
    if tail:
        ok = False
        rep.violation("R5", "diagram._nice_float", where, "unexpected trailing branch", "tail")
    rep.instance("R5", "diagram._nice_float band table", where, ok, "%d bands" % len(seen))
