"""C13 - a component loaded from a TOML file equals the constructor call (DESIGN.md section 4, C13)."""
import ast
from ..core import KINDS, AnalysisError
from .c17 import arg_mutations

EXPLANATION = (
    "Schema / signature agreement for the ten kinds that use the generic loader, plus LinReg's own: (R1) every key of the "
    "kind's own _cparams table is a keyword parameter of its constructor and every keyword parameter other than name / "
    "limits is a key, each kind defines its own table under a unique section name; (R2) an optional key has a constructor "
    "default and the table's default equals it (constants folded), a key the constructor requires is mandatory in the "
    "table; (R3) the accepted types contain dict / list exactly when the constructor branches on isinstance(param, dict / "
    "list), and `loss` accepts bool only; (R4) the generic loader fetches mandatory keys with _get_mand (KeyError), rejects a "
    "value whose exact type is not listed with ValueError before it is stored, takes limits from the top-level table with "
    "the constructor default, builds cls(name, **params) and does not modify the shared default limits; LinReg.from_file "
    "maps every key to the keyword of the same name with the constructor's default. Not decided: TOML parsing itself.")


def run(model, rep, tier):
    rep.explanation = EXPLANATION
    A = rep.attempt
    schema_representation(model)
    A(tables, model, rep)
    A(generic_loader, model, rep)
    A(linreg_loader, model, rep)


def schema_representation(model):
    """every rule of this property reads the parameter tables as {key: {"typ": [..], "opt": .., "def": ..}}; a schema kept in another
    representation is not something they can judge (an analysis error for the whole property, not a verdict of one rule)"""
    for kind in KINDS:
        cdef, tnode = model.class_attr(kind, "_cparams")
        if tnode is None:
            continue
        try:
            tab = model.fold("components", tnode)
        except AnalysisError:
            continue        # the table rule says what it cannot fold
        params = tab.get("params") if isinstance(tab, dict) else None
        if not isinstance(params, dict):
            raise AnalysisError("%s._cparams: the parameter table is not {'name': .., 'params': {..}}" % kind)
        for k, v in params.items():
            if not isinstance(v, dict):
                raise AnalysisError("%s._cparams: the entry of %r is %r, not a {'typ', 'opt', 'def'} table: schema representation not readable" % (kind, k, v))


def ctor_sig(model, kind):
    owner, fn = model.method(kind, "__init__")
    kws = {}
    for a, d in zip(fn.args.kwonlyargs, fn.args.kw_defaults):
        kws[a.arg] = d
    return owner, fn, kws


def fold_default(model, node):
    if node is None:
        return ("<required>",)
    try:
        return model.fold("components", node)
    except AnalysisError:
        return ("<unfoldable>", ast.unparse(node))


def isinstance_branches(fn, param):
    out = set()
    for x in ast.walk(fn):
        if isinstance(x, ast.Call) and isinstance(x.func, ast.Name) and x.func.id == "isinstance" and len(x.args) == 2 and isinstance(x.args[0], ast.Name):
            names = {x.args[0].id}
            if x.args[0].id == param or param in aliases(fn, x.args[0].id):
                t = x.args[1]
                for e in (t.elts if isinstance(t, ast.Tuple) else [t]):
                    if isinstance(e, ast.Name):
                        out.add(e.id)
    return out


def aliases(fn, name):
    """parameters a local name may stand for (igc = iq / igc = ig)"""
    out = set()
    for x in ast.walk(fn):
        if isinstance(x, ast.Assign) and isinstance(x.targets[0], ast.Name) and x.targets[0].id == name and isinstance(x.value, ast.Name):
            out.add(x.value.id)
    return out


def tables(model, rep):
    rel = model.rel("components")
    sections = {}
    n = 0
    for kind in KINDS:
        owner_ff, ff = model.method(kind, "from_file")
        if owner_ff != "_Component":
            continue
        cdef, tnode = model.class_attr(kind, "_cparams")
        where = "%s:%d" % (rel, tnode.lineno if tnode is not None else model.cls(kind).lineno)
        construct = "components.%s._cparams" % kind
        ok = True
        if cdef != kind:
            rep.violation("R1", construct, where, "%s has no parameter table of its own (it would be loaded with %s's keys and section)" % (kind, cdef), "inherits table of %s" % cdef)
            rep.instance("R1", construct, where, False)
            n += 1
            continue
        try:
            tab = model.fold("components", tnode)
        except AnalysisError as e:
            raise AnalysisError("%s._cparams is not a literal table: %s" % (kind, e))
        sec = tab.get("name")
        if sec in sections:
            ok = False
            rep.violation("R1", construct, where, "section name '%s' is also used by %s" % (sec, sections[sec]), "duplicate section " + str(sec))
        sections[sec] = kind
        owner, init, kws = ctor_sig(model, kind)
        params = tab.get("params", {})
        want = set(kws) - {"limits"}
        if set(params) != want:
            ok = False
            rep.violation("R1", construct, where, "table keys %s differ from the constructor's keyword parameters %s" % (sorted(params), sorted(want)),
                          "keys +%s -%s" % (sorted(set(params) - want), sorted(want - set(params))))
        for k, spec in params.items():
            if k not in kws:
                continue
            cdflt = fold_default(model, kws[k])
            opt = spec.get("opt")
            if opt:
                if cdflt == ("<required>",):
                    ok = False
                    rep.violation("R2", construct, where, "key '%s' is optional in the table but required by %s(): a file without it builds a component the constructor call would refuse (no KeyError)" % (k, kind), "optional but required: " + k)
                elif "def" not in spec or spec["def"] != cdflt or type(spec["def"]) != type(cdflt) and not (isinstance(spec["def"], (int, float)) and isinstance(cdflt, (int, float))):
                    ok = False
                    rep.violation("R2", construct, where, "default of '%s' is %r in the table but %r in the constructor" % (k, spec.get("def"), cdflt), "default %s: %r vs %r" % (k, spec.get("def"), cdflt))
            typ = spec.get("typ", [])
            br = isinstance_branches(init, k)
            for tname in ("dict", "list"):
                if (tname in typ) != (tname in br):
                    ok = False
                    rep.violation("R3", construct, where, "key '%s': the table %s %s values but the constructor %s a %s form" % (
                        k, "accepts" if tname in typ else "rejects", tname, "handles" if tname in br else "does not handle", tname), "typ %s %s" % (k, tname))
            if k == "loss" and typ != ["bool"]:
                ok = False
                rep.violation("R3", construct, where, "'loss' accepts %s, expected bool only" % typ, "typ loss")
            if k != "loss" and "bool" in typ:
                ok = False
                rep.violation("R3", construct, where, "numeric key '%s' accepts bool" % k, "typ bool " + k)
        rep.instance("R1-R3", construct, where, ok, "%d keys, section '%s'" % (len(params), sec))
        n += 1
    rep.floor("R1", n, 10)


def _norm(fn):
    """pure local aliases inlined, parent links restored (section = config["linreg"] ... section["vo"])"""
    from ..core import inline_pure_aliases
    fn = inline_pure_aliases(fn)
    for node in ast.walk(fn):
        for ch in ast.iter_child_nodes(node):
            if not isinstance(ch, (ast.expr_context, ast.operator, ast.cmpop, ast.boolop, ast.unaryop)):
                ch._parent = node
    return fn


def generic_loader(model, rep):
    rel = model.rel("components")
    owner, fn = model.method("_Component", "from_file")
    fn = _norm(fn)
    where = "%s:%d" % (rel, fn.lineno)
    construct = "components._Component.from_file"
    src = ast.unparse(fn)
    ok = True
    PARSERS = ("toml.load", "toml.loads", "tomllib.load")
    cfgs = [x.targets[0].id for x in ast.walk(fn) if isinstance(x, ast.Assign) and isinstance(x.targets[0], ast.Name) and isinstance(x.value, ast.Call)
            and ast.unparse(x.value.func) in PARSERS]
    if not cfgs:
        # the parse may live in a module-level helper called with the file name: it must parse the file on every call
        fparam = [a.arg for a in fn.args.args + fn.args.kwonlyargs if a.arg not in ("cls", "self", "name")]
        for x in ast.walk(fn):
            if isinstance(x, ast.Assign) and isinstance(x.targets[0], ast.Name) and isinstance(x.value, ast.Call) and isinstance(x.value.func, ast.Name) \
                    and ("components", x.value.func.id) in model.funcs and any(isinstance(a, ast.Name) and a.id in fparam for a in x.value.args):
                h = model.funcs[("components", x.value.func.id)]
                parses = [c for c in ast.walk(h) if isinstance(c, ast.Call) and ast.unparse(c.func) in PARSERS]
                if not parses:
                    continue
                cfgs.append(x.targets[0].id)
                for d in h.decorator_list:
                    dn = ast.unparse(d.func if isinstance(d, ast.Call) else d)
                    if dn.split(".")[-1] in ("lru_cache", "cache", "cached", "memoize"):
                        ok = False
                        rep.violation("R1", construct, "%s:%d" % (rel, h.lineno), "the file is parsed by %s, which is memoised (@%s): a second from_file() of the same path returns the first parse even if the file has changed, and every component built from it shares one parameter dict" % (h.name, dn), "memoised file parse")
                    else:
                        raise AnalysisError("generic loader: helper %s carries the unknown decorator %s" % (h.name, dn))
                glob_w = [g for g in ast.walk(h) if isinstance(g, (ast.Global, ast.Nonlocal))]
                modvars = {t.id for s in model.tree["components"].body if isinstance(s, ast.Assign) for t in s.targets if isinstance(t, ast.Name)}
                hits = [s for s in ast.walk(h) if isinstance(s, ast.Subscript) and isinstance(s.value, ast.Name) and s.value.id in modvars and isinstance(s.ctx, ast.Store)]
                if glob_w or hits:
                    ok = False
                    rep.violation("R1", construct, "%s:%d" % (rel, h.lineno), "the file parser %s keeps parsed files in module state: a second from_file() of the same path does not see the file's current content" % h.name, "cached file parse")
    if len(cfgs) != 1:
        raise AnalysisError("generic loader: the parsed file is not bound to one name")
    CFG = cfgs[0]
    # the loader as a whole against its reference text (sa/spec_comp.py): which keys are read from which section with which
    # default, KeyError / ValueError before anything is built, limits from the top level, cls(name, **params)
    from .. import refcmp, sysrules
    okr, rows = refcmp.compare(model, sysrules.roles(model), model.method("_Component", "from_file")[1], refcmp.spec_function("spec_comp", "from_file"),
                               rep, "R4", construct, where, "generic loader", mod="components")
    rep.instance("R4", construct, where, ok and okr, "%d path pairs" % rows)
    return
    loops = [x for x in fn.body if isinstance(x, ast.For)]
    if len(loops) != 1:
        raise AnalysisError("generic loader: key loop not found")
    loop = loops[0]
    key = loop.target.id if isinstance(loop.target, ast.Name) else None
    if key is None or "_cparams['params']" not in ast.unparse(loop.iter).replace('"', "'"):
        raise AnalysisError("generic loader does not iterate over the table's keys")
    # the value variable: the name stored into the parameter dict under the key
    st_ = [x for x in loop.body if isinstance(x, ast.Assign) and isinstance(x.targets[0], ast.Subscript) and is_loopkey(x.targets[0].slice, key) and isinstance(x.value, ast.Name)]
    if len(st_) != 1 or not isinstance(st_[0].targets[0].value, ast.Name):
        raise AnalysisError("generic loader: the store of the fetched value is not recognised")
    PV, FP = st_[0].value.id, st_[0].targets[0].value.id
    # mandatory / optional fetch
    fetch = [x for x in loop.body if isinstance(x, ast.If)]
    good = False
    for iff in fetch:
        t = ast.unparse(iff.test).replace('"', "'")
        if t == "cls._cparams['params'][%s]['opt']" % key:
            b = ast.unparse(iff.body[0]).replace('"', "'").replace("\n", "").replace(" ", "")
            o = ast.unparse(iff.orelse[0]).replace('"', "'").replace(" ", "") if iff.orelse else ""
            if b.startswith("%s=_get_opt(%s[cls._cparams['name']],%s,cls._cparams['params'][%s]['def'])" % (PV, CFG, key, key)) and \
                    o == "%s=_get_mand(%s[cls._cparams['name']],%s)" % (PV, CFG, key):
                good = True
    if not good:
        ok = False
        rep.violation("R4", construct, where, "optional keys are not read with their table default / mandatory keys not with _get_mand (KeyError)", "fetch")
    # type gate: exact type membership, raise ValueError, before the store
    gate = None
    store = None
    for i, s in enumerate(loop.body):
        if isinstance(s, ast.If) and any(isinstance(b, ast.Raise) for b in s.body):
            t = ast.unparse(s.test).replace('"', "'").replace(" ", "")
            if t in ("type(%s)notincls._cparams['params'][%s]['typ']" % (PV, key), "nottype(%s)incls._cparams['params'][%s]['typ']" % (PV, key)):
                if "ValueError" in ast.unparse(s.body[0]):
                    gate = i
            else:
                rep.violation("R4", construct, "%s:%d" % (rel, s.lineno), "the type gate is `%s`: a value whose exact type is not listed (e.g. a bool for a number) is not rejected" % ast.unparse(s.test), "type gate " + t.replace(PV, "<value>"))
                ok = False
                gate = -1
        if s is st_[0]:
            store = i
    if gate is None or store is None or (gate >= 0 and gate > store):
        ok = False
        rep.violation("R4", construct, where, "a value of the wrong type is not rejected with ValueError before it is stored", "type gate order")
    # limits and construction
    lim = [x for x in ast.walk(fn) if isinstance(x, ast.Assign) and ast.unparse(x.targets[0]).replace('"', "'") == "%s['limits']" % FP]
    if not lim or ast.unparse(lim[0].value).replace('"', "'").replace(" ", "") != "_get_opt(%s,'limits',LIMITS_DEFAULT)" % CFG:
        ok = False
        rep.violation("R4", construct, where, "limits are not taken from the file's top-level table with the constructor default", "limits")
    rets = [x for x in ast.walk(fn) if isinstance(x, ast.Return)]
    if len(rets) != 1 or ast.unparse(rets[0].value).replace(" ", "") != "cls(name,**%s)" % FP:
        ok = False
        rep.violation("R4", construct, where, "the component is not built as cls(name, **params)", "construction")
    muts, params, consts = arg_mutations(fn, "components", model)
    for line, desc, root in muts:
        if root in consts:
            ok = False
            rep.violation("R4", construct, "%s:%d" % (rel, line), "the loader writes into the shared default %s (%s): a later load without limits inherits this file's limits" % (root, desc), "loader mutates " + root)
    rep.instance("R4", construct, where, ok)


class _NoHooks:
    def call(self, sm, node, fname, args, kwargs, st):
        if fname == "isinstance" and len(args) == 2:
            from ..summ import BoolV, vkey
            from ..guards import A
            return BoolV(A(("ISA", vkey(args[0]), vkey(args[1]))))
        if fname == "warn":
            from ..summ import Sym
            return Sym(("warn",))
        return None


def is_loopkey(node, key):
    return isinstance(node, ast.Name) and node.id == key


def linreg_loader(model, rep):
    rel = model.rel("components")
    owner, fn = model.method("LinReg", "from_file")
    if owner != "LinReg":
        raise AnalysisError("LinReg no longer has its own loader")
    where = "%s:%d" % (rel, fn.lineno)
    construct = "components.LinReg.from_file"
    _, init, kws = ctor_sig(model, "LinReg")
    # the loader against its reference text: every keyword fed from the key of the same name in [linreg] (limits from the top
    # level), the deprecated iq taking the place of ig with its table re-keyed, the named default constants
    from .. import refcmp, sysrules
    okr, rows = refcmp.compare(model, sysrules.roles(model), fn, refcmp.spec_function("spec_comp", "linreg_from_file"), rep, "R4", construct, where,
                               "LinReg loader", mod="components")
    # ... and the named defaults are the constructor's defaults
    for kw, cname in (("vdrop", "VDROP_DEFAULT"), ("ig", "IG_DEFAULT"), ("iis", "IIS_DEFAULT"), ("rt", "RT_DEFAULT"), ("limits", "LIMITS_DEFAULT")):
        cd = fold_default(model, kws.get(kw))
        fd = fold_default(model, ast.Name(id=cname, ctx=ast.Load()))
        if fd != cd:
            okr = False
            rep.violation("R4", construct, where, "file default of '%s' is %r (%s), constructor default %r" % (kw, fd, cname, cd), "default %s %r" % (kw, fd))
    rep.instance("R4", construct, where, okr, "%d path pairs, %d keywords" % (rows, len(kws)))
    return
    fn = _norm(fn)
    reads = {}
    for x in ast.walk(fn):
        if isinstance(x, ast.Assign) and isinstance(x.targets[0], ast.Name) and isinstance(x.value, ast.Call) and isinstance(x.value.func, ast.Name) \
                and x.value.func.id in ("_get_opt", "_get_mand") and len(x.value.args) >= 2 and isinstance(x.value.args[1], ast.Constant):
            sect = ast.unparse(x.value.args[0]).replace('"', "'")
            d = x.value.args[2] if len(x.value.args) > 2 else None
            reads[x.targets[0].id] = (x.value.func.id, sect, x.value.args[1].value, d)
    rets = [x for x in ast.walk(fn) if isinstance(x, ast.Return) and isinstance(x.value, ast.Call)]
    if len(rets) != 1:
        raise AnalysisError("LinReg.from_file: constructor call not found")
    ok = True
    call = rets[0].value
    passed = {k.arg: k.value for k in call.keywords}
    for kw in kws:
        if kw == "iq":
            continue   # deprecated alias of ig, mapped by the loader itself
        v = passed.get(kw)
        if v is None or not isinstance(v, ast.Name) or v.id not in reads:
            ok = False
            rep.violation("R4", construct, where, "keyword '%s' of LinReg() is not fed from the file" % kw, "kw " + kw)
            continue
        how, sect, key, d = reads[v.id]
        cf2 = [x.targets[0].id for x in ast.walk(fn) if isinstance(x, ast.Assign) and isinstance(x.targets[0], ast.Name) and isinstance(x.value, ast.Call) and ast.unparse(x.value.func) in ("toml.load", "toml.loads", "tomllib.load")]
        cfn = cf2[0] if cf2 else "config"
        want_sect = cfn if kw == "limits" else "%s['linreg']" % cfn
        if key != kw or sect != want_sect:
            ok = False
            rep.violation("R4", construct, where, "keyword '%s' is read from %s[%r]" % (kw, sect, key), "kw %s <- %s" % (kw, key))
        cd = fold_default(model, kws[kw])
        if how == "_get_mand":
            if cd != ("<required>",):
                pass
        else:
            fd = fold_default(model, d)
            if cd == ("<required>",):
                ok = False
                rep.violation("R4", construct, where, "'%s' is required by LinReg() but optional in the file" % kw, "optional " + kw)
            elif fd != cd:
                ok = False
                rep.violation("R4", construct, where, "file default of '%s' is %r, constructor default %r" % (kw, fd, cd), "default %s %r" % (kw, fd))
    rep.instance("R4", construct, where, ok, "%d keywords" % len(kws))
    # the deprecated iq key: like the constructor, a non-zero iq takes the place of ig (table key renamed), otherwise ig is used
    from ..summ import Summarizer, Sym
    from ..guards import Ctx, literals
    sm = Summarizer(_NoHooks(), Ctx())
    leaves = sm.summarize(fn, {a.arg: Sym(("name", a.arg)) for a in fn.args.args + fn.args.kwonlyargs})
    ok = True
    seen = set()
    for lf in leaves:
        if lf.kind != "return" or not isinstance(lf.value, Sym) or lf.value.key[0] != "call":
            raise AnalysisError("LinReg.from_file: a path does not end in the constructor call")
        kw = {k: v for k, v in [x for x in lf.value.key[2] if isinstance(x, tuple) and len(x) == 2 and isinstance(x[0], str)]}
        igv = kw.get("ig")
        lits = {}
        for g in lf.guards:
            literals(g, True, lits)
        iqz = None
        iqsym = None
        for k, v in lits.items():
            if k[0] in ("ZP", "Z") or k[0] == "EQ":
                txt = repr(k)
                if "'iq'" in txt:
                    iqz = v
        if iqz is None:
            raise AnalysisError("LinReg.from_file does not branch on iq != 0")
        seen.add(iqz)
        from ..summ import show_value
        s_ig = show_value(igv) if igv is not None else "nothing"
        want_iq = "_get_opt(" in s_ig and "'iq'" in s_ig
        want_ig = "_get_opt(" in s_ig and "'ig'" in s_ig and "'iq'" not in s_ig
        if (iqz and not want_ig) or (not iqz and not want_iq):
            ok = False
            rep.violation("R4", construct, where, "with iq %s 0 the ground-current keyword is fed from %s" % ("==" if iqz else "!=", s_ig), "iq path ig<-%s when iq%s0" % (s_ig[:40], "==" if iqz else "!="))
        if not iqz:
            # a tabulated iq must be re-keyed to 'ig' as the constructor does
            isd = [k for k, v in lits.items() if k[0] == "ISA" or "isinstance" in repr(k)]
            rek = [e for e in lf.events if e[0] == "store" and e[1][0] == "sub" and e[1][2] == "ig"]
            dict_path = any(v for k, v in lits.items() if "dict" in repr(k))
            if dict_path and not rek:
                ok = False
                rep.violation("R4", construct, where, "a tabulated iq is not re-keyed to 'ig'", "iq table rekey")
    if seen != {True, False}:
        raise AnalysisError("LinReg.from_file: iq paths incomplete")
    rep.instance("R4", construct + " deprecated iq key", where, ok, "%d paths" % len(leaves))
