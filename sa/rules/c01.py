"""C01 - solved table obeys every component's documented electrical law (DESIGN.md section 4, C01)."""
from ..core import KINDS, AnalysisError
from ..laws import check_against_spec, summarize_law, METH
from ..terms import RF
from ..summ import nn, show_value
from .. import sysrules

EXPLANATION = (
    "Static decision of the structural clauses of C01: (R1) the guarded summary of each of the 22 "
    "_solv_outp_volt/_solv_inp_curr methods (11 kinds, resolved through inheritance, two input modes) equals the "
    "reference law row by row of the guard truth table, as rational-function identities; (R2) every interpolator "
    "lookup inside a law is (|io|, |vi| of the input the law uses); (R4) the forward and backward passes hand each node "
    "its own parents' voltages/states, its own phase table and the child-current sum; (R5) the child-current sum adds "
    "a child's current unless the child is a mux fed from another input; (R6) the row assembly of solve() reports "
    "Vin from the feeding parent, Iout from the children and Vout/Iin from the solved vectors. Not decided: that the "
    "iteration converges to the fixed point of these laws (C03), floating-point error.")


def run(model, rep, tier):
    rep.explanation = EXPLANATION
    A = rep.attempt
    A(lambda: rep.floor("R1", check_against_spec(model, rep, "R1", KINDS, "IV"), 44))
    A(r2, model, rep)
    sysrules.c01_wiring(model, rep)


def r2(model, rep):
    """interpolator lookups take (io, |vi| of the used input)"""
    n = 0
    for kind in KINDS:
        for which in "IVP":
            owner, fn, leaves, ctx = summarize_law(model, kind, which, False)
            sites = {}
            for lf in leaves:
                for e in lf.events:
                    if e[0] == "ipr":
                        sites.setdefault(e[3], set()).add((e[1], e[2]))
            for line, argset in sorted(sites.items()):
                n += 1
                construct = "components.%s.%s" % (kind, METH[which])
                where = "%s:%d" % (model.rel("components"), line)
                ok = True
                for x, y in argset:
                    want_y = [RF.atom(("m", "vi[0]"))] if not (kind == "PMux" and which in "IV") else [RF.atom(("m", "vi[PRI]"))]
                    if not (x == nn("io")) or not any(y == w for w in want_y):
                        ok = False
                        rep.violation("R2", construct, where,
                                      "interpolator queried with (%s, %s), expected (io, %s)" % (show_value(x), show_value(y), show_value(want_y[0])),
                                      "ipr(%s, %s)" % (show_value(x), show_value(y)))
                rep.instance("R2", construct + " lookup", where, ok)
    rep.floor("R2", n, 14)
