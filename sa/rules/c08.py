"""C08 - the rail report is the solve() table summed per supply rail (DESIGN.md section 4, C08)."""
import ast
from ..core import AnalysisError
from ..aggr import Reader, show
from .. import sysrules

EXPLANATION = (
    "All in rail_rep(), read as pandas records: (R0) every analysis option of rail_rep() is forwarded unchanged to solve(); "
    "(R1) per (phase, rail) the cell filter is {Rail in == rail} and, with phases, {Phase == phase}; Voltage is the first Vin, "
    "Current / Power / Loss are sums of Iin / Power / Loss under that same filter, and each result header is fed by the "
    "matching accumulator; (R2) the Rail in label of a row is the rail of the parent that actually feeds it, the selected "
    "input for a mux (row assembly of solve(), shared with C05-R5); (R3) the Warnings cell is the joined set of the filtered "
    "Warnings column, an empty constant being allowed only for an empty set; (R4) a (rail, phase) cell whose selection is "
    "empty is skipped before any first-element access; (R5) every path returns a table, and without rails the solve() "
    "table itself is returned unmodified. Not decided: what pandas does with the selections (trusted contract).")


def unread_selection(d, frame):
    """does the description contain the table subscripted by something the reader did not turn into a selection record?
    (then the reader knows nothing about the cell: an analysis error, not a verdict)"""
    if isinstance(d, tuple):
        if d and d[0] in ("call", "expr", "name") and len(d) > 1 and isinstance(d[1], str):
            import re
            # the table subscripted by a bare name: a predicate held in a variable that the reader could not turn into a record
            if re.search(r"\b%s\[[A-Za-z_][A-Za-z_0-9]*\]" % re.escape(frame), d[1].replace(" ", "")):
                return True
        return any(unread_selection(x, frame) for x in d[1:])
    return False


def run(model, rep, tier):
    from ..aggr import Reader as _R
    _R.MODEL = model
    rep.explanation = EXPLANATION
    A = rep.attempt
    A(r_all, model, rep)
    A(lambda: sysrules.row_assembly(model, rep, sysrules.roles(model), "R2", ["Rail in", "Parent", "Vin (V)", "Rail out"]))


def is_name_(node, name):
    return isinstance(node, ast.Name) and node.id == name


def always_returns(stmts):
    if not stmts:
        return False
    last = stmts[-1]
    if isinstance(last, (ast.Return, ast.Raise)):
        return True
    if isinstance(last, ast.If):
        return always_returns(last.body) and always_returns(last.orelse)
    if isinstance(last, ast.Try):
        return always_returns(last.finalbody) or (always_returns(last.body) and all(always_returns(h.body) for h in last.handlers))
    if isinstance(last, ast.With):
        return always_returns(last.body)
    return False


def r_all(model, rep):
    rel = model.rel("system")
    fn = model.own_method("System", "rail_rep")
    if fn is None:
        raise AnalysisError("System.rail_rep not found")
    from ..core import inline_nested_defs
    fn = inline_nested_defs(fn)
    where = "%s:%d" % (rel, fn.lineno)
    body = [s for s in fn.body if not (isinstance(s, ast.Expr) and isinstance(s.value, ast.Constant))]
    # ---- R0 forwarding
    call = None
    for s in body:
        if isinstance(s, ast.Assign) and isinstance(s.value, ast.Call) and ast.unparse(s.value.func) == "self.solve" and isinstance(s.targets[0], ast.Name):
            call, frame, cidx = s.value, s.targets[0].id, body.index(s)
    if call is None:
        raise AnalysisError("rail_rep does not start from self.solve(...)")
    sdef = model.own_method("System", "solve")
    sparams = [a.arg for a in sdef.args.kwonlyargs]
    own = [a.arg for a in fn.args.kwonlyargs]
    kws = {k.arg: k.value for k in call.keywords}
    ok = not call.args
    for p in sparams:
        if p in own:
            v = kws.get(p)
            if not (isinstance(v, ast.Name) and v.id == p):
                ok = False
                rep.violation("R0", "system.System.rail_rep", "%s:%d" % (rel, call.lineno),
                              "option '%s' of rail_rep() is %s to solve(): the report is then computed for other conditions than asked" % (p, "not forwarded" if v is None else "forwarded as " + ast.unparse(v)),
                              "forward " + p)
        # an option solve() has and rail_rep() does not offer is solved with solve()'s default: nothing is mis-reported (a display option
        # added to solve() alone is an ordinary feature commit)
    rep.instance("R0", "system.System.rail_rep forwards its options to solve()", "%s:%d" % (rel, call.lineno), ok, ", ".join(sparams))
    # ---- read the rest
    rd = Reader(frame)
    rd.run(body[cidx + 1:])
    # ---- R5 totality
    ok = always_returns(body)
    if not ok:
        rep.violation("R5", "system.System.rail_rep", where, "some path through rail_rep() ends without returning a table (None is returned)", "falls off the end")
    rets = [(c, v, l) for c, row, col, v, l in rd.updates if row == ("return",)]
    for conds, v, line in rets:
        good = v == ("name", frame) or (v[0] == "call" and v[1] in ("pd.DataFrame", "pandas.DataFrame"))
        if not good:
            ok = False
            rep.violation("R5", "system.System.rail_rep", "%s:%d" % (rel, line), "rail_rep() returns %s, not a table" % show(v), "returns " + show(v))
    def no_rails_cond(c):
        t = c[1].replace('"', "'").replace(" ", "")
        return (c[0] == "ifnot" and t == "'Railin'in%s" % frame) or (c[0] == "if" and t in ("'Railin'notin%s" % frame, "not'Railin'in%s" % frame))
    norails = [(c, v, l) for c, v, l in rets if any(no_rails_cond(x) for x in c)]
    withrails = [(c, v, l) for c, v, l in rets if not any(no_rails_cond(x) for x in c)]
    if any(v == ("name", frame) for c, v, l in withrails):
        ok = False
        rep.violation("R5", "system.System.rail_rep", where, "with rails defined the raw solve() table is returned instead of the rail report", "rails return")
    if not norails or any(v != ("name", frame) for c, v, l in norails):
        ok = False
        rep.violation("R5", "system.System.rail_rep", where, "without rails the solve() table itself is not what is returned", "no-rails return")
    for conds, row, col, v, line in rd.updates:
        if row == ("call", frame):
            ok = False
            rep.violation("R5", "system.System.rail_rep", "%s:%d" % (rel, line), "the solve() table is modified in place by .%s()" % col, "frame modified " + col)
    rep.instance("R5", "system.System.rail_rep always returns a table", where, ok, "%d return(s)" % len(rets))
    # ---- R1 cells
    loops = [x for x in ast.walk(fn) if isinstance(x, ast.For)]
    if len(loops) < 2:
        raise AnalysisError("rail_rep: (phase, rail) loops not found")
    headers = {col: v for conds, row, col, v, line in rd.updates if row[0] == "dict"}
    need = ["Rail", "Voltage (V)", "Current (A)", "Power (W)", "Loss (W)", "Warnings"]
    for h in need:
        if h not in headers or headers[h][0] != "name":
            raise AnalysisError("rail_rep: result column '%s' is not fed by a named list" % h)
    # loop variables: phase loop ranges over the phase list, rail loop over the rails
    PH = R = None
    for lp in loops:
        if isinstance(lp.target, ast.Name):
            d = rd.env.get(lp.target.id)
            txt = ""
            if isinstance(lp.iter, ast.Name):
                for a in ast.walk(fn):
                    if isinstance(a, ast.Assign) and any(sysrules.is_name(t, lp.iter.id) for t in a.targets):
                        txt += ast.unparse(a.value)
            if "'Phase'" in txt:
                PH = d
            elif "'Rail in'" in txt:
                R = d
    if PH is None or R is None:
        raise AnalysisError("rail_rep: loop variables for phase / rail not identified")
    cR = ("Rail in", "==", R)
    cP = ("Phase", "==", PH)

    def is_filter(conds):
        """{Rail in == r} & {Phase == ph} when phases, {Rail in == r} otherwise"""
        cs = list(conds)
        if len(cs) == 1 and cs[0][0] == "__ite__":
            _, test, a, b = cs[0]
            t = test.replace(" ", "").replace('"', "'")
            phv = PH[1]
            if t in ("%s!=''" % phv, "''!=%s" % phv):
                return set(a) == {cR, cP} and set(b) == {cR}
            if t in ("%s==''" % phv, "''==%s" % phv):
                return set(b) == {cR, cP} and set(a) == {cR}
            return False
        return set(cs) == {cR, cP}
    want = {"Voltage (V)": ("Vin (V)", "first"), "Current (A)": ("Iin (A)", "sum"), "Power (W)": ("Power (W)", "sum"), "Loss (W)": ("Loss (W)", "sum")}
    for h, (col, red) in want.items():
        var = headers[h][1]
        apps = rd.appends.get(var, [])
        ok = len(apps) == 1 and apps[0][1][0] == "sel" and apps[0][1][2] == col and apps[0][1][3] == red and is_filter(apps[0][1][1])
        line = apps[0][2] if apps else fn.lineno
        if not ok:
            got = show(apps[0][1]) if apps else "nothing"
            if apps and unread_selection(apps[0][1], frame):
                raise AnalysisError("rail_rep: '%s' is taken from a selection of the table the reader cannot follow (%s)" % (h, got[:120]))
            rep.violation("R1", "system.System.rail_rep", "%s:%d" % (rel, line), "'%s' of a rail is %s, expected %s(%s) over the rows whose Rail in is that rail%s" % (
                h, got, red, col, " in that phase"), "%s = %s" % (h, got))
        rep.instance("R1", "system.System.rail_rep cell %s" % h, "%s:%d" % (rel, line), ok)
    for h, want_d in (("Rail", R), ("Phase", PH)):
        if h not in headers:
            if h == "Phase":
                rep.violation("R1", "system.System.rail_rep", where, "the report has no Phase column", "no Phase column")
            continue
        apps = rd.appends.get(headers[h][1], [])
        ok = len(apps) == 1 and apps[0][1] == want_d
        if not ok:
            rep.violation("R1", "system.System.rail_rep", where, "column '%s' does not list the %s of its cell" % (h, h.lower()), "label " + h)
        rep.instance("R1", "system.System.rail_rep label %s" % h, where, ok)
    phn = None
    for lp in loops:
        if isinstance(lp.target, ast.Name) and rd.env.get(lp.target.id) == PH and isinstance(lp.iter, ast.Name):
            phn = lp.iter.id
    if phn:
        pc = [c for c, row, col, v, l in rd.updates if row[0] == "dict" and col == "Phase"]
        good = bool(pc) and any(x[0] == "if" and x[1].replace('"', "'").replace(" ", "") in ("%s!=['']" % phn, "['']!=%s" % phn) for x in pc[0]) or \
            (bool(pc) and any(x[0] == "ifnot" and x[1].replace('"', "'").replace(" ", "") in ("%s==['']" % phn, "['']==%s" % phn) for x in pc[0]))
        if not good:
            rep.violation("R1", "system.System.rail_rep", where, "the Phase column is not added exactly when phases are reported", "phase column condition")
        rep.instance("R1", "system.System.rail_rep Phase column present iff phases", where, good)
        # the phase list is the table's phases without the '' of the average row
        rm = [x for x in ast.walk(fn) if isinstance(x, ast.If) and ast.unparse(x.test).replace('"', "'").replace(" ", "") == "''in%s" % phn
              and len(x.body) == 1 and ast.unparse(x.body[0]).replace('"', "'").replace(" ", "") == "%s.remove('')" % phn]
        src_ok = any(isinstance(x, ast.Assign) and is_name_(x.targets[0], phn) and ast.unparse(x.value).replace('"', "'").replace(" ", "") == "%s['Phase'].unique().tolist()" % frame for x in ast.walk(fn))
        if not rm or not src_ok:
            rep.violation("R1", "system.System.rail_rep", where, "the phases reported are not 'the distinct phases of the solve() table without the empty phase of the average row'", "phase list")
        rep.instance("R1", "system.System.rail_rep phase list", where, bool(rm) and src_ok)
    # ---- R3 warnings union
    wvar = headers["Warnings"][1]
    apps = rd.appends.get(wvar, [])
    ok = bool(apps)
    if not apps:
        rep.violation("R3", "system.System.rail_rep", where, "nothing is ever appended to the Warnings column", "warnings never appended")
    for conds, d, line in apps:
        core = d
        if core[0] == "join":
            core = core[2]
        seen_sel = None
        guard = 0
        while isinstance(core, tuple) and guard < 8:
            guard += 1
            if core[0] in ("sorted", "set"):
                core = core[1]
            elif core[0] == "removed":
                if core[2] != ("const", ""):
                    break
                rc = [c for c in core[3] if c not in conds]
                if core[3] == ("always",):
                    rc = [("if", "''in set")]      # a set difference removes the element exactly when it is present
                if not (len(rc) == 1 and rc[0][0] == "if" and rc[0][1].replace('"', "'").replace(" ", "").startswith("''in")):
                    ok = False
                    rep.violation("R3", "system.System.rail_rep", "%s:%d" % (rel, line), "the empty text is removed from the warning set under %s, expected: when it is present" % ([c[1] for c in rc] or "no condition"), "empty removal condition")
                core = core[1]
            elif core[0] == "sel":
                seen_sel = core
                break
            else:
                break
        if seen_sel is not None and seen_sel[2] == "Warnings" and seen_sel[3] in ("list", "unique") and is_filter(seen_sel[1]) and d[0] == "join":
            continue
        if d == ("const", ""):
            # allowed only under an emptiness guard on the cleaned set
            txt = " ".join(c[1] for c in conds if c[0] in ("if", "ifnot")).replace(" ", "")
            empt = any(c[0] == "if" and c[1].replace(" ", "") in ("notw", "len(w)==0", "w==[]", "w==['']") for c in conds) or \
                any(c[0] == "ifnot" and c[1].replace(" ", "") in ("w", "len(w)>0") for c in conds)
            if empt:
                continue
        ok = False
        rep.violation("R3", "system.System.rail_rep", "%s:%d" % (rel, line), "the Warnings cell receives %s under %s: not the union of the warnings of the components on the rail" % (
            show(d), [c[1] for c in conds if c[0] in ("if", "ifnot")][-1:] or "no condition"), "warnings cell " + show(d))
    rep.instance("R3", "system.System.rail_rep warnings union", where, ok, "%d append site(s)" % len(apps))
    # ---- R4 a cell is skipped, never the rest of the loop
    for conds, dsc, ln in rd.breaks:
        rep.violation("R4", "system.System.rail_rep", "%s:%d" % (rel, ln),
                      "the (phase, rail) loop is left with `break` when %s: every later rail of that phase is dropped from the report" % (dsc[1] if isinstance(dsc, tuple) and len(dsc) > 1 else dsc,),
                      "break in the cell loop")
    # ---- R4 emptiness skip
    first_line = min([a[2] for h in want for a in rd.appends.get(headers[h][1], []) if a[1][0] == "sel" and a[1][3] == "first"] or [0])
    skip = [s for s in rd.skips if s[2] < first_line and (".any()" in s[1][1] or "len(" in s[1][1] or ".empty" in s[1][1])]
    ok = bool(skip) or first_line == 0
    if not ok:
        rep.violation("R4", "system.System.rail_rep", "%s:%d" % (rel, first_line), "the first element of a (rail, phase) selection is taken without skipping empty selections: a rail that feeds nothing in one phase raises IndexError", "no emptiness skip")
    rep.instance("R4", "system.System.rail_rep skips empty (rail, phase) cells", "%s:%d" % (rel, first_line or fn.lineno), ok)
    rep.sample({"cells": {h: show(rd.appends[headers[h][1]][0][1]) for h in want if rd.appends.get(headers[h][1])}, "warnings": [show(a[1]) for a in apps]})
