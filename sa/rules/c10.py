"""C10 - tabulated parameters: exact on the grid, linear between, clamped outside (DESIGN.md section 4, C10).
The numeric behaviour of np.interp and LinearNDInterpolator is a trusted library contract; what is decided is
everything the repository adds around them."""
import ast
import itertools
from ..core import KINDS, AnalysisError
from ..ctors import ctor_paths, flatten_idiom
from ..terms import RF, lift, Unsupported
from ..guards import Ctx, A, And, Not, Or, atoms_of, ev, literals, show_f
from ..summ import Summarizer, State, Sym, ListV, vkey, show_value, to_num, fr, DONTCARE
from .c01 import r2 as interp_arguments_rule

EXPLANATION = (
    "(R1) the 1-D interpolator is np.interp(|x|, X, F) on the magnitudes of the constructor's first / second argument with "
    "no left / right / period argument (edge-clamped, argument sign ignored, second coordinate unused); (R2) the 2-D "
    "interpolator returns the interpolant when it is not NaN and otherwise queries it at (clamp(x, xmin, xmax), clamp(y, "
    "ymin, ymax)) on each of the eight outside regions (truth table over the four comparison atoms), its bounds being "
    "min / max of the stored magnitude axes, and it is built from its own arrays only (no state shared between "
    "instances); (R3) the seven table-flattening blocks are clones of one idiom - rows in the order given, io fastest, vi "
    "slowest, row-major flatten of the value table of the key that was validated - the constructor order (cur, volt, z) "
    "matches _Interp2d(x, y, fxy), a one-row table goes to the 1-D interpolator with (io, row 0); (R4) every interpolator "
    "construction is preceded on its path by _check_interp of the same table and key, and _check_interp rejects missing "
    "keys, a non-increasing io axis and mismatched shapes; (R5) every lookup inside a law passes (|io|, |vi|). Not decided: "
    "exactness on the grid, linearity, range of the cell, absence of NaN inside the hull, constant-table == constant - "
    "properties of Delaunay interpolation on the given grid.")


def run(model, rep, tier):
    rep.explanation = EXPLANATION
    A_ = rep.attempt
    A_(r1, model, rep)
    A_(r2, model, rep)
    A_(r3_r4, model, rep)
    A_(check_interp_rule, model, rep)
    A_(interp_arguments_rule, model, rep)


def is_name_(n, name):
    return name is not None and isinstance(n, ast.Name) and n.id == name


def r1(model, rep):
    rel = model.rel("components")
    init = model.own_method("_Interp1d", "__init__")
    itp = model.own_method("_Interp1d", "_interp")
    ps = [a.arg for a in init.args.args][1:]
    qs = [a.arg for a in itp.args.args][1:]
    ok = True
    st = {ast.unparse(x.targets[0]): ast.unparse(x.value) for x in ast.walk(init) if isinstance(x, ast.Assign)}
    for attr, p in (("self._x", ps[0]), ("self._fx", ps[1])):
        if st.get(attr) not in ("np.abs(np.asarray(%s))" % p, "np.abs(%s)" % p, "np.abs(np.array(%s))" % p):
            ok = False
            rep.violation("R1", "components._Interp1d.__init__", "%s:%d" % (rel, init.lineno), "%s = %s: not the magnitudes of argument '%s'" % (attr, st.get(attr), p), "interp1d init " + attr)
    rets = [x for x in ast.walk(itp) if isinstance(x, ast.Return)]
    good = False
    if len(rets) == 1 and isinstance(rets[0].value, ast.Call) and ast.unparse(rets[0].value.func) == "np.interp":
        c = rets[0].value
        a = [ast.unparse(x) for x in c.args]
        good = not c.keywords and a in (["np.abs(%s)" % qs[0], "self._x", "self._fx"], ["abs(%s)" % qs[0], "self._x", "self._fx"])
    if not good:
        ok = False
        rep.violation("R1", "components._Interp1d._interp", "%s:%d" % (rel, itp.lineno), "the 1-D lookup is `%s`, expected np.interp(|x|, axis, values) without left/right/period" % (ast.unparse(rets[0].value) if rets else "?"), "interp1d lookup")
    rep.instance("R1", "components._Interp1d", "%s:%d" % (rel, init.lineno), ok)
    # np.interp needs a rising abscissa.  The class takes magnitudes of the axis, so "rising" must hold for the magnitudes: either the
    # validator tests the magnitudes, or the class puts axis and values into rising order itself (one permutation for both).
    ok = False
    chk = model.func("components", "_check_interp") if hasattr(model, "func") else None
    if chk is None:
        chk = next((n for n in model.tree["components"].body if isinstance(n, ast.FunctionDef) and n.name == "_check_interp"), None)
    if chk is None:
        raise AnalysisError("_check_interp not found")
    for c in ast.walk(chk):
        if isinstance(c, ast.Call) and ast.unparse(c.func) in ("np.diff", "numpy.diff") and c.args:
            a = c.args[0]
            if isinstance(a, ast.Call) and ast.unparse(a.func) in ("np.abs", "abs", "np.absolute", "np.fabs") and "'io'" in ast.unparse(a):
                ok = True
    srt = [n for n in ast.walk(init) if isinstance(n, ast.Call) and ast.unparse(n.func) in ("np.argsort", "numpy.argsort")]
    mentions_sort = any("sort" in ast.unparse(n.func) for n in ast.walk(init) if isinstance(n, ast.Call))
    if not ok and srt:
        perm = None
        for x in init.body:
            if isinstance(x, ast.Assign) and x.value in srt and isinstance(x.targets[0], ast.Name) and ast.unparse(x.value.args[0]) == "self._x" and not x.value.keywords:
                perm = x.targets[0].id
        taken = {}
        for x in init.body:
            if isinstance(x, ast.Assign):
                tg, vl = x.targets[0], x.value
                pairs = list(zip(tg.elts, vl.elts)) if isinstance(tg, ast.Tuple) and isinstance(vl, ast.Tuple) and len(tg.elts) == len(vl.elts) else [(tg, vl)]
                for t, v in pairs:
                    if isinstance(v, ast.Subscript) and is_name_(v.slice, perm) and ast.unparse(t) == ast.unparse(v.value):
                        taken[ast.unparse(t)] = True
        wrong = [x for x in init.body if isinstance(x, ast.Assign) and x.value in srt and isinstance(x.targets[0], ast.Name) and not x.value.keywords
                 and x.value.args and ast.unparse(x.value.args[0]) != "self._x"]
        if perm and taken.get("self._x") and taken.get("self._fx"):
            ok = True
        elif wrong and not perm:
            rep.violation("R1", "components._Interp1d.__init__", "%s:%d" % (rel, wrong[0].lineno),
                          "axis and values are put into the order of `%s`, not into rising order of the axis magnitudes: np.interp then looks the values up on an axis that is not rising" % ast.unparse(wrong[0].value),
                          "interp1d permutation not from the axis")
            rep.instance("R1", "components._Interp1d abscissa rises by magnitude", "%s:%d" % (rel, init.lineno), False)
            return
        else:
            raise AnalysisError("_Interp1d.__init__ sorts something, but not axis and values by one permutation of the axis magnitudes: not readable")
    elif not ok and mentions_sort:
        raise AnalysisError("_Interp1d.__init__ sorts in a way the rule does not read")
    if not ok:
        rep.violation("R1", "components._Interp1d.__init__", "%s:%d" % (rel, init.lineno),
                      "np.interp is given the magnitudes of the io axis, but rising order is only checked on the signed values and the class does not sort: "
                      "an axis written with negative signs (-0.9, -0.5, -0.1) passes the check and is falling by magnitude, so the lookup does not return the tabulated values",
                      "interp1d abscissa not rising by magnitude")
    rep.instance("R1", "components._Interp1d abscissa rises by magnitude", "%s:%d" % (rel, init.lineno), ok)


class I2Hooks:
    model = None

    def name(self, id):
        return DONTCARE if id == "DONTCARE" else None

    def inline(self, fname):
        """other methods of the interpolator class that the lookup delegates to"""
        if self.model is not None and fname.startswith("self.") and fname[5:].isidentifier() and fname[5:] not in ("_intp", "_interp"):
            m = self.model.own_method("_Interp2d", fname[5:])
            if m is not None and not any(isinstance(x, (ast.For, ast.While)) for x in ast.walk(m)):
                return m, True
        return None

    def attr(self, base, attr):
        return None

    def call(self, sm, node, fname, args, kwargs, st):
        if fname == "self._intp" and len(args) == 2 and all(isinstance(a, ListV) and len(a.items) == 1 for a in args):
            return Sym(("INTP", vkey(args[0].items[0]), vkey(args[1].items[0])))
        if fname in ("np.isnan", "math.isnan") and len(args) == 1:
            from ..summ import BoolV
            return BoolV(A(("ISNAN", vkey(args[0]))))
        return None

    def subscript(self, base, idx):
        if isinstance(base, Sym) and base.key[0] == "INTP" and isinstance(idx, RF) and idx.const_value() == 0:
            return base
        return None


REF_INTERP2D = '''
def ref(self, x, y):
    f = self._intp([x], [y])[0]
    if not np.isnan(f):
        return f
    if not (x < self._xmin or x > self._xmax or y < self._ymin or y > self._ymax):
        return DONTCARE
    if x < self._xmin:
        cx = self._xmin
    elif x > self._xmax:
        cx = self._xmax
    else:
        cx = x
    if y < self._ymin:
        cy = self._ymin
    elif y > self._ymax:
        cy = self._ymax
    else:
        cy = y
    return self._intp([cx], [cy])[0]
'''


def r2(model, rep):
    rel = model.rel("components")
    init = model.own_method("_Interp2d", "__init__")
    itp = model.own_method("_Interp2d", "_interp")
    ps = [a.arg for a in init.args.args][1:]
    ok = True
    st = {}
    for x in ast.walk(init):
        if isinstance(x, ast.Assign):
            t = ast.unparse(x.targets[0])
            if not t.startswith("self."):
                ok = False
                rep.violation("R2", "components._Interp2d.__init__", "%s:%d" % (rel, x.lineno), "the 2-D interpolator writes %s: state outside the instance is shared between tables" % t, "interp2d shared state " + t)
            st[t] = ast.unparse(x.value)
    if any(isinstance(x, (ast.If, ast.Try, ast.For, ast.While)) for x in ast.walk(init)):
        ok = False
        rep.violation("R2", "components._Interp2d.__init__", "%s:%d" % (rel, init.lineno), "the 2-D interpolator is not built unconditionally from its own arrays", "interp2d conditional build")
    want = {"self._x": ["np.abs(%s)" % ps[0]], "self._y": ["np.abs(%s)" % ps[1]], "self._fxy": ["np.abs(%s)" % ps[2]],
            "self._xmin": ["min(self._x)", "np.min(self._x)", "self._x.min()"], "self._xmax": ["max(self._x)", "np.max(self._x)", "self._x.max()"],
            "self._ymin": ["min(self._y)", "np.min(self._y)", "self._y.min()"], "self._ymax": ["max(self._y)", "np.max(self._y)", "self._y.max()"],
            "self._intp": ["LinearNDInterpolator(list(zip(self._x, self._y)), self._fxy)"]}
    cls_attrs = {x.attr for x in ast.walk(model.cls("_Interp2d")) if isinstance(x, ast.Attribute)}
    for k, alts in want.items():
        if k not in st and k[5:] not in cls_attrs:
            # the anchor is gone (the table's extent is kept some other way): nothing here says how
            raise AnalysisError("_Interp2d no longer keeps %s: the way the table's extent is stored is not readable" % k)
        if st.get(k) not in alts:
            ok = False
            rep.violation("R2", "components._Interp2d.__init__", "%s:%d" % (rel, init.lineno), "%s = %s, expected %s" % (k, st.get(k), alts[0]), "interp2d init " + k)
    rep.instance("R2", "components._Interp2d.__init__", "%s:%d" % (rel, init.lineno), ok)
    # clamp table
    hk = I2Hooks()
    hk.model = model
    sm = Summarizer(hk, Ctx())
    qs = [a.arg for a in itp.args.args][1:]
    env = {"self": Sym(("name", "self")), qs[0]: fr("x"), qs[1]: fr("y")}
    try:
        code = sm.summarize(itp, env)
        ref_fn = ast.parse(REF_INTERP2D).body[0]
        spec = Summarizer(I2Hooks(), Ctx()).summarize(ref_fn, {"self": Sym(("name", "self")), "x": fr("x"), "y": fr("y")})
    except Unsupported as e:
        raise AnalysisError("_Interp2d._interp: %s" % e)
    atoms = set()
    for lf in code + spec:
        for g in lf.guards:
            atoms_of(g, atoms)
    atoms = sorted(atoms, key=repr)
    if len(atoms) > 12:
        raise AnalysisError("_Interp2d._interp: too many guard atoms")
    ok = True
    rows = 0
    for bits in itertools.product((False, True), repeat=len(atoms)):
        al = dict(zip(atoms, bits))
        c = [lf for lf in code if ev(lf.cond(), al) is True]
        s = [lf for lf in spec if ev(lf.cond(), al) is True]
        if len(c) != 1 or len(s) != 1:
            raise AnalysisError("_Interp2d._interp: decision tree is not a partition")
        # x < xmin and x > xmax cannot both hold (xmin <= xmax); same for y
        lo = [k for k, v in al.items() if v and k[0] == "POS"]
        infeasible = False
        for k in lo:
            for k2 in lo:
                if k is not k2 and (k[1] + k2[1]).atoms() <= {a for a in (k[1] + k2[1]).atoms() if "min" in repr(a) or "max" in repr(a)} and not (k[1] + k2[1]).is_zero() and len((k[1] + k2[1]).atoms()) == 2 \
                        and not any(a[0] == "fr" and a[1] in ("x", "y") for a in (k[1] + k2[1]).atoms()):
                    infeasible = True
        if infeasible:
            continue
        rows += 1
        if s[0].value is DONTCARE:
            continue
        if c[0].kind != s[0].kind or vkey(c[0].value) != vkey(s[0].value):
            ok = False
            from ..laws import show_alpha
            rep.violation("R2", "components._Interp2d._interp", "%s:%d" % (rel, itp.lineno), "outside the table the lookup returns %s, expected %s on {%s}" % (
                show_value(c[0].value), show_value(s[0].value), show_alpha(al)), "clamp %s vs %s" % (show_value(c[0].value), show_value(s[0].value)))
    rep.instance("R2", "components._Interp2d._interp clamp table", "%s:%d" % (rel, itp.lineno), ok, "%d rows" % rows)


def r3_r4(model, rep):
    rel = model.rel("components")
    n_blocks = 0
    blocks = []
    for kind in KINDS:
        owner, fn, leaves = ctor_paths(model, kind)
        if owner != kind:
            continue
        for lf in leaves:
            if lf.kind == "raise":
                continue
            evs = lf.events
            for i, e in enumerate(evs):
                if e[0] != "interp" or e[1] == "_Interp0d":
                    continue
                chk = [c for c in evs[:i] if c[0] == "check" and c[1] == "_check_interp"]
                flat = [c for c in evs[:i] if c[0] == "flatten"]
                blocks.append((kind, fn, lf, e, chk, flat))
    seen = set()
    for kind, fn, lf, e, chk, flat in blocks:
        key = (kind, e[3])
        if key in seen:
            continue
        seen.add(key)
        construct = "components.%s.__init__" % kind
        where = "%s:%d" % (rel, e[3])
        ok = True
        if not chk:
            ok = False
            rep.violation("R4", construct, where, "an interpolator is built from a table that did not pass _check_interp on this path", "unchecked table")
            rep.instance("R3/R4", construct + " table block", where, False)
            continue
        ctab, ckey = chk[-1][2][0], chk[-1][2][1]
        troot = [a[1] for a in ctab.atoms() if a[0] in ("s", "m")][0] if isinstance(ctab, RF) else show_value(ctab)
        if e[1] == "_Interp1d":
            want = (Sym(("sub", Sym(("name", troot)), "io")), Sym(("sub", Sym(("sub", Sym(("name", troot)), ckey)), lift(0))))
            got = tuple(e[2])
            if len(got) != 2 or vkey(got[0]) != vkey(want[0]) or vkey(got[1]) != vkey(want[1]):
                ok = False
                rep.violation("R3", construct, where, "a one-row table is interpolated over (%s), expected (T['io'], T['%s'][0]) of the validated table" % (", ".join(show_value(x) for x in got), ckey), "1-D block args")
            if one_row(lf, troot) is not True:
                ok = False
                rep.violation("R3", construct, where, "the 1-D interpolator is not selected exactly for a one-row table (len(T['vi']) == 1)", "1-D selection")
        else:
            n_blocks += 1
            if one_row(lf, troot) is not False:
                ok = False
                rep.violation("R3", construct, where, "the 2-D interpolator is not selected exactly for tables with more than one row", "2-D selection")
            if not flat:
                ok = False
                rep.violation("R3", construct, where, "the 2-D interpolator is not fed by the table flattening idiom", "no flatten")
            else:
                info = flat[-1][1]
                if "deviant" in info:
                    ok = False
                    rep.violation("R3", construct, "%s:%d" % (rel, flat[-1][2]), "the table flattening deviates from its six sibling blocks: %s" % info["deviant"], "flatten deviant: " + info["deviant"][:60])
                else:
                    names = [x.key[1] if isinstance(x, Sym) and x.key[0] == "flat" else None for x in e[2]]
                    if info["z"] is None and len(e[2]) == 3:
                        # values flattened outside the loop: np.asarray(T['k']).reshape(1, -1)[0].tolist() and its two other spellings
                        import re as _re
                        txt = show_value(e[2][2]).replace(" ", "").replace('"', "'")
                        m_ = _re.fullmatch(r"np\.asarray\((\w+)\['([a-z]+)'\]\)\.reshape\(1,-1\)\[0\]\.tolist\(\)", txt) or \
                            _re.fullmatch(r"np\.asarray\((\w+)\['([a-z]+)'\]\)\.flatten\(\)\.tolist\(\)", txt) or _re.fullmatch(r"np\.ravel\((\w+)\['([a-z]+)'\]\)\.tolist\(\)", txt)
                        if m_:
                            info = dict(info)
                            info["z"], info["zkey"] = "<values>", m_.group(2)
                            names[2] = "<values>"
                    if names != [info["cur"], info["volt"], info["z"]]:
                        ok = False
                        rep.violation("R3", construct, where, "_Interp2d is called with (%s), expected (currents, voltages, values) = (%s, %s, %s)" % (", ".join(str(x) for x in names), info["cur"], info["volt"], info["z"]), "2-D block args")
                    if info["zkey"] != ckey:
                        ok = False
                        rep.violation("R3", construct, where, "the values flattened are T['%s'] but the table was validated for '%s'" % (info["zkey"], ckey), "flatten key")
                    alias_ok = info["table"] == troot or troot in table_aliases(fn, info["table"])
                    if not alias_ok:
                        ok = False
                        rep.violation("R3", construct, where, "the table flattened (%s) is not the table validated (%s)" % (info["table"], troot), "flatten table")
        rep.instance("R3/R4", construct + " table block (%s)" % e[1], where, ok)
    rep.floor("R3", n_blocks, 7)
    # every accepting path of a kind with tables builds exactly one interpolator and keeps it
    for kind in ("VLoss", "Converter", "LinReg", "PSwitch", "PMux", "Rectifier"):
        owner, fn, leaves = ctor_paths(model, kind)
        ok = True
        for lf in leaves:
            if lf.kind == "raise":
                continue
            built = [e for e in lf.events if e[0] == "interp"]
            kept = [e for e in lf.events if e[0] == "store" and e[1][0] == "attr" and e[1][2] == "_ipr" and isinstance(e[2], Sym) and e[2].key[0] == "interp"]
            if len(built) != 1 or len(kept) != 1:
                ok = False
                rep.violation("R3", "components.%s.__init__" % kind, "%s:%d" % (rel, fn.lineno), "an accepting path builds %d and keeps %d interpolator(s), expected exactly one" % (len(built), len(kept)), "interpolators per path %d/%d" % (len(built), len(kept)))
                break
        rep.instance("R3", "components.%s.__init__ one interpolator per accepting path" % kind, "%s:%d" % (rel, fn.lineno), ok)


def one_row(lf, troot):
    """truth value, on this path, of len(T['vi']) == 1 (None if the path does not decide it)"""
    lits = {}
    for g in lf.guards:
        literals(g, True, lits)
    want = RF.atom(("nn", Sym(("len", Sym(("sub", Sym(("name", troot)), "vi")))))) - 1
    from ..guards import norm_pm
    key = ("ZP", norm_pm(want))
    return lits.get(key)


def table_aliases(fn, name):
    out = set()
    for x in ast.walk(fn):
        if isinstance(x, ast.Assign) and isinstance(x.targets[0], ast.Name) and x.targets[0].id == name and isinstance(x.value, ast.Name):
            out.add(x.value.id)
    return out


def check_interp_rule(model, rep):
    from .c11 import helpers
    helpers(model, rep)
