"""C02 - energy conservation, loss / efficiency / temperature accounting (DESIGN.md section 4, C02)."""
import ast
from ..core import KINDS, AnalysisError
from ..laws import (check_against_spec, summarize_law, METH, LOADS, rows, LawHooks, base_ctx, law_args, show_alpha, subst_value)
from ..terms import RF, lift, abs_, show, Unsupported
from ..guards import Ctx, And, atoms_of, ev, literals, consistent, facts_from, f_pos
from ..summ import Summarizer, Sym, nn, fr, signed, show_value, to_num, vkey
from .. import sysrules

EXPLANATION = (
    "Static decision of the accounting identities of C02 as algebra between sibling summaries: (R0) every _solv_pwr_loss "
    "summary equals the reference on every guard row; (R1) substituting the kind's own input-current and output-voltage "
    "summaries into its power/loss summary gives Power - Loss == |Vout|*Iout as a rational-function identity on every "
    "consistent joint guard row (the test-suite only ever calls the loss routine with mutually inconsistent numbers); "
    "(R2) Loss is a non-negative combination under the sign lemmas; (R3) the efficiency element is "
    "EFF(Power, Power-Loss) of the same two terms and _get_eff is 100*|o/p| for p>0; (R5) tr == rt*Loss (loads: "
    "rt*consumption) and tp == ta + tr on every row incl. the dead ones; (R6) solve() hands the power routine exactly "
    "(Vin, Vout, Iin, Iout, ta, phase, own phase table). System balance follows from R1, R4(loads), C01-R5/R6, C07-R3 and is "
    "not separately decided. Not decided: residual of the identities at a tolerance-converged iterate.")

NONLOAD = [k for k in KINDS if k not in LOADS]


class ConsHooks(LawHooks):
    """conservation mode: the mux's selected input is input 0 (dead rows are C04's business)"""

    def call(self, sm, node, fname, args, kwargs, st):
        if fname == "self._get_pri_inp":
            return lift(0)
        return super().call(sm, node, fname, args, kwargs, st)


def summarize(model, kind, which, args_override=None, guards=()):
    hooks = ConsHooks(model, kind)
    ctx = base_ctx(kind, False)
    if kind == "PMux":
        ctx.known[("B", "OFF", 0)] = False  # the selected input is live by definition of the selection (C05-R1)
    sm = Summarizer(hooks, ctx)
    owner, fn = model.method(kind, METH[which])
    args = law_args(which, False)
    if args_override:
        args.update(args_override)
    try:
        return fn, sm.summarize(fn, args, guards=guards), ctx
    except Unsupported as e:
        raise AnalysisError("%s.%s: %s" % (kind, METH[which], e))


def joint_rows(leaf, ctx):
    conj = And(*leaf.guards)
    lits = {}
    for g in leaf.guards:
        literals(g, True, lits)
    free = sorted(atoms_of(conj) - set(lits), key=repr)
    import itertools
    for bits in itertools.product((False, True), repeat=len(free)):
        alpha = dict(lits)
        alpha.update(zip(free, bits))
        if ev(conj, alpha) is True and consistent(alpha, ctx):
            mp, rctx = facts_from(alpha, ctx)
            rctx.__class__ = ctx.__class__
            rctx.kind = getattr(ctx, "kind", None)
            yield alpha, mp, rctx


def relax(term, rctx):
    """lower bound of a loss term: MIN/MAX atoms in negative monomials are replaced by an upper bound"""
    t = term
    for a in list(t.atoms()):
        if a[0] == "MIN":
            for cand in a[1]:
                yield from relax(t.subst({a: cand}), rctx)
        if a[0] == "MAX" and len(a[1]) == 2:
            # MAX(x - d, 0) <= x for d >= 0, x >= 0
            for x in a[1]:
                if not x.is_const():
                    pos = RF({m: c for m, c in x.num.items() if c > 0})
                    if x.is_poly() and pos.is_nonneg() and (pos - x).is_nonneg():
                        yield from relax(t.subst({a: pos}), rctx)
    yield t


def nonneg(term, rctx):
    for t in relax(term, rctx):
        try:
            if abs_(t, rctx) == t:
                return True
        except Unsupported:
            pass
    return False


def run(model, rep, tier):
    rep.explanation = EXPLANATION
    A = rep.attempt
    A(lambda: rep.floor("R0", check_against_spec(model, rep, "R0", KINDS, "P"), 22))
    A(r1_r2, model, rep)
    A(r3, model, rep)
    A(r5, model, rep)
    A(sysrules.c02_call_agreement, model, rep)


def r1_r2(model, rep):
    n = 0
    rel = model.rel("components")
    for kind in NONLOAD:
        fv, vleaves, ctx = summarize(model, kind, "V")
        fi, ileaves, _ = summarize(model, kind, "I")
        fnp = model.method(kind, METH["P"])[1]
        construct = "components.%s.%s" % (kind, METH["P"])
        where = "%s:%d" % (rel, fnp.lineno)
        bad1, bad2, nrows = {}, {}, 0
        for vl in vleaves:
            if vl.kind != "return":
                continue
            vout = vl.value[0] if isinstance(vl.value, tuple) else None
            if vout is None:
                raise AnalysisError("%s output-voltage law does not return (voltage, state)" % kind)
            for il in ileaves:
                if il.kind != "return":
                    continue
                _, pleaves, _ = summarize(model, kind, "P", {"vo": to_num(vout), "ii": to_num(il.value)}, guards=vl.guards + il.guards)
                for pl in pleaves:
                    if pl.kind != "return" or not isinstance(pl.value, tuple) or len(pl.value) != 5:
                        raise AnalysisError("%s power law does not return a 5-tuple" % kind)
                    for alpha, mp, rctx in joint_rows(pl, ctx):
                        if alpha.get(("Z", ("m", "P.vo"))) and kind in ("Converter", "LinReg"):
                            continue  # regulated output of 0 V is outside the quantifier
                        nrows += 1
                        power = to_num(pl.value[0]).subst(mp, rctx)
                        loss = to_num(pl.value[1]).subst(mp, rctx)
                        vo = to_num(vout).subst(mp, rctx)
                        io = nn("io").subst(mp, rctx)
                        handed_on = abs_(vo, rctx) * io
                        if not (power - loss == handed_on):
                            key = "Power-Loss = %s but |Vout|*Iout = %s" % (show(to_num(pl.value[0]) - to_num(pl.value[1])), show(abs_(to_num(vout), ctx) * nn("io")))
                            bad1.setdefault(key, (alpha, power - loss, handed_on))
                        if not nonneg(loss, rctx):
                            bad2.setdefault("Loss = %s" % show(to_num(pl.value[1])), (alpha, loss))
        for key, (alpha, a, b) in bad1.items():
            rep.violation("R1", construct, where, "energy not conserved: Power-Loss = %s but |Vout|*Iout = %s on guard row {%s}" % (show(a), show(b), show_alpha(alpha)), key)
        for key, (alpha, a) in bad2.items():
            rep.violation("R2", construct, where, "Loss = %s is not a non-negative combination on guard row {%s}" % (show(a), show_alpha(alpha)), key)
        rep.instance("R1", construct + " conservation", where, not bad1, "%d joint rows" % nrows)
        rep.instance("R2", construct + " 0 <= Loss", where, not bad2, "%d joint rows" % nrows)
        rep.count("joint_rows", nrows)
        if nrows == 0:
            raise AnalysisError("%s: no joint guard row for conservation" % kind)
        n += 1
    rep.floor("R1", n, 8)


def r3(model, rep):
    """efficiency element and _get_eff"""
    rel = model.rel("components")
    fn = model.func("components", "_get_eff")
    sm = Summarizer(LawHooks(model, None), Ctx())
    p, o, d = fr("p"), fr("o"), fr("d")
    leaves = sm.summarize(fn, {fn.args.args[0].arg: p, fn.args.args[1].arg: o, fn.args.args[2].arg: d})
    ok = True
    from ..guards import f_pos as _fpos
    want_guard = _fpos(p, Ctx())
    for alpha, lf, mp, rctx in rows(leaves, Ctx(), extra_atoms=list(atoms_of(want_guard))):
        pos = ev(want_guard, alpha)
        want = lift(100) * abs_(o / p, rctx) if pos else d
        if lf.kind != "return" or not (to_num(lf.value) == want):
            ok = False
            rep.violation("R3", "components._get_eff", "%s:%d" % (rel, fn.lineno),
                          "efficiency is %s, expected %s when ipwr%s0 (row {%s})" % (show_value(lf.value), show(want), ">" if pos else "<=", show_alpha(alpha)), "eff " + str(pos))
    rep.instance("R3", "components._get_eff", "%s:%d" % (rel, fn.lineno), ok)
    n = 0
    for kind in KINDS:
        owner, fnp, leaves, ctx = summarize_law(model, kind, "P", False)
        construct = "components.%s.%s" % (kind, METH["P"])
        where = "%s:%d" % (rel, fnp.lineno)
        ok = True
        for lf in leaves:
            if lf.kind != "return":
                continue
            pw, ls, ef = to_num(lf.value[0]), to_num(lf.value[1]), lf.value[2]
            good = False
            if isinstance(ef, RF) and ef.is_const():
                good = pw.is_zero() or (ef.const_value() == 100 and ls.is_zero())
            elif isinstance(ef, RF):
                st = ef.single_term()
                if st and st[0] == 1 and len(st[1]) == 1:
                    (a, e), = st[1]
                    if a[0] == "F" and a[1] == "EFF":
                        good = (a[2][0] == pw) and (a[2][1] == pw - ls)
            if not good:
                ok = False
                rep.violation("R3", construct, "%s:%d" % (rel, lf.line), "efficiency element %s is not EFF(Power, Power-Loss) of (%s, %s)" % (show_value(ef), show(pw), show(ls)),
                              "eff %s of (%s, %s)" % (show_value(ef), show(pw), show(ls)))
        rep.instance("R3", construct + " efficiency element", where, ok, "%d leaves" % len(leaves))
        n += 1
    rep.floor("R3", n, 11)


def r5(model, rep):
    """temperature: tr == rt*Loss (loads: rt*consumption), tp == ta + tr, on every row"""
    rel = model.rel("components")
    n = 0
    for kind in KINDS:
        if kind == "Source":
            continue
        for zero in (False, True):
            owner, fnp, leaves, ctx = summarize_law(model, kind, "P", zero)
            construct = "components.%s.%s" % (kind, METH["P"])
            ok = True
            for lf in leaves:
                if lf.kind != "return":
                    continue
                pw, ls, tr, tp = (to_num(lf.value[i]) for i in (0, 1, 3, 4))
                heat = (pw + ls) if kind in LOADS else ls
                if not (tr == nn("P.rt") * heat):
                    ok = False
                    rep.violation("R5", construct, "%s:%d" % (rel, lf.line), "temperature rise %s is not rt*%s" % (show(tr), show(heat)), "tr %s vs %s" % (show(tr), show(heat)))
                if not (tp == fr("ta") + tr):
                    ok = False
                    rep.violation("R5", construct, "%s:%d" % (rel, lf.line), "peak temperature %s is not ta + rise (%s)" % (show(tp), show(tr)), "tp %s vs tr %s" % (show(tp), show(tr)))
            rep.instance("R5", construct + (" [vi=0]" if zero else " [vi!=0]") + " temperature", "%s:%d" % (rel, fnp.lineno), ok, "%d leaves" % len(leaves))
            n += 1
    rep.floor("R5", n, 20)
