"""C03 - solve() returns only converged, physical steady states, else raises (DESIGN.md section 4, C03).
Only the structural minority of the statement is decided; see EXPLANATION."""
import ast
from ..core import AnalysisError
from ..laws import summarize_law, METH, rows, show_alpha
from ..terms import RF, lift, abs_, show
from ..guards import Ctx, f_cmp, f_pos, Not, ev
from ..summ import Sym, fr, nn, show_value, to_num
from .. import sysrules
from .c02 import nonneg

EXPLANATION = (
    "Structural clauses only: (R1) the solver's exit is guarded by exactly the conjunction of two allclose tests, one "
    "between the carried voltage vector and this sweep's forward result under rtol=vtol, one between the carried current "
    "vector and this sweep's backward result under rtol=itol, both with a zero absolute tolerance (atol=0) and no other keyword, no re-binding of the "
    "operands before the test, the sweep counter incremented once per sweep and the carried triple replaced afterwards; "
    "(R2) the loop is bounded by maxiter and the solver call in solve() is followed, before any use of its results, by a "
    "RuntimeError raised under exactly the negation of the loop condition; (R3) every output-voltage leaf of the passive "
    "series laws (Source, RLoss, VLoss, PSwitch, PMux, Rectifier) that reports an active output establishes by its guards "
    "that the output keeps the input's polarity and does not exceed its magnitude, and the complementary rows raise "
    "ValueError (sibling rule: three siblings had the guard before repair e941987, four did not); (R4) an unknown phase "
    "raises ValueError before any solve. NOT decided - and this is most of the statement: that the returned iterate is "
    "within tolerance of a true fixed point, finiteness, that a benign steady state is found when one exists, the "
    "iteration count. These quantify over the trajectory of a floating-point iteration.")

PASSIVE = {"Source": ("s", "P.vo"), "RLoss": ("s", "vi[0]"), "VLoss": ("s", "vi[0]"), "PSwitch": ("s", "vi[0]"),
           "PMux": ("s", "vi[PRI]"), "Rectifier": None}


def run(model, rep, tier):
    rep.explanation = EXPLANATION
    A = rep.attempt
    r = sysrules.roles(model)
    A(r1_r2, model, rep, r)
    A(r3, model, rep)
    A(r5_initial_current, model, rep)
    A(lambda: sysrules.phase_list_rule(model, rep, r, sysrules.solve_anchors(model, r), labels=("R4-list", "R4")))


def strip_array(n):
    while isinstance(n, ast.Call) and isinstance(n.func, ast.Attribute) and n.func.attr in ("array", "asarray") and len(n.args) == 1:
        n = n.args[0]
    return n


def r1_r2(model, rep, r):
    rel = model.rel("system")
    an = sysrules.solver_anatomy(model, r)
    fn, loop = an["fn"], an["loop"]
    where = "%s:%d" % (rel, loop.lineno)
    construct = "system.System.%s" % fn.name
    params = [a.arg for a in fn.args.args][1:]
    if len(params) < 3:
        raise AnalysisError("solver has fewer than 3 parameters")
    VTOL, ITOL, MAXIT = params[0], params[1], params[2]

    def viol(rule, msg, key):
        rep.violation(rule, construct, where, msg, key)
    # ---- the break and its guard
    breaks = [n for n in ast.walk(loop) if isinstance(n, ast.Break)]
    ok = True
    if len(breaks) != 1:
        raise AnalysisError("solver loop has %d break statements" % len(breaks))
    guard = None
    for i, s in enumerate(loop.body):
        if isinstance(s, ast.If) and any(b is x for x in ast.walk(s) for b in breaks):
            guard, gidx = s, i
    if guard is None or not any(x is breaks[0] for x in guard.body) or guard.orelse:
        raise AnalysisError("the solver's break is not the unconditional end of a top-level if of the loop body")
    test = guard.test
    calls = test.values if isinstance(test, ast.BoolOp) and isinstance(test.op, ast.And) else None
    good = calls is not None and len(calls) == 2 and all(isinstance(c, ast.Call) and isinstance(c.func, ast.Attribute) and c.func.attr == "allclose" for c in calls)
    if not good:
        viol("R1", "the exit test is not the conjunction of two allclose tests", "exit test shape")
        ok = False
    else:
        seen = {}
        for c in calls:
            ops = [strip_array(a) for a in c.args[:2]]
            kws = {k.arg: k.value for k in c.keywords}
            for nm, a in zip(("rtol", "atol", "equal_nan"), c.args[2:]):     # numpy's positional order
                kws[nm] = a
            if len(ops) != 2 or not all(isinstance(o, ast.Name) for o in ops):
                viol("R1", "an allclose test does not compare two vectors by name", "allclose operands")
                ok = False
                continue
            pair = frozenset(o.id for o in ops)
            if not set(kws) <= {"rtol", "atol"} or not isinstance(kws.get("rtol"), ast.Name):
                viol("R1", "allclose(%s) is called with tolerance keywords %s, expected rtol=<parameter> and atol=0" % (", ".join(sorted(pair)), sorted(kws)), "allclose keywords %s" % sorted(kws))
                ok = False
                continue
            at = kws.get("atol")
            if at is not None:
                at = model.fold_const(at) if hasattr(model, "fold_const") else at
            if not (isinstance(at, ast.Constant) and isinstance(at.value, (int, float)) and not isinstance(at.value, bool) and at.value == 0):
                viol("R1", "allclose(%s) is called %s: a change below that absolute amount counts as no change, so quantities smaller than it "
                     "(nano-amp sleep currents) are returned at their initial value although the requested relative tolerance is not met" % (
                         ", ".join(sorted(pair)), "without atol, i.e. with numpy's default absolute tolerance 1e-8" if at is None else "with atol=%s" % ast.unparse(at)),
                     "allclose absolute tolerance %s" % ("default" if at is None else ast.unparse(at)))
                ok = False
                continue
            seen[pair] = kws["rtol"].id
        want = {frozenset([an["V"], an["VNEW"]]): VTOL, frozenset([an["I"], an["INEW"]]): ITOL}
        if ok and seen != want:
            viol("R1", "the exit test compares %s, expected carried voltages vs this sweep's forward result under %s and carried currents vs this sweep's backward result under %s" % (
                "; ".join("%s under %s" % ("~".join(sorted(k)), v) for k, v in seen.items()), VTOL, ITOL), "exit test operands")
            ok = False
    rep.instance("R1", construct + " exit test", where, ok)
    # ---- backward pass consumes this sweep's forward voltages
    bdef = model.own_method("System", r["BACK"])
    ba = sysrules.call_args(an["bwd"].value, bdef)
    bps = [a.arg for a in bdef.args.args][1:]
    ok = sysrules.is_name(ba.get(bps[0]), an["VNEW"]) and sysrules.is_name(ba.get(bps[1]), an["I"]) and sysrules.is_name(ba.get(bps[3]), an["S"])
    if not ok:
        viol("R1", "the backward pass is not evaluated on this sweep's forward voltages and the carried currents/states", "bwd operands")
    rep.instance("R1", construct + " backward-pass operands", where, ok)
    # ---- no re-binding of operands before the test, carry after the test
    ok = True
    names = {an["V"], an["I"], an["VNEW"], an["INEW"]}
    order = {id(s): i for i, s in enumerate(loop.body)}
    fi, bi = order[id(an["fwd"])], order[id(an["bwd"])]
    if not (fi < bi < gidx):
        viol("R1", "forward pass, backward pass and exit test are not in this order", "sweep order")
        ok = False
    for i, s in enumerate(loop.body[:gidx]):
        if s is an["fwd"] or s is an["bwd"]:
            continue
        for n in ast.walk(s):
            if isinstance(n, ast.Name) and isinstance(n.ctx, ast.Store) and n.id in names:
                viol("R1", "'%s' is re-bound before the convergence test (line %d)" % (n.id, s.lineno), "rebinding " + n.id)
                ok = False
    if len(an["carry"]) != 1 or order.get(id(an["carry"][0]), -1) < gidx:
        viol("R1", "the carried (v, i, state) is not replaced after the convergence test on the non-exit path", "carry position")
        ok = False
    rep.instance("R1", construct + " operands intact until the test", where, ok)
    # ---- counter
    ok = True
    wt = loop.test
    if not (isinstance(wt, ast.Compare) and len(wt.ops) == 1 and isinstance(wt.left, ast.Name) and isinstance(wt.comparators[0], ast.Name)):
        raise AnalysisError("solver loop condition is not a comparison of two names")
    ctr = wt.left.id if wt.comparators[0].id == MAXIT else (wt.comparators[0].id if wt.left.id == MAXIT else None)
    if ctr is None:
        viol("R2", "the loop condition does not bound the sweep counter by %s" % MAXIT, "loop bound")
        ok = False
    else:
        incs = [s for s in ast.walk(loop) if isinstance(s, ast.AugAssign) and isinstance(s.target, ast.Name) and s.target.id == ctr]
        top = [s for s in loop.body if s in incs]
        good = len(incs) == 1 and len(top) == 1 and isinstance(incs[0].op, ast.Add) and isinstance(incs[0].value, ast.Constant) and incs[0].value.value == 1 \
            and order[id(top[0])] < gidx
        other = [n for n in ast.walk(loop) if isinstance(n, ast.Name) and n.id == ctr and isinstance(n.ctx, ast.Store) and not isinstance(getattr(n, "_parent", None), ast.AugAssign)]
        if not good or other:
            viol("R1", "the sweep counter '%s' is not incremented exactly once on every path through the loop body before the exit test" % ctr, "counter increment")
            ok = False
        init0 = [s for s in fn.body if isinstance(s, ast.Assign) and sysrules.is_name(s.targets[0], ctr)]
        if not (len(init0) == 1 and isinstance(init0[0].value, ast.Constant) and init0[0].value.value == 0):
            viol("R1", "the sweep counter does not start at 0", "counter init")
            ok = False
    rep.instance("R1", construct + " sweep counter", where, ok)
    # ---- R2: loop condition and complementary post-check at every call site in solve
    env = {ctr: fr("ITERS"), MAXIT: fr("MAXITER")} if ctr else {}
    ctx = Ctx()

    def formula(cmp_node, env):
        opmap = {ast.Lt: "<", ast.LtE: "<=", ast.Gt: ">", ast.GtE: ">=", ast.Eq: "==", ast.NotEq: "!="}
        if isinstance(cmp_node, ast.UnaryOp) and isinstance(cmp_node.op, ast.Not):
            f = formula(cmp_node.operand, env)
            return None if f is None else Not(f)
        if not (isinstance(cmp_node, ast.Compare) and len(cmp_node.ops) == 1 and type(cmp_node.ops[0]) in opmap):
            return None
        def val(n):
            if isinstance(n, ast.Name) and n.id in env:
                return env[n.id]
            if isinstance(n, ast.Constant) and isinstance(n.value, (int, float)):
                return lift(n.value)
            if isinstance(n, ast.BinOp) and isinstance(n.op, (ast.Add, ast.Sub)):
                x, y = val(n.left), val(n.right)
                if x is not None and y is not None:
                    return x + y if isinstance(n.op, ast.Add) else x - y
            return None
        a, b = val(cmp_node.left), val(cmp_node.comparators[0])
        if a is None or b is None:
            return None
        return f_cmp(opmap[type(cmp_node.ops[0])], a, b, ctx)
    floop = formula(wt, env) if ctr else None
    # returned tuple positions
    rets = an["returns"]
    if len(rets) != 1 or not isinstance(rets[0].value, ast.Tuple) or len(rets[0].value.elts) != 4:
        raise AnalysisError("solver does not return a 4-tuple")
    rnames = [getattr(e, "id", None) for e in rets[0].value.elts]
    ok = rnames == [an["V"], an["I"], ctr, an["S"]]
    if not ok:
        viol("R2", "the solver returns %s, expected (carried voltages, carried currents, sweep counter, states)" % rnames, "solver return")
    rep.instance("R2", construct + " return tuple", where, ok)
    # every call site of the solver in solve(): the very next statement of the same block must be the complementary check
    sfn = model.own_method("System", "solve")
    if sfn is None:
        raise AnalysisError("System.solve not found")
    sites = []
    for blk_owner in ast.walk(sfn):
        for fld in ("body", "orelse", "finalbody"):
            blk = getattr(blk_owner, fld, None)
            if not isinstance(blk, list):
                continue
            for i, st_ in enumerate(blk):
                if isinstance(st_, (ast.Assign, ast.Expr, ast.AnnAssign, ast.Return)):
                    for c in ast.walk(st_):
                        if isinstance(c, ast.Call) and isinstance(c.func, ast.Attribute) and c.func.attr == fn.name and sysrules.is_name(c.func.value, "self"):
                            sites.append((blk, i, st_, c))
    if not sites:
        raise AnalysisError("solve() does not call the solver")
    for blk, i, st_, call in sites:
        where2 = "%s:%d" % (rel, st_.lineno)
        ca = sysrules.call_args(call, fn)
        mx = ca.get(MAXIT)
        # name of the iteration count of THIS call
        it_expr = None
        if isinstance(st_, ast.Assign):
            t = st_.targets[0]
            if isinstance(t, ast.Tuple) and len(t.elts) == 4 and isinstance(t.elts[2], ast.Name):
                it_expr = t.elts[2].id
            elif isinstance(t, (ast.Name, ast.Subscript, ast.Attribute)):
                it_expr = ast.unparse(t) + "[2]"
        ok = False
        msg = "the solver call is not immediately followed by `raise RuntimeError` under the negation of the loop condition, so an unconverged iterate can be used"
        if it_expr is not None and mx is not None and isinstance(mx, ast.Name) and i + 1 < len(blk) and isinstance(blk[i + 1], ast.If):
            chk = blk[i + 1]
            raises = [x for x in chk.body if isinstance(x, ast.Raise)]
            exc = raises[0].exc if raises else None
            ename = exc.func.id if isinstance(exc, ast.Call) and isinstance(exc.func, ast.Name) else (exc.id if isinstance(exc, ast.Name) else None)
            env2 = {mx.id: fr("MAXITER")}
            test = chk.test
            # normalise `<result>[2]` to a name
            class Ren(ast.NodeTransformer):
                def visit_Subscript(self, n):
                    if ast.unparse(n) == it_expr:
                        return ast.copy_location(ast.Name(id="__iters__", ctx=ast.Load()), n)
                    return self.generic_visit(n)
            import copy as _copy
            test2 = Ren().visit(_copy.deepcopy(test))
            env2["__iters__" if it_expr.endswith("[2]") else it_expr] = fr("ITERS")
            f2 = formula(test2, env2)
            if raises and ename == "RuntimeError" and f2 is not None and floop is not None and not chk.orelse:
                if f2 == Not(floop):
                    ok = True
                else:
                    msg = "post-check `%s` is not the negation of the loop condition `%s`" % (ast.unparse(chk.test), ast.unparse(wt))
            elif raises and ename != "RuntimeError":
                msg = "non-convergence raises %s, not RuntimeError" % ename
        if not ok:
            rep.violation("R2", "system.System.solve", where2, msg, "post-check")
        rep.instance("R2", "system.System.solve non-convergence check after the solver call", where2, ok)
        ok = all(sysrules.is_name(ca.get(p), q) for p, q in ((VTOL, "vtol"), (ITOL, "itol"), (MAXIT, "maxiter")))
        if not ok:
            rep.violation("R2", "system.System.solve", where2, "solve() does not hand its vtol/itol/maxiter to the solver", "tolerance args")
        rep.instance("R2", "system.System.solve tolerance arguments", where2, ok)


def r3(model, rep):
    rel = model.rel("components")
    n = 0
    for kind, sgn in PASSIVE.items():
        owner, fn, leaves, ctx = summarize_law(model, kind, "V", False)
        construct = "components.%s.%s" % (kind, METH["V"])
        where = "%s:%d" % (rel, fn.lineno)
        bad = {}
        nrows = 0
        s_in = RF.atom(sgn) if sgn else RF.const(1)
        a_in = RF.atom(("m", sgn[1])) if sgn else RF.atom(("m", "vi[0]"))
        for alpha, lf, mp, rctx in rows(leaves, ctx):
            if lf.kind != "return":
                continue
            volt, state = lf.value
            if state != Sym(("STATE", "DEF")):
                continue
            nrows += 1
            u = (to_num(volt) * s_in).subst(mp, rctx)
            f = f_pos(u, rctx)
            if ev(f, alpha) is not True:
                bad.setdefault("polarity of %s not established" % show_value(volt), (alpha, u))
                continue
            exc = (a_in.subst(mp, rctx) - u)
            if not nonneg(exc, rctx):
                bad.setdefault("magnitude of %s may exceed the input" % show_value(volt), (alpha, u))
        for key, (alpha, u) in bad.items():
            rep.violation("R3", construct, where, "an active output %s is returned on guard row {%s} where %s" % (show(u), show_alpha(alpha), key), key)
        rep.instance("R3", construct + " polarity / magnitude guard", where, not bad, "%d active rows" % nrows)
        if nrows == 0:
            raise AnalysisError("%s has no active row" % construct)
        n += 1
    rep.floor("R3", n, 6)


# ------------------------------------------------------------------------------------------------ R5
def r5_initial_current(model, rep):
    """The first forward sweep evaluates the series laws with the *initial* currents, and their polarity guards raise
    'Unstable system' on that intermediate iterate.  For a kind whose input-current law depends on nothing the solver computes
    (neither the input voltage nor the output current: the value is known before the first sweep) the initial current must
    therefore be the law's value for the phase being solved: any other seed is a load the system never has, and a seed larger than
    the real current makes solve() raise although a benign steady state exists."""
    from ..laws import summarize_law, rows, select, subst_value, values_equal, show_alpha, is_dead_row, LawHooks, base_ctx, law_args, METH
    from ..summ import Summarizer, show_value
    from ..core import KINDS
    rel = model.rel("components")
    n = 0
    dynamic = {("m", "vi[0]"), ("s", "vi[0]"), ("nn", "io"), ("nn", "ii"), ("m", "vo"), ("s", "vo")}

    def depends_on_solver(v):
        from ..terms import RF
        if isinstance(v, RF):
            for a in v.atoms():
                if a in dynamic or any(d[1] in repr(a) for d in dynamic if isinstance(d[1], str) and d[1] in ("vi[0]", "io")):
                    return True
            return False
        return not isinstance(v, (int, float))
    for kind in KINDS:
        owner, fn, leaves, ctx = summarize_law(model, kind, "I", False)
        live = []
        for alpha, lf, mp, rctx in rows(leaves, ctx):
            if is_dead_row(alpha, kind):
                continue
            live.append((alpha, lf, mp, rctx))
        if not live or any(lf.kind != "return" or depends_on_solver(subst_value(lf.value, mp, rctx)) for alpha, lf, mp, rctx in live):
            continue
        # voltage- and current-independent law: the seed must equal it row by row
        o2, f2 = model.method(kind, "_get_inp_current")
        construct = "components.%s._get_inp_current" % o2
        where = "%s:%d" % (rel, f2.lineno)
        sm = Summarizer(LawHooks(model, kind, False), base_ctx(kind, False))
        args = {k: v for k, v in law_args("I", False).items() if k in ("self", "phase", "phase_conf")}
        pnames = [a.arg for a in f2.args.args]
        if pnames[:3] != ["self", "phase", "phase_conf"]:
            raise AnalysisError("%s: unexpected signature %s" % (construct, pnames))
        seeds = sm.summarize(f2, args)
        ok = True
        for alpha, lf, mp, rctx in live:
            s_lf = select(seeds, alpha)
            if s_lf is None:
                raise AnalysisError("%s: the seed branches on something the law does not" % construct)
            same = s_lf.kind == "return" and values_equal(subst_value(s_lf.value, mp, rctx), subst_value(lf.value, mp, rctx))[0]
            if not same:
                ok = False
                rep.violation("R5", construct, where,
                              "the solver is seeded with %s but the component draws %s on row {%s}: the first sweep evaluates the series elements' "
                              "polarity guards with a current the system never has, so solve() can raise 'Unstable system' although a benign steady state exists" % (
                                  show_value(s_lf.value) if s_lf.kind == "return" else s_lf.kind, show_value(subst_value(lf.value, mp, rctx)), show_alpha(alpha)),
                              "seed differs from law")
                break
        rep.instance("R5", construct + " seeds the solver with the law's current", where, ok, "%d live rows" % len(live))
        n += 1
    rep.floor("R5", n, 1)
