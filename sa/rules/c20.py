"""C20 - PCB trace and plane resistance follow the documented formulas (decided completely, at formula level)."""
import ast
from ..core import AnalysisError
from ..terms import RF, lift, Unsupported, show
from ..guards import Ctx
from ..summ import Summarizer, Sym, fr, to_num, show_value

EXPLANATION = (
    "Both functions of utils.py are straight-line; the summariser gives their exact rational normal forms over the "
    "argument atoms (floats read through their decimal repr as exact Fractions). Each obligation is an identity between "
    "normal forms, discharged by cross-multiplication: equality with the documented formula, homogeneity degrees in "
    "length / resistivity / thickness / width, affinity in temperature, symmetry in w1/w2, agreement of the two functions "
    "for a uniform trace, and the default arguments. Floating-point rounding of the evaluation is the only part of the "
    "statement not covered.")


class Hooks:
    def __init__(self, model):
        self.model = model

    def inline(self, fname):
        f = self.model.funcs.get(("utils", fname))
        if f is not None:
            return f, False
        return None

    def name(self, id):
        if ("utils", id) in self.model.consts:
            try:
                v = self.model.const_value("utils", id)
            except AnalysisError:
                return None
            if isinstance(v, (int, float)) and not isinstance(v, bool):
                return lift(v)
        return None


def purity(model, rep, fn, rel):
    """the result may depend on the arguments only: no global statement, no store through a subscript / attribute"""
    ok = True
    for n in ast.walk(fn):
        bad = None
        if isinstance(n, (ast.Global, ast.Nonlocal)):
            bad = "declares %s" % ", ".join(n.names)
        elif isinstance(n, (ast.Subscript, ast.Attribute)) and isinstance(n.ctx, (ast.Store, ast.Del)):
            bad = "stores into %s" % ast.unparse(n)
        elif isinstance(n, ast.Call) and isinstance(n.func, ast.Attribute) and n.func.attr in ("append", "update", "setdefault", "pop", "clear", "add"):
            bad = "mutates %s" % ast.unparse(n.func.value)
        if bad:
            ok = False
            rep.violation("purity", "utils." + fn.name, "%s:%d" % (rel, n.lineno), "%s %s: the result of a later call can depend on an earlier one" % (fn.name, bad), "impure: " + bad)
    rep.instance("purity", "utils.%s is a function of its arguments only" % fn.name, "%s:%d" % (rel, fn.lineno), ok)
    return ok


def summarize(model, name):
    fn = model.func("utils", name)
    args = {}
    a = fn.args
    if a.args or a.posonlyargs:
        raise AnalysisError("utils.%s takes positional arguments" % name)
    for x in a.kwonlyargs:
        args[x.arg] = fr(x.arg)
    sm = Summarizer(Hooks(model), Ctx())
    try:
        leaves = sm.summarize(fn, args)
    except Unsupported as e:
        raise AnalysisError("utils.%s: %s" % (name, e))
    defaults = {x.arg: d for x, d in zip(a.kwonlyargs, a.kw_defaults) if d is not None}
    vals = []
    for lf in leaves:
        if lf.kind != "return":
            vals.append(None)
        elif isinstance(lf.value, RF):
            vals.append(lf.value)
        else:
            try:
                vals.append(to_num(lf.value))
            except Unsupported:
                vals.append(None)
    return fn, vals, defaults, leaves


def sub(t, **kw):
    return t.subst({("fr", k): lift(v) if not isinstance(v, RF) else v for k, v in kw.items()})


def run(model, rep, tier):
    rep.explanation = EXPLANATION
    rep.level = "proof"
    # one unreadable construct must not hide what the syntax-level purity rule found
    rep.attempt(_run, model, rep, tier)


def _run(model, rep, tier):
    rel = model.rel("utils")
    # purity is decided on the syntax alone, before (and whether or not) the closed forms can be extracted; helper functions of the module
    # that the two functions call are included
    pure = True
    for nm in ("trace_res", "plane_res"):
        f0 = model.func("utils", nm)
        pure &= purity(model, rep, f0, rel)
        for c in ast.walk(f0):
            if isinstance(c, ast.Call) and isinstance(c.func, ast.Name) and ("utils", c.func.id) in model.funcs and c.func.id not in ("trace_res", "plane_res"):
                pure &= purity(model, rep, model.funcs[("utils", c.func.id)], rel)
    ftr, trs, dtr, ltr = summarize(model, "trace_res")
    fpl, pls, dpl, lpl = summarize(model, "plane_res")
    A_ = lambda n: fr(n)
    tf_ = 1 + A_("tcr") * (A_("temp") - 20)
    docs = {"trace_res": A_("rho") * (A_("l_mm") / 1000) / ((A_("w1_mm") + A_("w2_mm")) / 2 * A_("t_mm") / 10 ** 6) * tf_,
            "plane_res": (A_("rho") / (A_("t_mm") / 1000)) * (A_("l") / A_("w")) * tf_}
    piecewise = {}
    for fname, fn, vals, leaves in (("trace_res", ftr, trs, ltr), ("plane_res", fpl, pls, lpl)):
        if any(v is None for v in vals):
            raise AnalysisError("utils.%s has a path that does not return a number" % fname)
        if len(vals) > 1:
            allowed = set(("fr", x.arg) for x in fn.args.kwonlyargs)
            stray = [v for v in vals if not (v.atoms() <= allowed | {("fr", "k"), ("fr", "h")})]
            if not pure or stray:
                rep.violation("formula", "utils." + fname, "%s:%d" % (rel, fn.lineno),
                              "%s has %d paths and returns %s on one of them: not a closed form of its arguments" % (fname, len(vals), show(stray[0] if stray else vals[-1])), "not closed form")
                continue
            # a function written as cases: every case must be the documented closed form on the inputs that reach it.  A case guarded by an
            # equality (temp == 20) is compared after substituting the equality; any other case must be the formula as it stands.
            from ..guards import literals, show_f, And
            good = True
            for lf, v in zip(leaves, vals):
                if v == docs[fname]:
                    continue
                lits = {}
                for g in lf.guards:
                    literals(g, True, lits)
                fixed = {}
                for key, val in lits.items():
                    if key[0] == "ZP" and val is True:
                        t = key[1]
                        ats = list(t.atoms())
                        if len(ats) == 1 and t.is_poly():
                            # a*x + b == 0  ->  x = -b/a
                            x = ats[0]
                            b = t.subst({x: RF.const(0)})
                            a1 = t.subst({x: RF.const(1)}) - b
                            if a1.is_const() and b.is_const() and a1.const_value() != 0:
                                fixed[x] = RF.const(-b.const_value() / a1.const_value())
                    elif key[0] == "Z" and val is True:
                        fixed[key[1]] = RF.const(0)
                if fixed and v.subst(fixed) == docs[fname].subst(fixed):
                    continue
                good = False
                rep.violation("formula", "utils." + fname, "%s:%d" % (rel, fn.lineno),
                              "on the inputs with {%s} %s returns %s, which is not the documented formula there" % (show_f(And(*lf.guards))[:120], fname, show(v)[:160]),
                              "case differs from the closed form")
            rep.instance("formula", "utils.%s: every case of the function is the documented closed form" % fname, "%s:%d" % (rel, fn.lineno), good, "%d cases" % len(vals))
            if good:
                piecewise[fname] = docs[fname]
    tr = piecewise.get("trace_res", trs[0])
    pl = piecewise.get("plane_res", pls[0])
    need_tr = {"w1_mm", "w2_mm", "l_mm", "t_mm", "rho", "temp", "tcr"}
    need_pl = {"w", "l", "t_mm", "rho", "temp", "tcr"}
    if {x.arg for x in ftr.args.kwonlyargs} != need_tr or {x.arg for x in fpl.args.kwonlyargs} != need_pl:
        raise AnalysisError("signature of trace_res/plane_res changed")
    A = lambda n: fr(n)
    k = fr("k")
    h = fr("h")
    temp_factor = 1 + A("tcr") * (A("temp") - 20)
    doc_tr = A("rho") * (A("l_mm") / 1000) / ((A("w1_mm") + A("w2_mm")) / 2 * A("t_mm") / 10 ** 6) * temp_factor
    doc_pl = (A("rho") / (A("t_mm") / 1000)) * (A("l") / A("w")) * temp_factor
    obl = [
        ("trace_res == rho*(l/1000)/(((w1+w2)/2)*t/1e6)*(1+tcr*(temp-20))", "trace_res", tr, doc_tr),
        ("plane_res == (rho/(t/1000))*(l/w)*(1+tcr*(temp-20))", "plane_res", pl, doc_pl),
        ("trace_res proportional to length", "trace_res", sub(tr, l_mm=k * A("l_mm")), k * tr),
        ("trace_res proportional to resistivity", "trace_res", sub(tr, rho=k * A("rho")), k * tr),
        ("trace_res inversely proportional to thickness", "trace_res", sub(tr, t_mm=k * A("t_mm")) * k, tr),
        ("trace_res inversely proportional to mean width", "trace_res", sub(tr, w1_mm=k * A("w1_mm"), w2_mm=k * A("w2_mm")) * k, tr),
        ("trace_res depends on the widths only through w1+w2", "trace_res", sub(tr, w1_mm=A("w1_mm") + h, w2_mm=A("w2_mm") - h), tr),
        ("trace_res symmetric in w1/w2", "trace_res", sub(sub(tr, w1_mm=fr("tmp")), w2_mm=A("w1_mm")).subst({("fr", "tmp"): A("w2_mm")}), tr),
        ("trace_res affine in temperature", "trace_res", sub(tr, temp=A("temp") + 2 * h) - 2 * sub(tr, temp=A("temp") + h) + tr, RF.const(0)),
        ("trace_res at 20 degC is the cold resistance", "trace_res", sub(tr, temp=20), sub(doc_tr, temp=20)),
        ("plane_res proportional to length", "plane_res", sub(pl, l=k * A("l")), k * pl),
        ("plane_res proportional to resistivity", "plane_res", sub(pl, rho=k * A("rho")), k * pl),
        ("plane_res inversely proportional to thickness", "plane_res", sub(pl, t_mm=k * A("t_mm")) * k, pl),
        ("plane_res inversely proportional to width", "plane_res", sub(pl, w=k * A("w")) * k, pl),
        ("plane_res affine in temperature", "plane_res", sub(pl, temp=A("temp") + 2 * h) - 2 * sub(pl, temp=A("temp") + h) + pl, RF.const(0)),
        ("trace_res(w1=w2=W, l_mm=L) == plane_res(w=W, l=L)", "trace_res", sub(tr, w1_mm=fr("W"), w2_mm=fr("W"), l_mm=fr("L")), sub(pl, w=fr("W"), l=fr("L"))),
    ]
    for text, fname, lhs, rhs in obl:
        fn = ftr if fname == "trace_res" else fpl
        ok = lhs == rhs
        rep.instance("formula", "utils.%s: %s" % (fname, text), "%s:%d" % (rel, fn.lineno), ok)
        if not ok:
            rep.violation("formula", "utils." + fname, "%s:%d" % (rel, fn.lineno),
                          "%s fails: got %s, expected %s" % (text, show(lhs), show(rhs)), text)
    # defaults
    for fname, fn, d in (("trace_res", ftr, dtr), ("plane_res", fpl, dpl)):
        want = {"rho": ("RHO", None), "tcr": ("TCR", None), "temp": (None, 20.0)}
        for arg, (cname, lit) in want.items():
            node = d.get(arg)
            ok = node is not None and ((cname and isinstance(node, ast.Name) and node.id == cname) or
                                       (cname and isinstance(node, ast.Constant) and node.value == model.const_value("utils", cname)) or
                                       (lit is not None and isinstance(node, ast.Constant) and node.value == lit))
            rep.instance("defaults", "utils.%s default %s" % (fname, arg), "%s:%d" % (rel, fn.lineno), ok)
            if not ok:
                rep.violation("defaults", "utils." + fname, "%s:%d" % (rel, fn.lineno),
                              "default of %s is not %s" % (arg, cname or lit), "default " + arg)
    rep.sample({"trace_res_normal_form": show(tr), "plane_res_normal_form": show(pl),
                "RHO": model.const_value("utils", "RHO"), "TCR": model.const_value("utils", "TCR")})
    rep.floor("formula", rep.obligations, 22)
    rep.assumptions += ["float literals are read as exact decimals; IEEE rounding of the final evaluation is outside the claim"]
