"""C16 - results depend on the final structure only, not on the edit history (DESIGN.md section 4, C16)."""
import ast
from ..core import AnalysisError
from .. import sysrules, editrules
from ..sysrules import is_name, registry_of

EXPLANATION = (
    "(R1) in every edit method, on every accepting path, the (operation, key) sequence on the 'nodes' registry is mirrored on "
    "phase_conf, groups and rails; (R2) the input-order registry holds node indices, never caller-supplied names, every parent "
    "link created is paired on the same path with a store of the child's input order, and no store into it passes through an "
    "order-destroying operation; (R3) vectors indexed by node index are sized max(index)+1 and no loop walks range(n) over "
    "node indices (index holes after deletions); (R4) nothing is carried from row to row in solve() (shared with C07-R1) and "
    "the relationship caches are rebuilt unconditionally by _rel_update, which every analysis calls before its first use of "
    "them; (R5) _pars_and_limits routes each parameter / limit key to the column whose header names it, tables are shown as "
    "'interp', _filt_lim blanks exactly the default, and phases() reports the configured per-phase value in the column of "
    "the load's kind; (R6) del_comp ends every path with the same outcome and the same ordered registry / graph effects as its "
    "reference text, so re-linked childs keep their input priority order. Not decided: that every report 'succeeds' in the presence of library exceptions.")

CACHE_ATTRS = ("PARENTS", "CHILDS", "TOPO")


def run(model, rep, tier):
    rep.explanation = EXPLANATION
    r = sysrules.roles(model)
    A = rep.attempt
    A(editrules.c16_lockstep, model, rep, r)
    A(editrules.c16_links, model, rep, r)
    A(editrules.graph_registry_pairing, model, rep, r, "R1")
    A(lambda: order_rule(model, rep))
    A(index_holes, model, rep, r)
    A(sysrules.relation_table_rule, model, rep, "R3")
    A(row_carry, model, rep, r)
    A(rel_update_rule, model, rep, r)
    A(config_reports, model, rep, r)
    from . import c19
    A(c19.r1, model, rep)      # make_diag lists exactly the live components and links (index holes, edit history)
    A(del_comp_reference, model, rep, r)
    A(config_value_truth, model, rep)


CONFIG_REPORTS = ("phases", "params", "limits", "_pars_and_limits", "_filt_lim", "get_sys_phases")
BOOLEAN_KEYS = {"loss"}


def config_value_truth(model, rep):
    """R5: a report never selects what it shows by the truth value of a configured number (0 is a configured value like any
    other): no keyed read of a parameter / limit / phase-value registry stands as an operand of or/and/not or as a bare test"""
    rel = model.rel("system")
    n = 0
    for mname in CONFIG_REPORTS:
        fn = model.own_method("System", mname)
        if fn is None:
            continue
        # names bound once to a registry (also pairwise in a tuple assignment)
        binds = {}
        for x in ast.walk(fn):
            if isinstance(x, ast.Assign) and len(x.targets) == 1:
                t, v = x.targets[0], x.value
                pairs = list(zip(t.elts, v.elts)) if isinstance(t, ast.Tuple) and isinstance(v, ast.Tuple) and len(t.elts) == len(v.elts) else [(t, v)]
                for tt, vv in pairs:
                    if isinstance(tt, ast.Name):
                        binds.setdefault(tt.id, []).append(vv)

        def registry(e, depth=0):
            """is e (the container of a keyed read) a parameter / limit / per-phase value table?"""
            if depth > 4:
                return None
            if isinstance(e, ast.Attribute) and e.attr in ("_params", "_limits"):
                return e.attr
            if isinstance(e, ast.Subscript) and isinstance(e.value, ast.Attribute) and e.value.attr == "_phase_lkup":
                return "_phase_lkup[..]"
            if isinstance(e, ast.Subscript) and isinstance(e.value, ast.Subscript) and isinstance(e.value.slice, ast.Constant) and e.value.slice.value == "phase_conf":
                return "phase_conf[..]"
            if isinstance(e, ast.Name) and len(binds.get(e.id, [])) == 1:
                return registry(binds[e.id][0], depth + 1)
            return None

        def keyed_read(e):
            if isinstance(e, ast.Subscript) and not isinstance(e.slice, ast.Slice):
                if isinstance(e.slice, ast.Constant) and e.slice.value in BOOLEAN_KEYS:
                    return None
                return registry(e.value)
            if isinstance(e, ast.Call) and isinstance(e.func, ast.Attribute) and e.func.attr == "get" and e.args:
                if isinstance(e.args[0], ast.Constant) and e.args[0].value in BOOLEAN_KEYS:
                    return None
                return registry(e.func.value)
            if isinstance(e, ast.Name) and len(binds.get(e.id, [])) == 1 and not isinstance(binds[e.id][0], ast.Name):
                return keyed_read(binds[e.id][0])
            return None
        ok = True
        for x in ast.walk(fn):
            ops = []
            if isinstance(x, ast.BoolOp):
                ops = x.values
            elif isinstance(x, ast.UnaryOp) and isinstance(x.op, ast.Not):
                ops = [x.operand]
            elif isinstance(x, (ast.If, ast.IfExp, ast.While)):
                ops = [x.test]
            elif isinstance(x, ast.comprehension):
                ops = list(x.ifs)
            for o in ops:
                reg = keyed_read(o)
                if reg:
                    ok = False
                    rep.violation("R5", "system.System.%s" % mname, "%s:%d" % (rel, o.lineno), "`%s` is used for its truth value: a configured 0 (in %s) is then reported as something else" % (ast.unparse(o)[:80], reg), "truth value of a configured number in " + mname)
        rep.instance("R5", "System.%s never branches on the truth value of a configured number" % mname, "%s:%d" % (rel, fn.lineno), ok)
        n += 1
    if n < 4:
        raise AnalysisError("configuration reports not found (%d of %d)" % (n, len(CONFIG_REPORTS)))


def del_comp_reference(model, rep, r):
    """R6: the deletion leaves the registries, the links and the input order of the re-linked childs exactly as the reference
    text (sa/spec_edit.py, parsed, never run) does, path for path; conditions or collections the reference does not name are
    not paired (analysis error, never a verdict)"""
    from .. import refcmp
    fn = model.own_method("System", "del_comp")
    if fn is None:
        raise AnalysisError("System.del_comp not found")
    where = "%s:%d" % (model.rel("system"), fn.lineno)
    ok, rows = refcmp.compare(model, r, fn, refcmp.spec_function("spec_edit", "del_comp"), rep, "R6", "system.System.del_comp", where, "del_comp", mod="system", closed=True)
    if rows < 5:
        raise AnalysisError("del_comp: only %d path pairs compared with the reference" % rows)
    rep.instance("R6", "del_comp agrees with its reference text on every pair of paths", where, ok, "%d path pairs" % rows)


def order_rule(model, rep):
    reg = sysrules.order_registry(model)
    broke = sysrules.order_breakers(model, rep, reg, "R2")
    rep.instance("R2", "input-order registry '%s': no order-destroying store" % reg, model.rel("system") + ":1", not broke)
    # consumers of the unordered predecessor view
    ok = True
    n = 0
    for mod, qn, fn in model.all_functions():
        for x in ast.walk(fn):
            if isinstance(x, ast.Attribute) and x.attr in ("predecessor_indices", "predecessors", "in_edges"):
                n += 1
                if not (mod == "system" and qn == "System._get_parents") and not (mod == "system" and sysrules.reads_back_in_order(model, fn, reg)):
                    ok = False
                    rep.violation("R2", "%s.%s" % (mod, qn), "%s:%d" % (model.rel(mod), x.lineno), "the unordered predecessor view of the graph is consumed outside _get_parents: the result then depends on edge creation order, i.e. on the edit history", "predecessor consumer " + qn)
    rep.instance("R2", "unordered predecessor view consumed only by _get_parents", model.rel("system") + ":1", ok, "%d use(s)" % n)


def index_holes(model, rep, r):
    rel = model.rel("system")
    ok = True
    n = 0
    for mname in ("_sys_vars", "_get_parents", "_get_childs"):
        fn = model.own_method("System", mname)
        if fn is None:
            raise AnalysisError("System.%s not found" % mname)
        src = ast.unparse(fn)
        nodevars = {x.targets[0].id for x in ast.walk(fn) if isinstance(x, ast.Assign) and isinstance(x.targets[0], ast.Name) and ast.unparse(x.value) == "self._get_nodes()"}
        accepted = {"max(self._get_nodes())+1", "1+max(self._get_nodes())"} | {"max(%s)+1" % v for v in nodevars} | {"1+max(%s)" % v for v in nodevars}
        sized = [x for x in ast.walk(fn) if isinstance(x, ast.BinOp) and isinstance(x.op, ast.Add) and ast.unparse(x).replace(" ", "") in accepted]
        good = bool(sized)
        if not good:
            ok = False
            rep.violation("R3", "system.System.%s" % mname, "%s:%d" % (rel, fn.lineno), "a vector indexed by node index is not sized by the highest live node index + 1 (deleted nodes leave index holes)", "vector size " + mname)
        n += 1
    # no loop over range(...) whose variable is used as a node index
    for mod, qn, fn in model.all_functions():
        if mod not in ("system", "diagram"):
            continue
        for lp in ast.walk(fn):
            if isinstance(lp, ast.For) and isinstance(lp.iter, ast.Call) and isinstance(lp.iter.func, ast.Name) and lp.iter.func.id == "range" and isinstance(lp.target, ast.Name):
                v = lp.target.id
                arg = ast.unparse(lp.iter)
                if not any(t in arg for t in ("hidx", "_get_nodes", "num_nodes", "'nodes'", "vn", "node_indices")):
                    continue
                for x in ast.walk(lp):
                    if isinstance(x, ast.Subscript) and is_name(x.slice, v) and ast.unparse(x.value) in ("self._g", "sys._g"):
                        ok = False
                        rep.violation("R3", "%s.%s" % (mod, qn), "%s:%d" % (model.rel(mod), lp.lineno), "a loop over %s uses its counter as a node index: deleted nodes leave holes" % arg, "range over node indices in " + qn)
    rep.instance("R3", "node-indexed vectors sized by max index + 1; no range() walk over node indices", "%s:1" % rel, ok, "%d sizing sites" % n)
    if n < 3:
        raise AnalysisError("sizing sites vanished")


def row_carry(model, rep, r):
    rel = model.rel("system")
    an = sysrules.solve_anchors(model, r)
    sysrules.iteration_state_rule(model, rep, "R4", "system.System.solve", "%s:%d" % (rel, an["row"].lineno), an["row"], "row loop", parent_attr=r["PARENTS"])
    # the per-node loops of the configuration reports
    n = 0
    for meth in ("phases", "_pars_and_limits", "tree", "save"):
        fn = model.own_method("System", meth)
        if fn is None:
            raise AnalysisError("System.%s not found" % meth)
        for loop in ast.walk(fn):
            if isinstance(loop, ast.For) and (sysrules.iter_is_role(loop, r["TOPO"]) or "_get_nodes" in ast.unparse(loop.iter) or "_get_sources" in ast.unparse(loop.iter)):
                # a parent's slot is only known to be filled when the loop visits parents first (the topological order)
                pa = r["PARENTS"] if sysrules.iter_is_role(loop, r["TOPO"]) else None
                sysrules.iteration_state_rule(model, rep, "R4", "system.System.%s" % meth, "%s:%d" % (rel, loop.lineno), loop, "node loop", parent_attr=pa)
                n += 1
    if n < 2:
        raise AnalysisError("per-node loops of phases()/_pars_and_limits() not found")


def rel_update_rule(model, rep, r):
    rel = model.rel("system")
    fn = model.own_method("System", r["REL_UPDATE"])
    body = [s for s in fn.body if not (isinstance(s, ast.Expr) and isinstance(s.value, ast.Constant))]
    want = {r["PARENTS"]: "_get_parents", r["CHILDS"]: "_get_childs", r["TOPO"]: "_get_topo_sort"}
    got = {}
    for s in body:
        if isinstance(s, ast.Assign) and isinstance(s.targets[0], ast.Attribute) and is_name(s.targets[0].value, "self") \
                and isinstance(s.value, ast.Call) and isinstance(s.value.func, ast.Attribute) and is_name(s.value.func.value, "self") and not s.value.args:
            got[s.targets[0].attr] = s.value.func.attr
    ok = got == want and len(body) == 3
    if not ok:
        rep.violation("R4", "system.System.%s" % fn.name, "%s:%d" % (rel, fn.lineno),
                      "the relationship caches are not rebuilt unconditionally from the graph on every call (found %s): a report after an edit can see the structure of before the edit" % (got or "no plain rebuild"), "rel_update not unconditional")
    rep.instance("R4", "system.System.%s rebuilds all caches unconditionally" % fn.name, "%s:%d" % (rel, fn.lineno), ok)
    # every method that (transitively) reads a cache calls _rel_update at top level before the first such read
    cache_attrs = {r["PARENTS"], r["CHILDS"], r["TOPO"]}
    sysc = model.cls("System")
    reads = {}
    for m in sysc.body:
        if isinstance(m, ast.FunctionDef):
            reads[m.name] = any(isinstance(x, ast.Attribute) and is_name(x.value, "self") and x.attr in cache_attrs and isinstance(x.ctx, ast.Load) for x in ast.walk(m))
    def stmt_reads(stmt):
        if any(isinstance(x, ast.Attribute) and is_name(x.value, "self") and x.attr in cache_attrs and isinstance(x.ctx, ast.Load) for x in ast.walk(stmt)):
            return True
        return any(reads.get(c) for c in sysrules.closure_from(model, [stmt]))
    n = 0
    for m in sysc.body:
        if not isinstance(m, ast.FunctionDef) or m.name == fn.name:
            continue
        public = not m.name.startswith("_") or m.name == "_pars_and_limits"
        if not public:
            continue
        body = [s for s in m.body if not (isinstance(s, ast.Expr) and isinstance(s.value, ast.Constant))]
        first_read = None
        upd = None
        for i, s in enumerate(body):
            is_upd = isinstance(s, ast.Expr) and isinstance(s.value, ast.Call) and ast.unparse(s.value.func) == "self.%s" % fn.name
            if is_upd and upd is None:
                upd = i
            # public methods that delegate wholesale to another public method are covered there
            if first_read is None and not is_upd and stmt_reads(s):
                delegated = [c for c in sysrules.self_calls(s) if not c.startswith("_") or c == "_pars_and_limits"]
                direct = any(isinstance(x, ast.Attribute) and is_name(x.value, "self") and x.attr in cache_attrs for x in ast.walk(s))
                if delegated and not direct:
                    continue
                first_read = i
        if first_read is None:
            continue
        n += 1
        ok = upd is not None and upd < first_read
        if not ok:
            rep.violation("R4", "system.System.%s" % m.name, "%s:%d" % (rel, body[first_read].lineno),
                          "%s uses the parent/child/topological caches without refreshing them first: after an edit it reports the structure of before the edit" % m.name, "stale cache in " + m.name)
        rep.instance("R4", "system.System.%s refreshes the caches before use" % m.name, "%s:%d" % (rel, m.lineno), ok)
    if n < 4:
        raise AnalysisError("fewer than 4 cache-using analyses found")


PARAM_KEYS = ["vo", "vdrop", "ig", "iq", "rs", "rt", "eff", "ii", "pwr", "iis", "pwrs", "loss"]
LIMIT_KEYS = ["vi", "vo", "vd", "ii", "io", "pi", "po", "pl", "tr", "tp"]


class _Fake:
    def __init__(self, name, lineno):
        self.target = ast.Name(id=name, ctx=ast.Store())
        self.lineno = lineno


def append_of(x):
    """(list name, appended expression) of `l += [e]` / `l.append(e)`, else None"""
    if isinstance(x, ast.AugAssign) and isinstance(x.target, ast.Name) and isinstance(x.op, ast.Add) and isinstance(x.value, ast.List) and len(x.value.elts) == 1:
        return x.target.id, x.value.elts[0]
    if isinstance(x, ast.Expr) and isinstance(x.value, ast.Call) and isinstance(x.value.func, ast.Attribute) and x.value.func.attr == "append" \
            and isinstance(x.value.func.value, ast.Name) and len(x.value.args) == 1:
        return x.value.func.value.id, x.value.args[0]
    return None


def config_reports(model, rep, r):
    rel = model.rel("system")
    fn = model.norm_method("System", "_pars_and_limits")
    if fn is None:
        raise AnalysisError("System._pars_and_limits not found")
    where = "%s:%d" % (rel, fn.lineno)
    var_key = {}     # list variable -> ("param"|"limit", key)
    for x in ast.walk(fn):
        tgt_e = append_of(x)
        if tgt_e is not None:
            tname, e = tgt_e
            x = _Fake(tname, x.lineno)
            if isinstance(e, ast.Subscript) and isinstance(e.slice, ast.Constant) and isinstance(e.value, ast.Name):
                var_key.setdefault(x.target.id, []).append(("param", e.slice.value))
            elif isinstance(e, ast.Call) and ast.unparse(e.func) == "self._filt_lim" and len(e.args) == 2 and isinstance(e.args[1], ast.Constant):
                var_key.setdefault(x.target.id, []).append(("limit", e.args[1].value))
    hdr = {}
    frames = [c for c in ast.walk(fn) if isinstance(c, ast.Call) and ast.unparse(c.func) == "pd.DataFrame" and c.args and isinstance(c.args[0], ast.Name)]
    if len(frames) != 1:
        raise AnalysisError("_pars_and_limits: result frame not found")
    RES = frames[0].args[0].id
    for x in ast.walk(fn):
        if isinstance(x, ast.Assign) and isinstance(x.targets[0], ast.Subscript) and is_name(x.targets[0].value, RES) and isinstance(x.value, ast.Name):
            s = x.targets[0].slice
            text = s.value if isinstance(s, ast.Constant) else (s.func.value.value if isinstance(s, ast.Call) and isinstance(s.func, ast.Attribute) and isinstance(s.func.value, ast.Constant) else None)
            if text is not None:
                hdr[text] = x.value.id
    # a report whose columns are filed under computed titles / from computed lists (a table of columns walked in a loop) is not laid out
    # column by column: the pairing below cannot be read off it
    for x in ast.walk(fn):
        if isinstance(x, ast.Assign) and isinstance(x.targets[0], ast.Subscript) and is_name(x.targets[0].value, RES):
            s = x.targets[0].slice
            const_title = isinstance(s, ast.Constant) or (isinstance(s, ast.Call) and isinstance(s.func, ast.Attribute) and isinstance(s.func.value, ast.Constant))
            if not const_title or not isinstance(x.value, (ast.Name, ast.List, ast.BinOp)):
                raise AnalysisError("_pars_and_limits: a result column is filed as %s: the report is not laid out column by column" % ast.unparse(x)[:70])
    ok = True
    seen_p, seen_l = set(), set()
    for text, var in hdr.items():
        if text in ("Component", "Type"):
            continue
        key = text.split()[0]
        srcs = var_key.get(var, [])
        if len(srcs) != 1 or srcs[0][1] != key:
            ok = False
            rep.violation("R5", "system.System._pars_and_limits", where, "column '%s' shows %s" % (text, ["%s '%s'" % s for s in srcs] or "nothing"), "column %s <- %s" % (text, srcs))
        elif srcs[0][0] == "param":
            seen_p.add(key)
        else:
            seen_l.add(key)
    if seen_p != set(PARAM_KEYS) or seen_l != set(LIMIT_KEYS):
        ok = False
        rep.violation("R5", "system.System._pars_and_limits", where, "parameter columns %s / limit columns %s do not cover all keys" % (sorted(set(PARAM_KEYS) - seen_p), sorted(set(LIMIT_KEYS) - seen_l)), "columns incomplete")
    # the request dict handed to _get_params lists every parameter
    pd = [x for x in ast.walk(fn) if isinstance(x, ast.Dict) and all(isinstance(k, ast.Constant) for k in x.keys) and len(x.keys) >= 10]
    if not pd or sorted(k.value for k in pd[0].keys) != sorted(PARAM_KEYS):
        ok = False
        rep.violation("R5", "system.System._pars_and_limits", where, "the parameter request does not list every parameter key", "request keys")
    # parameter columns exactly when parameters are requested, limit columns exactly when limits are
    P_, L_ = [a.arg for a in fn.args.args][1:3]
    for x in ast.walk(fn):
        if isinstance(x, ast.If) and ast.unparse(x.test) in (P_, L_):
            kind = "param" if ast.unparse(x.test) == P_ else "limit"
            for y0 in ast.walk(ast.Module(body=x.body, type_ignores=[])):
                ap = append_of(y0)
                y = _Fake(ap[0], y0.lineno) if ap else None
                if y is not None and y.target.id in var_key and var_key[y.target.id][0][0] != kind:
                    ok = False
                    rep.violation("R5", "system.System._pars_and_limits", "%s:%d" % (rel, y.lineno), "a %s column is filled under the '%s' switch" % (var_key[y.target.id][0][0], ast.unparse(x.test)), "switch mismatch")
        elif isinstance(x, ast.If) and any(n_ in (P_, L_) for n_ in {z.id for z in ast.walk(x.test) if isinstance(z, ast.Name)}):
            ok = False
            rep.violation("R5", "system.System._pars_and_limits", "%s:%d" % (rel, x.lineno), "columns are switched by `%s`, expected the plain request flag" % ast.unparse(x.test), "switch condition " + ast.unparse(x.test))
    rep.instance("R5", "system.System._pars_and_limits column routing", where, ok, "%d columns" % len(hdr))
    # _get_params: tables as 'interp', otherwise the stored value
    gp = model.method("_Component", "_get_params")[1]
    ok = False
    for lp in ast.walk(gp):
        if isinstance(lp, ast.For) and isinstance(lp.target, ast.Name):
            k = lp.target.id
            for iff in ast.walk(lp):
                if isinstance(iff, ast.If) and ast.unparse(iff.test).replace(" ", "") == "isinstance(self._params[%s],dict)" % k and len(iff.body) == 1 and len(iff.orelse) == 1:
                    b, o = iff.body[0], iff.orelse[0]
                    if isinstance(b, ast.Assign) and isinstance(o, ast.Assign) and ast.unparse(b.value).replace('"', "'") == "'interp'" and ast.unparse(o.value) == "self._params[%s]" % k \
                            and ast.unparse(b.targets[0]) == ast.unparse(o.targets[0]) and ast.unparse(b.targets[0]).endswith("[%s]" % k):
                        ok = True
    if not ok:
        rep.violation("R5", "components._Component._get_params", "%s:%d" % (model.rel("components"), gp.lineno), "parameters are not reported as stored (tables as 'interp')", "get_params")
    rep.instance("R5", "components._Component._get_params", "%s:%d" % (model.rel("components"), gp.lineno), ok)
    # _filt_lim blanks exactly the default
    fl = model.norm_method("System", "_filt_lim")
    ok = False
    NODE, KEY = [a.arg for a in fl.args.args][1:3]
    body = [s_ for s_ in fl.body if not (isinstance(s_, ast.Expr) and isinstance(s_.value, ast.Constant))]
    if len(body) == 3 and isinstance(body[0], ast.Assign) and isinstance(body[0].targets[0], ast.Name) and isinstance(body[1], ast.If) and isinstance(body[2], ast.Return):
        lv = body[0].targets[0].id
        got_ok = ast.unparse(body[0].value).replace('"', "'").replace(" ", "") == "_get_opt(self._g[%s]._limits,%s,'')" % (NODE, KEY)
        t = body[1].test
        test_ok = isinstance(t, ast.Compare) and len(t.ops) == 1 and isinstance(t.ops[0], ast.Eq) and {ast.unparse(t.left), ast.unparse(t.comparators[0])} == {lv, "LIMITS_DEFAULT[%s]" % KEY}
        ret_ok = len(body[1].body) == 1 and isinstance(body[1].body[0], ast.Return) and ast.unparse(body[1].body[0].value).replace('"', "'") == "''" and not body[1].orelse and is_name(body[2].value, lv)
        ok = got_ok and test_ok and ret_ok
    if not ok:
        rep.violation("R5", "system.System._filt_lim", "%s:%d" % (rel, fl.lineno), "limits are not shown as 'the configured pair unless it equals the default'", "filt_lim")
    rep.instance("R5", "system.System._filt_lim", "%s:%d" % (rel, fl.lineno), ok)
    # phases(): the per-phase value goes to the column of the load's kind
    ph = model.norm_method("System", "phases")
    ok = True
    hd = {}
    frames = [c for c in ast.walk(ph) if isinstance(c, ast.Call) and ast.unparse(c.func) == "pd.DataFrame" and c.args and isinstance(c.args[0], ast.Name)]
    if len(frames) != 1:
        raise AnalysisError("phases(): result frame not found")
    RES2 = frames[0].args[0].id
    for x in ast.walk(ph):
        if isinstance(x, ast.Assign) and isinstance(x.targets[0], ast.Subscript) and is_name(x.targets[0].value, RES2) and isinstance(x.value, ast.Name) \
                and isinstance(x.targets[0].slice, ast.Constant):
            hd[x.targets[0].slice.value.split()[0]] = x.value.id
    branches = 0
    for iff in ast.walk(ph):
        if isinstance(iff, ast.If):
            t = ast.unparse(iff.test).replace('"', "'")
            key = None
            for k in ("pwr", "rs", "ii"):
                if t.startswith("'%s' in self._g[" % k) and t.endswith("]._params"):
                    key = k
                    NV = t[len("'%s' in self._g[" % k):-len("]._params")]
            if key is None:
                continue
            branches += 1
            # in this branch the only non-'' appends go to the key's column and read params[key] / the phase table
            for x0 in ast.walk(ast.Module(body=iff.body, type_ignores=[])):
                ap = append_of(x0)
                if ap:
                    x = _Fake(ap[0], x0.lineno)
                    v = ast.unparse(ap[1]).replace('"', "'")
                    if v == "''":
                        continue
                    pv_ok = v.startswith("self._phase_lkup[%s][" % NV) and v.endswith("]")
                    if x.target.id != hd.get(key) or not (v == "self._g[%s]._params['%s']" % (NV, key) or pv_ok):
                        ok = False
                        rep.violation("R5", "system.System.phases", "%s:%d" % (rel, x.lineno), "for a load configured by '%s' the value %s goes to the list '%s'" % (key, v, x.target.id), "phases column " + key)
    if branches < 2:
        raise AnalysisError("phases(): load-kind branches not found")
    rep.instance("R5", "system.System.phases per-kind columns", "%s:%d" % (rel, ph.lineno), ok, "%d kind branches" % branches)
