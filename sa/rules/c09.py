"""C09 - warnings appear exactly when an applicable limit is exceeded (DESIGN.md section 4, C09)."""
import ast
import itertools
import re
from ..core import KINDS, AnalysisError
from ..laws import LawHooks, METH
from ..guards import Ctx, A, And, Or, Not, atoms_of, ev, literals, show_f, f_pos
from ..terms import RF, abs_, lift
from ..summ import Summarizer, State, Sym, ListV, DictV, vkey, show_value, to_num, fr
from .. import sysrules

EXPLANATION = (
    "(R1) the body of _get_warns flags a key iff value > max or value < min, compared by magnitude on both sides except "
    "for 'tp' which is compared signed, with strict comparisons and the limit taken from the component's dict else "
    "LIMITS_DEFAULT[key] (truth table over the comparison atoms, both key modes); (R2) the quantities compared are "
    "vi, vo, vd=|vi|-|vo|, ii, io, pi=Power, po=Power-Loss, pl=Loss, tr, tp of the kind's own power routine called with the "
    "same arguments, restricted to the kind's applicable keys; (R3) _get_limits of every kind equals the 'The following "
    "limits apply' sentence of its class docstring and LIMITS_DEFAULT equals the table in the module docstring; (R4) the "
    "early empty return happens exactly for non-source, non-series-loss kinds with a phase table that lacks the phase; "
    "(R5) the subsystem flag of a domain ends at 1 iff a row of that domain has a warning (initialisation on the source row "
    "happens before the row's own warning is recorded), 'Yes' is written iff the flag is set, and the total says 'Yes' iff "
    "any row does; (R6) solve() hands the warning routine the same operands as the power routine; (R7) the limits reach the "
    "comparison as configured: _check_limits returns its argument without storing into it, every constructor keeps "
    "_check_limits(limits) in _limits and nothing else in the package writes _limits or its entries. Not decided: the "
    "numeric values compared (C01-C03).")

ALL_KEYS = ["vi", "vo", "vd", "ii", "io", "pi", "po", "pl", "tr", "tp"]


def run(model, rep, tier):
    rep.explanation = EXPLANATION
    A_ = rep.attempt
    A_(r1, model, rep)
    A_(r2_r4, model, rep)
    A_(r3, model, rep)
    A_(r5, model, rep)
    A_(lambda: sysrules.row_assembly(model, rep, sysrules.roles(model), "R6", ["Warnings", "Power (W)"]))
    A_(r7, model, rep)


# ------------------------------------------------------------------------------------------------ R1
class WarnHooks:
    def __init__(self, model):
        self.model = model

    def inline(self, fname):
        if fname == "_get_opt":
            return self.model.func("components", "_get_opt"), False
        return None


def r1(model, rep):
    rel = model.rel("components")
    fn = model.norm_func("components", "_get_warns")       # items() loops as key loops, pure aliases written out
    where = "%s:%d" % (rel, fn.lineno)
    params = [a.arg for a in fn.args.args]
    if len(params) != 2:
        raise AnalysisError("_get_warns has %d parameters" % len(params))
    LIM, CHK = params
    loops = [s for s in fn.body if isinstance(s, ast.For)]
    if len(loops) != 1 or not isinstance(loops[0].target, ast.Name):
        raise AnalysisError("_get_warns: key loop not found")
    loop = loops[0]
    # the loop ranges over every key of the quantities
    it = ast.unparse(loop.iter)
    src = {it}
    for s in fn.body:
        if isinstance(s, ast.Assign) and isinstance(s.targets[0], ast.Name) and s.targets[0].id == it:
            src = {ast.unparse(s.value)}
    ok = bool(src & {"list(%s.keys())" % CHK, "%s.keys()" % CHK, CHK, "list(%s)" % CHK})
    if not ok:
        rep.violation("R1", "components._get_warns", where, "the comparison loop ranges over %s, not over every quantity handed in" % sorted(src), "loop domain")
    rep.instance("R1", "components._get_warns loops over all quantities", where, ok)
    # accumulator
    accs = {n.target.id for n in ast.walk(loop) if isinstance(n, ast.AugAssign) and isinstance(n.target, ast.Name)}
    accs |= {n.func.value.id for n in ast.walk(loop) if isinstance(n, ast.Call) and isinstance(n.func, ast.Attribute) and n.func.attr == "append" and isinstance(n.func.value, ast.Name)}
    if len(accs) != 1:
        raise AnalysisError("_get_warns: warning accumulator not found")
    acc = accs.pop()
    # the accumulator is a text ("" + key + " ") or a list of keys joined at the end
    inits = [x_.value for x_ in fn.body if isinstance(x_, ast.Assign) and len(x_.targets) == 1 and isinstance(x_.targets[0], ast.Name) and x_.targets[0].id == acc]
    as_list = bool(inits) and isinstance(inits[0], ast.List) and not inits[0].elts
    if not inits or not (as_list or (isinstance(inits[0], ast.Constant) and inits[0].value == "")):
        raise AnalysisError("_get_warns: the warning accumulator does not start empty")
    from ..summ import ListV
    acc0 = ListV([]) if as_list else ""
    for mode in ("tp", "other"):
        key = "tp" if mode == "tp" else Sym(("name", "KEY"))
        c0 = Ctx()
        if mode == "other":
            for pair in (("tp", Sym(("name", "KEY"))), (Sym(("name", "KEY")), "tp")):
                c0.known[("EQ",) + pair] = False
        sm = Summarizer(WarnHooks(model), c0)
        env = {LIM: Sym(("name", "limits")), CHK: Sym(("name", "checks")), loop.target.id: key, acc: acc0}
        leaves = sm.summarize_block(loop.body, env)
        x = fr(Sym(("sub", Sym(("name", "checks")), vkey(key))))
        bad = None
        nrows = 0
        for lf in leaves:
            lits = {}
            for g in lf.guards:
                literals(g, True, lits)
            own = None
            for k, v in lits.items():
                if k[0] == "IN":
                    own = v
            if own is None:
                raise AnalysisError("_get_warns: the limit is not looked up with a default")
            base = Sym(("sub", Sym(("name", "limits")), vkey(key))) if own else Sym(("sub", Sym(("name", "LIMITS_DEFAULT")), vkey(key)))
            lo = fr(Sym(("sub", base, lift(0))))
            hi = fr(Sym(("sub", base, lift(1))))
            ctx = Ctx()
            if mode == "tp":
                want = Or(f_pos(x - hi, ctx), f_pos(lo - x, ctx))
            else:
                want = Or(f_pos(abs_(x) - abs_(hi), ctx), f_pos(abs_(lo) - abs_(x), ctx))
            flagged = vkey(lf.env.get(acc)) != vkey(acc0)
            rest = And(*[g for g in lf.guards if not (atoms_of(g) and all(a[0] == "IN" for a in atoms_of(g)))])
            atoms = sorted(atoms_of(rest) | atoms_of(want), key=repr)
            for bits in itertools.product((False, True), repeat=len(atoms)):
                al = dict(zip(atoms, bits))
                if ev(rest, al) is not True:
                    continue
                nrows += 1
                if ev(want, al) != flagged:
                    bad = (show_f(rest), show_f(want), flagged)
            got_acc = lf.env.get(acc)
            if flagged and mode == "tp" and not (got_acc == "tp " or (as_list and isinstance(got_acc, ListV) and [vkey(i_) for i_ in got_acc.items] == [vkey("tp")])):
                bad = ("appended text %r" % (lf.env.get(acc),), "'tp '", flagged)
        ok = bad is None
        if not ok:
            rep.violation("R1", "components._get_warns", where, "key %s: flagged=%s on the path {%s}, but the documented condition is %s" % (
                "'tp'" if mode == "tp" else "other than 'tp'", bad[2], bad[0], bad[1]), "compare %s: %s" % (mode, bad[0]))
        rep.instance("R1", "components._get_warns comparison (%s)" % ("tp: signed" if mode == "tp" else "magnitudes"), where, ok, "%d rows" % nrows)
        if nrows == 0:
            raise AnalysisError("_get_warns: no row analysed")
    # returns the accumulated text
    rets = [n for n in ast.walk(fn) if isinstance(n, ast.Return)]
    ok = len(rets) == 1 and (ast.unparse(rets[0].value) in ("%s.strip()" % acc, acc) if not as_list else ast.unparse(rets[0].value) in ("' '.join(%s)" % acc, '" ".join(%s)' % acc))
    if not ok:
        rep.violation("R1", "components._get_warns", where, "the accumulated warning text is not what is returned", "return")
    rep.instance("R1", "components._get_warns returns the accumulated text", where, ok)


# ------------------------------------------------------------------------------------------------ R2 / R4
class GwHooks(LawHooks):
    def attr(self, base, attr):
        if isinstance(base, Sym) and base.key == ("name", "self") and attr == "_component_type":
            return Sym(("CTYPE",))
        if isinstance(base, Sym) and base.key == ("name", "_ComponentTypes"):
            return Sym(("CT", attr))
        return super().attr(base, attr)

    def comprehension(self, sm, n, st):
        # {k: all_lims[k] for k in self._get_limits()}   -> the same restriction marker as the loop form
        if isinstance(n, ast.DictComp) and len(n.generators) == 1 and not n.generators[0].ifs and isinstance(n.generators[0].target, ast.Name):
            g = n.generators[0]
            k = g.target.id
            if ast.unparse(g.iter) == "self._get_limits()" and isinstance(n.key, ast.Name) and n.key.id == k and isinstance(n.value, ast.Subscript) \
                    and isinstance(n.value.value, ast.Name) and isinstance(n.value.slice, ast.Name) and n.value.slice.id == k:
                return Sym(("RESTRICT", vkey(st.env.get(n.value.value.id)), "self._get_limits()"))
        return None

    def loop(self, sm, node, st):
        # for k in self._get_limits(): lims[k] = all_lims[k]   -> restriction marker
        if isinstance(node, ast.For) and isinstance(node.target, ast.Name) and len(node.body) == 1 and isinstance(node.body[0], ast.Assign):
            a = node.body[0]
            t = a.targets[0]
            if isinstance(t, ast.Subscript) and isinstance(t.value, ast.Name) and isinstance(t.slice, ast.Name) and t.slice.id == node.target.id \
                    and isinstance(a.value, ast.Subscript) and isinstance(a.value.value, ast.Name) and isinstance(a.value.slice, ast.Name) and a.value.slice.id == node.target.id \
                    and ast.unparse(node.iter) == "self._get_limits()":
                src = st.env.get(a.value.value.id)
                st.env[t.value.id] = Sym(("RESTRICT", vkey(src), "self._get_limits()"))
                return [(st, None)]
        return None


def r2_r4(model, rep):
    rel = model.rel("components")
    owner, fn = model.method("_Component", "_solv_get_warns")
    where = "%s:%d" % (rel, fn.lineno)
    for kind in KINDS:
        o, _ = model.method(kind, "_solv_get_warns")
        if o != "_Component":
            raise AnalysisError("%s overrides _solv_get_warns" % kind)
    ps = [a.arg for a in fn.args.args][1:]
    if len(ps) != 7:
        raise AnalysisError("_solv_get_warns has %d parameters" % len(ps))
    VI, VO, II, IO, TA, PH, PC = ps
    sm = Summarizer(GwHooks(model, None), Ctx())
    args = {"self": Sym(("name", "self")), VI: fr("vi"), VO: fr("vo"), II: fr("ii"), IO: fr("io"), TA: fr("ta"),
            PH: Sym(("name", "phase")), PC: Sym(("name", "phase_conf"))}
    leaves = sm.summarize(fn, args)
    # R4: silence exactly for the kinds the statement names (converter, regulator, switch, mux, load - the kinds that can be inactive in a
    # phase) when they have a phase table that does not list the phase; a source, a series loss and a rectifier are always evaluated
    TYPES = ["SOURCE", "LOAD", "SLOSS", "CONVERTER", "LINREG", "PSWITCH", "PMUX", "RECTIFIER"]
    SLEEPERS = {"LOAD", "CONVERTER", "LINREG", "PSWITCH", "PMUX"}
    enum_cls = model.cls("_ComponentTypes")
    have = sorted(t.id for st_ in enum_cls.body if isinstance(st_, ast.Assign) for t in st_.targets if isinstance(t, ast.Name))
    if have != sorted(TYPES):
        raise AnalysisError("_ComponentTypes has members %s: the silence table is not classified for them" % have)

    def teq(t):
        return ("EQ",) + tuple(sorted([Sym(("CT", t)), Sym(("CTYPE",))], key=repr))
    tatoms = {teq(t): t for t in TYPES}
    PCa, INa = ("B", "PC"), ("B", "IN")
    ok4, ok2 = True, True
    got_all = None
    extra = set()
    for lf in leaves:
        for g in lf.guards:
            atoms_of(g, extra)
    free = [PCa, INa] + sorted(extra - set(tatoms) - {PCa, INa}, key=repr)
    if len(free) > 8:
        raise AnalysisError("_solv_get_warns: too many guard atoms")
    for ctype, bits in itertools.product(TYPES, itertools.product((False, True), repeat=len(free))):
        al = dict(zip(free, bits))
        for ta_, t in tatoms.items():
            al[ta_] = (t == ctype)
        hit = [lf for lf in leaves if ev(lf.cond(), al) is True]
        if len(hit) != 1:
            raise AnalysisError("_solv_get_warns: guard rows are not a partition")
        lf = hit[0]
        silent_wanted = ctype in SLEEPERS and al[PCa] and not al[INa]
        is_silent = lf.kind == "return" and lf.value == ""
        if silent_wanted != is_silent:
            ok4 = False
            rep.violation("R4", "components._Component._solv_get_warns", where,
                          "warnings are %s for a component of type %s%s whose phase table %s the phase" % (
                              "suppressed" if is_silent else "evaluated", ctype,
                              "" if al[PCa] else " without phase table", "lists" if al[INa] else "does not list"),
                          "silence type=%s PC=%s IN=%s" % (ctype, al[PCa], al[INa]))
        if not is_silent:
            # R2: the compared quantities
            if lf.kind != "return" or not (isinstance(lf.value, Sym) and lf.value.key[0] == "call" and lf.value.key[1] == "_get_warns"):
                raise AnalysisError("_solv_get_warns does not end in _get_warns(limits, quantities)")
            a0, a1 = lf.value.key[2][0], lf.value.key[2][1]
            if a0 != Sym(("attr", Sym(("name", "self")), "_limits")):
                ok2 = False
                rep.violation("R2", "components._Component._solv_get_warns", where, "limits are taken from %s, not from the component's own limits" % show_value(a0), "limits source")
            if not (isinstance(a1, Sym) and a1.key[0] == "RESTRICT"):
                raise AnalysisError("_solv_get_warns: the compared quantities are not the applicable subset of one table")
            got_all = a1.key[1]
    rep.instance("R4", "components._Component._solv_get_warns phase silence", where, ok4, "%d leaves" % len(leaves))
    if got_all is None or not isinstance(got_all, DictV):
        raise AnalysisError("_solv_get_warns: quantity table not read")
    PL = Sym(("call", "self._solv_pwr_loss", (fr("vi"), fr("vo"), fr("ii"), fr("io"), fr("ta"), Sym(("name", "phase")), Sym(("name", "phase_conf")))))

    def pl(i):
        return to_num(Sym(("sub", PL, lift(i))))
    want = {"vi": fr("vi"), "vo": fr("vo"), "vd": abs_(fr("vi")) - abs_(fr("vo")), "ii": fr("ii"), "io": fr("io"),
            "pi": pl(0), "po": pl(0) - pl(1), "pl": pl(1), "tr": pl(3), "tp": pl(4)}
    got = {k: v for k, v in got_all.items}
    for k in ALL_KEYS:
        g = got.get(k)
        good = g is not None and to_num(g) == want[k]
        if not good:
            ok2 = False
            rep.violation("R2", "components._Component._solv_get_warns", where, "limit key '%s' is compared against %s, expected %s" % (k, show_value(g) if g is not None else "nothing", show_value(want[k])), "quantity %s = %s" % (k, show_value(g) if g is not None else "missing"))
    extra = set(got) - set(ALL_KEYS)
    if extra:
        ok2 = False
        rep.violation("R2", "components._Component._solv_get_warns", where, "unknown limit keys %s" % sorted(extra), "extra keys")
    rep.instance("R2", "components._Component._solv_get_warns quantities", where, ok2, "%d keys" % len(got))


# ------------------------------------------------------------------------------------------------ R3
def r3(model, rep):
    rel = model.rel("components")
    n = 0
    for kind in KINDS:
        owner, fn = model.method(kind, "_get_limits")
        doc = ast.get_docstring(model.cls(kind)) or ""
        m = re.search(r"The following limits apply:\s*([a-z, ]+)", doc)
        if not m:
            raise AnalysisError("class %s: 'The following limits apply' sentence not found" % kind)
        want = [x.strip() for x in m.group(1).split(",") if x.strip()]
        got = limits_list(model, owner, fn, kind)
        ok = sorted(got) == sorted(want)
        if not ok:
            rep.violation("R3", "components.%s._get_limits" % owner, "%s:%d" % (rel, fn.lineno),
                          "%s checks %s but its documentation says %s" % (kind, sorted(got), sorted(want)), "%s limits %s" % (kind, ",".join(sorted(got))))
        rep.instance("R3", "components.%s applicable limits (resolved in %s)" % (kind, owner), "%s:%d" % (rel, fn.lineno), ok, ", ".join(got))
        n += 1
    rep.floor("R3", n, 11)
    # LIMITS_DEFAULT vs module docstring
    doc = ast.get_docstring(model.tree["components"]) or ""
    rows = re.findall(r'"([a-z]{2})":\s*\[\s*([-0-9.e]+)\s*,\s*([-0-9.e]+)\s*\]', doc)
    if len(rows) < 10:
        raise AnalysisError("module docstring: LIMITS_DEFAULT table not found")
    want = {k: [float(a), float(b)] for k, a, b in rows}
    got = model.const_value("components", "LIMITS_DEFAULT")
    ok = got == want and sorted(got) == sorted(ALL_KEYS)
    if not ok:
        diff = {k: (got.get(k), want.get(k)) for k in set(got) | set(want) if got.get(k) != want.get(k)}
        rep.violation("R3", "components.LIMITS_DEFAULT", "%s:1" % rel, "default limits differ from the documented table: %s" % diff, "defaults %s" % sorted(diff))
    rep.instance("R3", "components.LIMITS_DEFAULT == documented defaults", "%s:1" % rel, ok)


def limits_list(model, owner, fn, kind=None):
    rets = [n for n in ast.walk(fn) if isinstance(n, ast.Return)]
    # return list(self.X) / tuple(self.X) / self.X with X a class-level constant sequence: the one the component's own class resolves to
    if len(rets) == 1 and kind is not None:
        v = rets[0].value
        if isinstance(v, ast.Call) and isinstance(v.func, ast.Name) and v.func.id in ("list", "tuple") and len(v.args) == 1 and not v.keywords:
            v = v.args[0]
        if isinstance(v, ast.Attribute) and isinstance(v.value, ast.Name) and v.value.id in ("self", "cls") and \
                not any(isinstance(x, ast.Attribute) and x.attr == v.attr and isinstance(x.ctx, (ast.Store, ast.Del)) for t in model.tree.values() for x in ast.walk(t)):
            cdef, node = model.class_attr(kind, v.attr)
            if node is not None:
                if isinstance(node, (ast.List, ast.Tuple)) and all(isinstance(e, ast.Constant) and isinstance(e.value, str) for e in node.elts):
                    return [e.value for e in node.elts]
                if ast.unparse(node) in ("tuple(LIMITS_DEFAULT)", "list(LIMITS_DEFAULT)", "tuple(LIMITS_DEFAULT.keys())", "list(LIMITS_DEFAULT.keys())"):
                    return list(model.const_value("components", "LIMITS_DEFAULT").keys())
    if len(rets) == 1 and isinstance(rets[0].value, ast.List) and all(isinstance(e, ast.Constant) for e in rets[0].value.elts):
        return [e.value for e in rets[0].value.elts]
    # base class: every key of LIMITS_DEFAULT
    loops = [x for x in ast.walk(fn) if isinstance(x, ast.For)]
    if len(loops) == 1 and isinstance(loops[0].target, ast.Name) and ast.unparse(loops[0].iter) in ("LIMITS_DEFAULT", "LIMITS_DEFAULT.keys()") \
            and len(loops[0].body) == 1 and len(rets) == 1 and isinstance(rets[0].value, ast.Name):
        b = loops[0].body[0]
        k, acc = loops[0].target.id, rets[0].value.id
        if (isinstance(b, ast.AugAssign) and ast.unparse(b).replace(" ", "") == "%s+=[%s]" % (acc, k)) or \
                (isinstance(b, ast.Expr) and ast.unparse(b).replace(" ", "") == "%s.append(%s)" % (acc, k)):
            return list(model.const_value("components", "LIMITS_DEFAULT").keys())
    if len(rets) == 1 and ast.unparse(rets[0].value) in ("list(LIMITS_DEFAULT)", "list(LIMITS_DEFAULT.keys())"):
        return list(model.const_value("components", "LIMITS_DEFAULT").keys())
    raise AnalysisError("%s._get_limits is not a constant list" % owner)


def appends_const(stmt, name, text):
    """x += [text]  or  x.append(text)"""
    if isinstance(stmt, ast.AugAssign) and sysrules.is_name(stmt.target, name) and isinstance(stmt.value, ast.List) and len(stmt.value.elts) == 1:
        e = stmt.value.elts[0]
        return isinstance(e, ast.Constant) and e.value == text
    if isinstance(stmt, ast.Expr) and isinstance(stmt.value, ast.Call) and isinstance(stmt.value.func, ast.Attribute) and stmt.value.func.attr == "append" \
            and sysrules.is_name(stmt.value.func.value, name) and len(stmt.value.args) == 1:
        e = stmt.value.args[0]
        return isinstance(e, ast.Constant) and e.value == text
    return False


# ------------------------------------------------------------------------------------------------ R5
def r5(model, rep):
    r = sysrules.roles(model)
    rel = model.rel("system")
    an, leaves, sl = sysrules.row_summary(model, r)
    where = "%s:%d" % (rel, an["row"].lineno)
    dom_var, w_var = an["chan"]["Domain"], an["chan"]["Warnings"]
    ok = True
    nleaf = 0
    flagmap = None
    for lf in leaves:
        if lf.kind == "raise":
            continue
        nleaf += 1
        dv = lf.env[dom_var].items[0]
        wv = lf.env[w_var].items[0]
        lits = {}
        for g in lf.guards:
            literals(g, True, lits)
        is_src = warned = None
        for k, v in lits.items():
            if k[0] == "EQ" and "SOURCE" in k[1:]:
                is_src = v
            if k[0] == "EQ" and "" in k[1:] and wv in k[1:]:
                warned = not v
        if is_src is None and warned is None:
            raise AnalysisError("row path does not decide (source?, warning?)")
        maps = [(name, val.get(vkey(dv))) for name, val in lf.env.items() if isinstance(val, DictV) and val.get(vkey(dv)) is not None
                and ((isinstance(val.get(vkey(dv)), RF) and val.get(vkey(dv)).is_const()) or isinstance(val.get(vkey(dv)), bool))]
        val = maps[0][1] if maps else None
        if maps:
            flagmap = maps[0][0]
        # a flag kept as True / False is the flag kept as 1 / 0
        have = None if val is None else (int(val) if isinstance(val, bool) else val.const_value())
        # a path that does not look at one of the two questions is taken for both answers: what it leaves in the flag holds for both
        for src_case in ([is_src] if is_src is not None else [True, False]):
            for warn_case in ([warned] if warned is not None else [True, False]):
                want = 1 if warn_case else (0 if src_case else None)
                if (want is None) != (have is None) or (want is not None and have != want):
                    ok = False
                    rep.violation("R5", "system.System.solve", where, "after a %s row %s a warning the subsystem flag of its domain is %s, expected %s" % (
                        "source" if src_case else "component", "with" if warn_case else "without", have, want), "flag src=%s warn=%s -> %s" % (src_case, warn_case, have))
    rep.instance("R5", "system.System.solve per-domain warning flag", where, ok, "%d row paths" % nleaf)
    if flagmap is None:
        raise AnalysisError("per-domain warning flag not found")
    # 'Yes' iff flag set (subsystem rows) / iff any warning (total row)
    ploop = an["phase_loop"]
    wname = w_var
    ok = False
    for s in ast.walk(ploop):
        if isinstance(s, ast.If) and flagmap in {n.id for n in ast.walk(s.test) if isinstance(n, ast.Name)}:
            t = ast.unparse(s.test).replace(" ", "")
            yes = [a for a in s.body if appends_const(a, wname, "Yes")]
            no = [a for a in s.orelse if appends_const(a, wname, "")]
            if yes and no and (t.endswith(">0") or t.endswith("==1") or t.endswith("!=0") or t.startswith("0<") or t.startswith("1==") or t.startswith("0!=")
                               or (isinstance(s.test, ast.Subscript) and isinstance(s.test.value, ast.Name) and s.test.value.id == flagmap)):
                ok = True
    if not ok:
        # is there any if on the flag map that appends 'Yes' / '' at all?  if not, the roll-up is written in a form this rule
        # does not read (e.g. a comprehension over the sources)
        cand = [s for s in ast.walk(ploop) if isinstance(s, ast.If) and flagmap in {n.id for n in ast.walk(s.test) if isinstance(n, ast.Name)}
                and any(appends_const(a, wname, "Yes") or appends_const(a, wname, "") for a in s.body + s.orelse)]
        if not cand:
            raise AnalysisError("solve: the Subsystem rows' warning cell is not written by an if / else on the per-domain flag: roll-up not readable")
        rep.violation("R5", "system.System.solve", where, "a Subsystem row does not say 'Yes' exactly when its domain's flag is set", "subsystem yes")
    rep.instance("R5", "system.System.solve Subsystem row says Yes iff flag", where, ok)
    ok = False
    for s in ast.walk(ploop):
        if isinstance(s, ast.If) and ast.unparse(s.test) in ("any(%s)" % wname, "any([x != '' for x in %s])" % wname, "any((x != '' for x in %s))" % wname):
            yes = [a for a in s.body if appends_const(a, wname, "Yes")]
            no = [a for a in s.orelse if appends_const(a, wname, "")]
            if yes and no:
                ok = True
    if not ok:
        rep.violation("R5", "system.System.solve", where, "System total does not say 'Yes' exactly when any row has a warning", "total yes")
    rep.instance("R5", "system.System.solve System total says Yes iff any warning", where, ok)


# ------------------------------------------------------------------------------------------------ R7
def r7(model, rep):
    """the [min, max] pair compared in _get_warns is the pair the user configured"""
    rel = model.rel("components")
    fn = model.func("components", "_check_limits")
    where = "%s:%d" % (rel, fn.lineno)
    P = fn.args.args[0].arg
    ok = True
    for x in ast.walk(fn):
        tg = x.targets if isinstance(x, (ast.Assign, ast.Delete)) else ([x.target] if isinstance(x, (ast.AugAssign, ast.AnnAssign)) else [])
        for t in tg:
            b = t
            while isinstance(b, (ast.Subscript, ast.Attribute)):
                b = b.value
            if isinstance(b, ast.Name) and b.id == P and (t is not b):
                ok = False
                rep.violation("R7", "components._check_limits", "%s:%d" % (rel, x.lineno), "the validator rewrites the limits it checks (%s): the pair compared later is not the pair that was configured" % ast.unparse(x)[:80], "limits rewritten by validator")
            elif isinstance(b, ast.Name) and b.id == P and t is b:
                ok = False
                rep.violation("R7", "components._check_limits", "%s:%d" % (rel, x.lineno), "the validator re-binds its argument before returning it", "limits rebound by validator")
        if isinstance(x, ast.Call) and isinstance(x.func, ast.Attribute) and x.func.attr in ("sort", "reverse", "update", "pop", "clear", "setdefault", "append", "insert", "remove"):
            b = x.func.value
            while isinstance(b, (ast.Subscript, ast.Attribute)):
                b = b.value
            if isinstance(b, ast.Name) and b.id == P:
                ok = False
                rep.violation("R7", "components._check_limits", "%s:%d" % (rel, x.lineno), "the validator modifies the limits it checks (%s)" % ast.unparse(x)[:80], "limits modified by validator")
    rets = [x for x in ast.walk(fn) if isinstance(x, ast.Return)]
    if not rets or any(not (isinstance(x.value, ast.Name) and x.value.id == P) for x in rets):
        ok = False
        rep.violation("R7", "components._check_limits", where, "the validator does not return the limits it was given", "validator return")
    rep.instance("R7", "components._check_limits passes the limits through unchanged", where, ok)
    # writers of _limits: constructors only, and only with the validator's result
    n = 0
    for mod, qn, f in model.all_functions():
        for x in ast.walk(f):
            tg = x.targets if isinstance(x, (ast.Assign, ast.Delete)) else ([x.target] if isinstance(x, (ast.AugAssign, ast.AnnAssign)) else [])
            for t in tg:
                b, depth = t, 0
                while isinstance(b, ast.Subscript):
                    b, depth = b.value, depth + 1
                if isinstance(b, ast.Attribute) and b.attr == "_limits":
                    n += 1
                    good = depth == 0 and isinstance(x, ast.Assign) and qn.endswith(".__init__") and ((isinstance(x.value, ast.Call) and ast.unparse(x.value.func) == "_check_limits") or (isinstance(x.value, ast.Name) and x.value.id == "LIMITS_DEFAULT"))
                    if not good:
                        rep.violation("R7", "%s.%s" % (mod, qn), "%s:%d" % (model.rel(mod), x.lineno), "%s writes the component limits outside the constructor's validated assignment (%s)" % (qn, ast.unparse(x)[:80]), "limits written in " + qn)
                        ok = False
    rep.instance("R7", "_limits is written only as _check_limits(limits) in constructors", where, ok, "%d write sites" % n)
    rep.floor("R7", n, 11)
