"""C14 - the tree stays well-formed under any sequence of edits (DESIGN.md section 4, C14)."""
from .. import sysrules, editrules

EXPLANATION = (
    "Check-dominates-mutation obligations, one frozen table per edit method (sa/editrules.py OBLIGATIONS, one line of reason "
    "each): the well-formedness invariant is assumed at entry and each obligation is what re-establishes one conjunct at exit. "
    "Every edit method is summarised into its paths (private helpers _chk_* inlined, loops abstracted to one symbolic "
    "iteration, branch decisions interleaved with the effects); on every accepting path the guards taken BEFORE the first "
    "graph/registry modification must propositionally imply each obligation, which is itself written as reference code and "
    "read by the same engine into the same canonical atoms (so how a check is spelled, in which helper it lives and in "
    "which order the checks come is free). (R2) the eight non-load kinds admit every child type but SOURCE and loads admit "
    "none; (R3) del_comp(del_childs=False) re-links every child to exactly one parent, the deleted node's first. Limit: the "
    "obligation table is hand-written from the invariant, not derived.")


def run(model, rep, tier):
    rep.explanation = EXPLANATION
    r = sysrules.roles(model)
    A = rep.attempt
    A(editrules.c14_obligations, model, rep, r)
    A(editrules.child_types_rule, model, rep)
    A(editrules.relink_rule, model, rep, r, "R3")
    A(editrules.link_direction_rule, model, rep, r, "R3")
