"""C05 - PMux feeds from exactly the first live input, and is reported so (DESIGN.md section 4, C05)."""
import ast
from ..core import KINDS, AnalysisError
from ..laws import check_against_spec, LawHooks, is_dead_row
from ..guards import Ctx, And, Not, A, atoms_of, ev, show_f
from ..summ import Summarizer, State, Sym, Vec, show_value
from ..idioms import first_match, const_int
from .. import sysrules

EXPLANATION = (
    "(R1) PMux._get_pri_inp is recognised as the first-match scan FIRST(i -> not off[i] and |v[i]| != 0, -1) over the "
    "inputs in ascending order (idiom matcher; the condition is compared as a truth table; a scan written as a tree of exits "
    "is decided by its exit conditions and exit values: giving up before the last input is a violation), and only PMux overrides the "
    "base selection (always input 0); (R2) the declared order is the order used: add_comp stores the parents' node "
    "indices in the order given, _get_parents reads them back position by position, and the unordered "
    "predecessor_indices() is consumed nowhere else; (R3) the mux's current is drawn from the selected input only "
    "(child-current sum, C01-R5); (R4) the mux laws use one index for input voltage, per-input resistance and lookup "
    "(reference comparison); (R5) the mux row of solve() names the selected input as Parent / Rail in and shows its "
    "voltage as Vin, and _find_domain walks from the first input with non-zero voltage to its root; (R6) with no live "
    "input the mux laws are on the dead rows of table D.")


def run(model, rep, tier):
    rep.explanation = EXPLANATION
    r = sysrules.roles(model)
    A = rep.attempt
    A(r1, model, rep)
    A(r2, model, rep, r)
    # R3 child current sum (shared with C01-R5)
    A(sysrules.child_current_rule, model, rep, r, "R3")
    A(lambda: rep.floor("R4", check_against_spec(model, rep, "R4", ["PMux"], "IV", label=" one index for v, rs, lookup"), 4))
    A(sysrules.row_assembly, model, rep, r, "R5", ["Parent", "Rail in", "Vin (V)"])
    A(sysrules.find_domain_rule, model, rep, r, "R5")
    A(sysrules.object_state_rule, model, rep, r, "R5")
    A(lambda: rep.floor("R6", check_against_spec(model, rep, "R6", ["PMux"], "IVP", want_rows=lambda a, s, k, z: is_dead_row(a, k), label=" no live input"), 6))


def r1(model, rep):
    rel = model.rel("components")
    owner, fn = model.method("PMux", "_get_pri_inp")
    from ..core import inline_pure_aliases
    fn = inline_pure_aliases(fn)
    where = "%s:%d" % (rel, fn.lineno)
    construct = "components.%s._get_pri_inp" % owner
    ok = owner == "PMux"
    if not ok:
        rep.violation("R1", construct, where, "PMux does not define its own input selection", "no override")
    params = [a.arg for a in fn.args.args][1:]
    if len(params) != 2:
        raise AnalysisError("_get_pri_inp has %d parameters" % len(params))
    PS, VI = params
    body = [s for s in fn.body if not (isinstance(s, ast.Expr) and isinstance(s.value, ast.Constant))]
    fm = first_match(body, "PMux._get_pri_inp")
    if not fm.first:
        ok = False
        rep.violation("R1", construct, where, "the scan selects the LAST live input (scan direction / stop discipline), not the first", "scan selects last")
    # the scan ranges over all inputs
    over = ast.unparse(fm.over).replace("'", '"')
    if over not in ('%s["off"]' % PS, VI):
        ok = False
        rep.violation("R1", construct, where, "the scan ranges over %s, not over the inputs" % over, "scan domain " + over)
    if const_int(fm.default) != -1:
        ok = False
        rep.violation("R1", construct, where, "the scan's default is %s, expected -1 (no live input)" % ast.unparse(fm.default), "scan default")
    # what is returned is the scan result
    if fm.form[0] in "AB":
        rets = [n for n in ast.walk(fn) if isinstance(n, ast.Return)]
        if not (len(rets) == 1 and isinstance(rets[0].value, ast.Name) and rets[0].value.id == fm.result):
            ok = False
            rep.violation("R1", construct, where, "the selection does not return the scan result", "scan return")
    # condition as a truth table:  not off[i] and |v[i]| != 0
    hooks = LawHooks(model, "PMux")
    sm = Summarizer(hooks, Ctx())
    env = {PS: Sym(("name", "pstate")), VI: Vec("vi"), fm.var: Sym(("name", "k"))}
    if fm.form == "D":
        # a tree of exits: the scan ends at the first input for which any exit condition holds, with that exit's value
        exits = []
        for conds, val in fm.paths:
            fs = [sm.cond(t, State(dict(env))) if pol else Not(sm.cond(t, State(dict(env)))) for t, pol in conds]
            exits.append((And(*fs) if fs else True, val))
        from ..guards import Or
        got = Or(*[f for f, val in exits if isinstance(val, ast.Name) and val.id == fm.var]) if any(isinstance(val, ast.Name) and val.id == fm.var for _, val in exits) else False
        for f, val in exits:
            if not (isinstance(val, ast.Name) and val.id == fm.var):
                al_atoms = sorted(atoms_of(f), key=repr) if f is not True else []
                import itertools as _it
                if f is True or any(ev(f, dict(zip(al_atoms, bits))) is True for bits in _it.product((False, True), repeat=len(al_atoms))):
                    ok = False
                    rep.violation("R1", construct, where, "the scan gives up with %s at the first input for which %s, without looking at the inputs after it" % (ast.unparse(val) if val is not None else "None", show_f(f) if f is not True else "anything"), "scan abandons at " + (show_f(f) if f is not True else "first"))
    else:
        got = sm.cond(fm.cond, State(env))
    ref = ast.parse('not pstate["off"][k] and abs(vi[k]) != 0.0', mode="eval").body
    want = sm.cond(ref, State({"pstate": Sym(("name", "pstate")), "vi": Vec("vi"), "k": Sym(("name", "k"))}))
    atoms = sorted(atoms_of(got) | atoms_of(want), key=repr)
    import itertools
    same = True
    for bits in itertools.product((False, True), repeat=len(atoms)):
        al = dict(zip(atoms, bits))
        if ev(got, al) != ev(want, al):
            same = False
    if not same:
        ok = False
        rep.violation("R1", construct, where, "an input counts as live when %s, expected %s" % (show_f(got), show_f(want)), "live test " + show_f(got))
    rep.instance("R1", construct + " first live input", where, ok, "form %s" % fm.form)
    rep.sample({"selection": {"form": fm.form, "over": over, "condition": show_f(got), "default": -1}})
    # the laws call the selection with (parent states, input voltages), in this order
    from ..laws import summarize_law, METH
    okc = True
    ncall = 0
    for which in "IV":
        o2, f2, lv, _ = summarize_law(model, "PMux", which, False)
        for lf in lv:
            for e in lf.events:
                if e[0] == "pri":
                    ncall += 1
                    if not (e[1] == Sym(("name", "pstate")) and isinstance(e[2], Vec) and e[2].name == "vi"):
                        okc = False
                        rep.violation("R1", "components.PMux.%s" % METH[which], "%s:%d" % (rel, e[3]), "the input selection is called with (%s, %s), expected (parent states, input voltages)" % (show_value(e[1]), show_value(e[2])), "selection operands")
    if ncall == 0:
        raise AnalysisError("PMux laws do not call the input selection")
    rep.instance("R1", "components.PMux laws call the selection with (states, voltages)", where, okc, "%d call sites on %s paths" % (ncall, "all"))
    # base class: always input 0; nobody else overrides
    bowner, bfn = model.method("_Component", "_get_pri_inp")
    rets = [n for n in ast.walk(bfn) if isinstance(n, ast.Return)]
    okb = len(rets) == 1 and const_int(rets[0].value) == 0
    if not okb:
        rep.violation("R1", "components._Component._get_pri_inp", "%s:%d" % (rel, bfn.lineno), "the single-input selection does not return input 0", "base selection")
    for kind in KINDS:
        if kind == "PMux":
            continue
        o, _ = model.method(kind, "_get_pri_inp")
        if o != "_Component":
            okb = False
            rep.violation("R1", "components.%s._get_pri_inp" % o, "%s:%d" % (rel, model.method(kind, "_get_pri_inp")[1].lineno), "%s overrides the input selection" % kind, "override " + kind)
    rep.instance("R1", "components.*._get_pri_inp single-input kinds select input 0", "%s:%d" % (rel, bfn.lineno), okb)


ORDER_BREAKERS = {"sorted", "set", "reversed", "frozenset"}


def r2(model, rep, r):
    rel = model.rel("system")
    add = model.own_method("System", "add_comp")
    if add is None:
        raise AnalysisError("System.add_comp not found")
    where = "%s:%d" % (rel, add.lineno)
    # the order registry: registry stored with a node-index key and a list value in add_comp
    reg = sysrules.order_registry(model)
    rep.extra["order_registry"] = reg
    ok = True
    stores = [s for s in ast.walk(add) if isinstance(s, ast.Assign) and sysrules.is_registry_sub(s.targets[0], reg)]
    if len(stores) != 1 or not isinstance(stores[0].value, ast.Name):
        raise AnalysisError("add_comp does not store one named list into registry %s" % reg)
    stored = stores[0].value.id
    # no store into the order registry, anywhere, may pass through an order-destroying operation
    broke = sysrules.order_breakers(model, rep, reg, "R2")
    if broke:
        ok = False
    # provenance of the stored list: built by appending one entry per declared parent, in order
    chain = sysrules.list_provenance(add, stored)
    if chain is None:
        if not broke:
            raise AnalysisError("provenance of the stored input order is not a recognised build-up")
        src_list = stored
    else:
        src_list, per_item = chain
        plist_src = sysrules.simple_provenance(add, src_list)
        pname = add.args.args[1].arg
        allowed = {pname, "[%s]" % pname}
        if not plist_src or not set(plist_src) <= allowed:
            ok = False
            rep.violation("R2", "system.System.add_comp", where, "the stored input order is derived from %s, not from the declared parent list" % sorted(plist_src or ["?"]), "order source")
    # first edge goes to the first listed parent, the others follow in order (graph links agree with the registry)
    rep.instance("R2", "system.System.add_comp stores the declared order", where, ok, "registry %s <- %s built from %s" % (reg, stored, src_list))
    # reader
    gp = model.own_method("System", "_get_parents")
    okr = sysrules.parents_reader_rule(model, rep, gp, reg, "R2")
    rep.instance("R2", "system.System._get_parents reads the stored order position by position", "%s:%d" % (rel, gp.lineno), okr)
    sysrules.relation_table_rule(model, rep, "R2")
    # who consumes the unordered predecessor view
    okc = True
    users = []
    for mod, qn, fn in model.all_functions():
        for n in ast.walk(fn):
            if isinstance(n, ast.Attribute) and n.attr in ("predecessor_indices", "predecessors", "in_edges"):
                users.append((mod, qn, n.lineno, fn))
    for mod, qn, line, ufn in users:
        if not (mod == "system" and qn == "System._get_parents") and not (mod == "system" and sysrules.reads_back_in_order(model, ufn, reg)):
            okc = False
            rep.violation("R2", "%s.%s" % (mod, qn), "%s:%d" % (model.rel(mod), line), "the unordered predecessor view of the graph is consumed outside _get_parents", "predecessor consumer " + qn)
    rep.instance("R2", "unordered predecessor view consumed only by _get_parents", "%s:%d" % (rel, gp.lineno), okc, "%d use(s)" % len(users))
    if not users:
        raise AnalysisError("no consumer of predecessor_indices found (anchor vanished)")
