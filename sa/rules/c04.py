"""C04 - a dead supply rail isolates everything below it (DESIGN.md section 4, C04)."""
from ..core import KINDS, AnalysisError
from ..laws import check_against_spec, summarize_law, METH, is_dead_row, is_sleep_row, rows, LawHooks
from ..terms import RF, lift
from ..guards import Ctx
from ..summ import Summarizer, Sym, show_value, to_num
from .. import sysrules

EXPLANATION = (
    "Induction over the tree, each step decided statically: (R1) all 33 law summaries equal the dead/sleep table D on "
    "the rows where the supply is 0 V or off, the mux has no live input, the source is programmed to 0 V, or the "
    "component is phase-inactive (sleep current from a live supply, sleep power dissipated, 0 V out); (R2) every "
    "output-voltage leaf that reports state OFF returns the literal 0 V, so deadness is visible to the children through "
    "the voltage alone; (R3) the state vector carried by the solver is the forward pass's own result, _sys_init seeds "
    "each node from its own parents and its own phase table, and Source._get_state is OFF exactly for 0 V or sleep. With "
    "C01-R4/R5/R6 a child of a dead node sees 0 V, hence is on a D row itself; (R4) the reported Vin / Vout / Iin / Power / "
    "Loss of a row are the laws evaluated on the row's own operands and the parent / child tables are rebuilt "
    "unconditionally before use. Not decided: that the off state has "
    "finished propagating when the tolerance test stops the iteration (C03).")


def run(model, rep, tier):
    rep.explanation = EXPLANATION

    def want(alpha, sleaf, kind, zero):
        return (zero and kind != "Source") or is_dead_row(alpha, kind) or is_sleep_row(alpha)
    A = rep.attempt
    A(lambda: rep.floor("R1", check_against_spec(model, rep, "R1", KINDS, "IVP", want_rows=want, label=" dead/sleep rows"), 66))
    A(r2, model, rep)
    A(r3, model, rep)
    # the reported row of a dead / sleeping component is the law evaluated on that component's own operands, and the
    # parent / child tables the propagation relies on are rebuilt before every analysis
    A(lambda: sysrules.row_assembly(model, rep, sysrules.roles(model), "R4", ["Vin (V)", "Vout (V)", "Iin (A)", "Power (W)", "Loss (W)"]))
    from .c16 import rel_update_rule
    A(rel_update_rule, model, rep, sysrules.roles(model))


def r2(model, rep):
    rel = model.rel("components")
    n = 0
    for kind in KINDS:
        for zero in (False, True):
            owner, fn, leaves, ctx = summarize_law(model, kind, "V", zero)
            construct = "components.%s.%s" % (kind, METH["V"])
            ok = True
            for lf in leaves:
                if lf.kind != "return":
                    continue
                if not (isinstance(lf.value, tuple) and len(lf.value) == 2):
                    raise AnalysisError("%s does not return (voltage, state)" % construct)
                volt, state = lf.value
                if state == Sym(("STATE", "OFF")) and not to_num(volt).is_zero():
                    ok = False
                    rep.violation("R2", construct, "%s:%d" % (rel, lf.line), "state OFF is returned with output voltage %s, not 0" % show_value(volt), "OFF with " + show_value(volt))
                if state not in (Sym(("STATE", "OFF")), Sym(("STATE", "DEF"))):
                    raise AnalysisError("%s returns an unrecognised state %s" % (construct, show_value(state)))
            rep.instance("R2", construct + (" [vi=0]" if zero else " [vi!=0]") + " OFF => 0 V", "%s:%d" % (rel, fn.lineno), ok)
            n += 1
    rep.floor("R2", n, 22)


def r3(model, rep):
    rel = model.rel("components")
    # Source._get_state
    owner, fn = model.method("Source", "_get_state")
    sm = Summarizer(LawHooks(model, "Source"), Ctx())
    leaves = sm.summarize(fn, {"self": Sym(("name", "self")), "phase": Sym(("name", "phase")), "phase_conf": Sym(("name", "phase_conf"))})
    ok = True
    nrows = 0
    for alpha, lf, mp, rctx in rows(leaves, Ctx(), extra_atoms=[("Z", ("m", "P.vo")), ("B", "PC"), ("B", "IN")]):
        nrows += 1
        dead = alpha[("Z", ("m", "P.vo"))] or (alpha[("B", "PC")] and not alpha[("B", "IN")])
        want = Sym(("STATE", "OFF")) if dead else Sym(("STATE", "DEF"))
        if lf.kind != "return" or lf.value != want:
            ok = False
            rep.violation("R3", "components.Source._get_state", "%s:%d" % (rel, fn.lineno),
                          "initial state is %s where %s is required" % (show_value(lf.value), show_value(want)), "state %s/%s" % (show_value(lf.value), show_value(want)))
    rep.instance("R3", "components.Source._get_state", "%s:%d" % (rel, fn.lineno), ok, "%d rows" % nrows)
    rep.attempt(sysrules.c04_propagation, model, rep)
    rep.attempt(lambda: sysrules.phase_lookup_rule(model, rep, sysrules.roles(model), "R3"))
    rep.attempt(sysrules.phase_conf_writers_rule, model, rep, "R3")
