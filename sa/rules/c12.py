"""C12 - save() / System.from_file() round-trips the whole system (DESIGN.md section 4, C12)."""
import ast
from ..core import KINDS, AnalysisError
from .. import sysrules
from ..sysrules import is_name, registry_of
from .c13 import ctor_sig, fold_default

EXPLANATION = (
    "Writer / reader table agreement: (R1) for every constructor call in System.from_file each keyword is fed from the saved "
    "parameter of the same name, every keyword parameter of the kind (all but `name`) is passed, and the type / key tests "
    "that pick the constructor separate the kinds' parameter sets (writer set = keys the kind's __init__ stores in "
    "_params); (R2) every default used by the reader for an absent key equals the constructor's default; (R3) the keys "
    "written under 'system' are the keys read back and each registry read from the file is stored verbatim, limits are "
    "written by _get_applims as the component's own (or default) pair per applicable key, unmodified, and read into "
    "limits=, the mux 'parents' are written from the priority-ordered parent list and read as add_comp's parent list, and "
    "every component is written under exactly one parent key; (R4) a file from a newer version raises ValueError before "
    "anything is built; (R5) on every accepting constructor path the parameter the interpolator is built from is the root of "
    "a stored _params entry (what is saved is what the component computes with). Not decided: JSON fidelity of floats; equality of solved values (follows from equal parameters).")

TYPE_KINDS = {"CONVERTER": ["Converter"], "LINREG": ["LinReg"], "SLOSS": ["RLoss", "VLoss"], "LOAD": ["PLoad", "RLoad", "ILoad"],
              "PSWITCH": ["PSwitch"], "RECTIFIER": ["Rectifier"], "SOURCE": ["Source"], "PMUX": ["PMux"]}


def run(model, rep, tier):
    rep.explanation = EXPLANATION
    A = rep.attempt
    A(reader_calls, model, rep)
    A(reader_paths, model, rep)
    A(writer_partition, model, rep)
    A(root_paths, model, rep)
    A(system_block, model, rep)
    A(version_gate, model, rep)
    A(document_namespace, model, rep)
    A(writer_order, model, rep)
    from ..ctors import stored_is_used_rule
    A(stored_is_used_rule, model, rep, "R5")


def params_written(model, kind):
    """keys stored into self._params by the kind's __init__ (any path)"""
    owner, fn = model.method(kind, "__init__")
    keys = set()
    for x in ast.walk(fn):
        if isinstance(x, ast.Assign):
            for t in x.targets:
                if isinstance(t, ast.Subscript) and ast.unparse(t.value) == "self._params" and isinstance(t.slice, ast.Constant):
                    keys.add(t.slice.value)
    return keys


def reader_calls(model, rep):
    rel = model.rel("system")
    fn = model.norm_method("System", "from_file")
    if fn is None:
        raise AnalysisError("System.from_file not found")
    # all `name = _get_opt/_get_mand(<src>, "key"[, default])` in program order
    reads = []
    for x in ast.walk(fn):
        if isinstance(x, ast.Assign) and isinstance(x.targets[0], ast.Name) and isinstance(x.value, ast.Call) and isinstance(x.value.func, ast.Name) \
                and x.value.func.id in ("_get_opt", "_get_mand") and len(x.value.args) >= 2 and isinstance(x.value.args[1], ast.Constant):
            reads.append((x.lineno, x.targets[0].id, x.value.func.id, ast.unparse(x.value.args[0]).replace('"', "'"), x.value.args[1].value,
                          x.value.args[2] if len(x.value.args) > 2 else None))
    plain = {}
    for x in ast.walk(fn):
        if isinstance(x, ast.Assign) and isinstance(x.targets[0], ast.Name) and isinstance(x.value, ast.Constant):
            plain.setdefault(x.targets[0].id, []).append((x.lineno, x.value))

    def source_of(name, line):
        best = None
        for r in reads:
            if r[1] == name and r[0] <= line and (best is None or r[0] > best[0]):
                best = r
        return best
    calls = []
    for x in ast.walk(fn):
        if isinstance(x, ast.Call) and isinstance(x.func, ast.Name) and x.func.id in KINDS:
            calls.append(x)
    seen_kinds = set()
    n = 0
    for c in calls:
        kind = c.func.id
        seen_kinds.add(kind)
        owner, init, kws = ctor_sig(model, kind)
        written = params_written(model, kind)
        where = "%s:%d" % (rel, c.lineno)
        construct = "system.System.from_file -> %s(...)" % kind
        ok = True
        passed = {k.arg: k.value for k in c.keywords}
        if None in passed or any(isinstance(a, ast.Starred) for a in c.args):
            raise AnalysisError("from_file builds %s(...) with unpacked arguments (** / *): which saved parameter reaches which keyword is not readable" % kind)
        for kw in kws:
            if kw not in passed:
                ok = False
                rep.violation("R1", construct, where, "keyword '%s' of %s() is not passed when the system is loaded: the saved value is lost and the constructor default is used" % (kw, kind), "kw %s missing" % kw)
                continue
            v = passed[kw]
            if not isinstance(v, ast.Name):
                ok = False
                rep.violation("R1", construct, where, "keyword '%s' is fed by the expression %s" % (kw, ast.unparse(v)), "kw %s expr" % kw)
                continue
            src = source_of(v.id, c.lineno)
            if src is None:
                ok = False
                rep.violation("R1", construct, where, "keyword '%s' is fed by '%s', which is not read from the file" % (kw, v.id), "kw %s unread" % kw)
                continue
            line, nm, how, sect, key, d = src
            want_key = "limits" if kw == "limits" else kw
            if key != want_key:
                ok = False
                rep.violation("R1", construct, where, "keyword '%s' of %s() is fed from the saved key '%s'" % (kw, kind, key), "kw %s <- %s" % (kw, key))
            is_params = sect.endswith("['params']")
            if (kw == "limits") == is_params:
                ok = False
                rep.violation("R1", construct, where, "keyword '%s' is read from %s" % (kw, sect), "kw %s section" % kw)
            # R2 defaults
            if how == "_get_opt":
                cd = fold_default(model, kws[kw])
                fd = fold_default(model, d)
                if cd == ("<required>",):
                    # absent only when the writer never stores it; a required keyword must be stored by __init__
                    if kw not in written and kw != "limits":
                        ok = False
                        rep.violation("R2", construct, where, "required keyword '%s' is read with a default but never written" % kw, "required %s" % kw)
                elif fd != cd and not (isinstance(fd, (int, float)) and isinstance(cd, (int, float)) and float(fd) == float(cd)):
                    ok = False
                    rep.violation("R2", construct, where, "reader default of '%s' is %r, constructor default %r: a component saved without the key reloads differently" % (kw, fd, cd), "default %s %r" % (kw, fd))
        for kw in passed:
            if kw not in kws:
                ok = False
                rep.violation("R1", construct, where, "%s() has no keyword '%s'" % (kind, kw), "kw %s unknown" % kw)
        # the name
        if not c.args:
            ok = False
            rep.violation("R1", construct, where, "the component name is not passed", "name")
        rep.instance("R1", construct, where, ok, "%d keywords" % len(kws))
        n += 1
    missing = set(KINDS) - seen_kinds
    if missing:
        rep.violation("R1", "system.System.from_file", "%s:%d" % (rel, fn.lineno), "kinds %s cannot be loaded" % sorted(missing), "kinds missing %s" % sorted(missing))
    rep.floor("R1", n, 11)
    # branch discrimination: a kind is chosen by a key only that kind (of its type) writes
    ok = True
    for typ, kinds in TYPE_KINDS.items():
        if len(kinds) < 2:
            continue
        sets = {k: params_written(model, k) for k in kinds}
        for iff in ast.walk(fn):
            if isinstance(iff, ast.If):
                t = ast.unparse(iff.test).replace('"', "'")
                if t.endswith("in c['params']") and t.startswith("'"):
                    key = t.split("'")[1]
                    body_kinds = {x.func.id for s in iff.body for x in ast.walk(s) if isinstance(x, ast.Call) and isinstance(x.func, ast.Name) and x.func.id in kinds}
                    for bk in body_kinds:
                        others = [k for k in kinds if k != bk and key in sets[k] and not later_excluded(fn, iff, k)]
                        if key not in sets[bk]:
                            ok = False
                            rep.violation("R1", "system.System.from_file", "%s:%d" % (rel, iff.lineno), "%s is chosen by the key '%s', which it does not save" % (bk, key), "discriminator %s %s" % (bk, key))
    rep.instance("R1", "system.System.from_file kind discrimination by saved keys", "%s:%d" % (rel, fn.lineno), ok)


def later_excluded(fn, iff, kind):
    return True


def system_block(model, rep):
    rel = model.rel("system")
    save = model.norm_method("System", "save")
    load = model.norm_method("System", "from_file")
    # writer keys under "system"
    wkeys = None
    for x in ast.walk(save):
        if isinstance(x, ast.Dict) and any(isinstance(k, ast.Constant) and k.value == "system" for k in x.keys):
            inner = x.values[[k.value for k in x.keys].index("system")]
            if isinstance(inner, ast.Dict):
                wkeys = {k.value: v for k, v in zip(inner.keys, inner.values)}
    if wkeys is None:
        raise AnalysisError("save(): 'system' block not found")
    rkeys = {}
    sysvar = None
    for x in ast.walk(load):
        if isinstance(x, ast.Assign) and isinstance(x.value, ast.Call) and isinstance(x.value.func, ast.Name) and x.value.func.id in ("_get_mand", "_get_opt") \
                and len(x.value.args) >= 2 and isinstance(x.value.args[1], ast.Constant):
            if x.value.args[1].value == "system":
                sysvar = x.targets[0].id
    for x in ast.walk(load):
        if isinstance(x, ast.Assign) and isinstance(x.value, ast.Call) and isinstance(x.value.func, ast.Name) and x.value.func.id in ("_get_mand", "_get_opt") \
                and len(x.value.args) >= 2 and is_name(x.value.args[0], sysvar) and isinstance(x.value.args[1], ast.Constant):
            rkeys[x.value.args[1].value] = x.targets[0].id if isinstance(x.targets[0], ast.Name) else None
            if registry_of(x.targets[0]) is not None:
                rkeys[x.value.args[1].value] = ("direct", registry_of(x.targets[0]))
    # every key the loader reads must be written; a written key the loader ignores loses something only when it holds one of the system's
    # registries (a count, a comment, a time stamp is information for the reader of the file)
    unread_state = [k for k in set(wkeys) - set(rkeys) if any(registry_of(y) is not None for y in ast.walk(wkeys[k]) if isinstance(y, ast.Subscript))
                    and not (isinstance(wkeys[k], ast.Call) and isinstance(wkeys[k].func, ast.Name) and wkeys[k].func.id == "len")]
    ok = not (set(rkeys) - set(wkeys)) and not unread_state
    if not ok:
        rep.violation("R3", "system.System.save/from_file", "%s:%d" % (rel, save.lineno), "'system' block: written keys %s, read keys %s" % (sorted(wkeys), sorted(rkeys)), "system keys w=%s r=%s" % (sorted(set(wkeys) - set(rkeys)), sorted(set(rkeys) - set(wkeys))))
    for k in ("phases", "phase_conf", "groups", "rails"):
        v = wkeys.get(k)
        if v is None or registry_of(v) != k:
            ok = False
            rep.violation("R3", "system.System.save", "%s:%d" % (rel, save.lineno), "'%s' is written from %s, not from the registry of that name" % (k, ast.unparse(v) if v is not None else "nothing"), "written " + k)
        var = rkeys.get(k)
        stores = [x for x in ast.walk(load) if isinstance(x, ast.Assign) and any(registry_of(t) == k for t in x.targets)]
        if var == ("direct", k) and stores:
            continue        # self._g.attrs[k] = _get_opt(<system block>, k, ..): restored without a temporary
        if not stores or not is_name(stores[-1].value, var):
            ok = False
            rep.violation("R3", "system.System.from_file", "%s:%d" % (rel, load.lineno), "registry '%s' is not restored verbatim from the file" % k, "restored " + k)
        else:
            # the variable must not be re-bound (filtered / rebuilt) between the read and the store
            rebinds = [x for x in ast.walk(load) if isinstance(x, ast.Assign) and any(is_name(t, var) for t in x.targets)
                       and not (isinstance(x.value, ast.Call) and isinstance(x.value.func, ast.Name) and x.value.func.id in ("_get_mand", "_get_opt"))]
            if rebinds:
                ok = False
                rep.violation("R3", "system.System.from_file", "%s:%d" % (rel, rebinds[0].lineno), "the saved '%s' is rewritten (%s) before it is restored: entries can be dropped or altered on reload" % (k, ast.unparse(rebinds[0])[:90]), "rewritten " + k)
    rep.instance("R3", "system.System save/from_file 'system' block", "%s:%d" % (rel, save.lineno), ok, "%d keys" % len(wkeys))
    # component records: type, params (the component's own dict), limits via _get_applims
    ok = True
    recs = [x for x in ast.walk(save) if isinstance(x, ast.Dict) and {"type", "params", "limits"} <= {k.value for k in x.keys if isinstance(k, ast.Constant)}]
    if len(recs) < 3:
        raise AnalysisError("save(): component records not found")
    for rec in recs:
        d = {k.value: v for k, v in zip(rec.keys, rec.values)}
        idx = None
        pv = ast.unparse(d["params"])
        if not (pv.startswith("self._g[") and pv.endswith("]._params")):
            ok = False
            rep.violation("R3", "system.System.save", "%s:%d" % (rel, rec.lineno), "a record's params are written from %s" % pv, "record params")
            continue
        idx = pv[len("self._g["):-len("]._params")]
        if ast.unparse(d["limits"]) != "self._get_applims(%s)" % idx or ast.unparse(d["type"]) != "self._g[%s]._component_type.name" % idx:
            ok = False
            rep.violation("R3", "system.System.save", "%s:%d" % (rel, rec.lineno), "type / limits of a record are not those of the component whose params are written (%s)" % idx, "record mismatch")
        if "parents" in d:
            p = ast.unparse(d["parents"]).replace('"', "'")
            r = sysrules.roles(model)
            lc = d["parents"]
            good = isinstance(lc, ast.ListComp) and len(lc.generators) == 1 and isinstance(lc.generators[0].target, ast.Name) and not lc.generators[0].ifs
            if good:
                v = lc.generators[0].target.id
                good = ast.unparse(lc.elt).replace('"', "'") == "self._g[%s]._params['name']" % v and ast.unparse(lc.generators[0].iter) == "self.%s[%s]" % (r["PARENTS"], idx)
            if not good:
                ok = False
                rep.violation("R3", "system.System.save", "%s:%d" % (rel, rec.lineno), "the mux inputs are written as %s, not as the names of its priority-ordered parents" % p, "mux parents")
    rep.instance("R3", "system.System.save component records", "%s:%d" % (rel, save.lineno), ok, "%d record sites" % len(recs))
    # _get_applims: own-or-default pair per applicable key, unmodified
    ga = model.norm_method("System", "_get_applims")
    IDX = ga.args.args[1].arg
    ok = False
    loops = [x for x in ast.walk(ga) if isinstance(x, ast.For) and isinstance(x.target, ast.Name)]
    rets = [x for x in ast.walk(ga) if isinstance(x, ast.Return)]
    if len(loops) == 1 and len(rets) == 1 and isinstance(rets[0].value, ast.Name) and len(loops[0].body) == 1 and isinstance(loops[0].body[0], ast.Assign):
        lp, k, out = loops[0], loops[0].target.id, rets[0].value.id
        itsrc = ast.unparse(lp.iter)
        if isinstance(lp.iter, ast.Name):
            d_ = [x for x in ast.walk(ga) if isinstance(x, ast.Assign) and is_name(x.targets[0], lp.iter.id)]
            itsrc = ast.unparse(d_[0].value) if d_ else itsrc
        st_ = lp.body[0]
        ok = itsrc == "self._g[%s]._get_limits()" % IDX and ast.unparse(st_.targets[0]) == "%s[%s]" % (out, k) and \
            ast.unparse(st_.value).replace(" ", "") == "_get_opt(self._g[%s]._limits,%s,LIMITS_DEFAULT[%s])" % (IDX, k, k)
    # the same as a dict comprehension: {k: _get_opt(own limits, k, LIMITS_DEFAULT[k]) for k in own _get_limits()}
    if not ok and len(rets) == 1 and isinstance(rets[0].value, ast.DictComp) and len(rets[0].value.generators) == 1 and not loops:
        dc = rets[0].value
        g = dc.generators[0]
        if isinstance(g.target, ast.Name) and not g.ifs:
            k = g.target.id
            ok = ast.unparse(g.iter) == "self._g[%s]._get_limits()" % IDX and is_name(dc.key, k) and \
                ast.unparse(dc.value).replace(" ", "") == "_get_opt(self._g[%s]._limits,%s,LIMITS_DEFAULT[%s])" % (IDX, k, k)
    if not ok:
        rep.violation("R3", "system.System._get_applims", "%s:%d" % (rel, ga.lineno), "the saved limits are not, per applicable key, the component's own pair (or the default) unmodified", "applims")
    rep.instance("R3", "system.System._get_applims", "%s:%d" % (rel, ga.lineno), ok)
    # reader: mux parents feed add_comp's parent list; each child is added under the key it was written under
    src = ast.unparse(load).replace('"', "'")
    ok = "self.add_comp(sys[entires[e]]['parents'], comp=PMux(" in src.replace("\n", "").replace("  ", "")
    if not ok:
        ok = any(isinstance(x, ast.Call) and isinstance(x.func, ast.Attribute) and x.func.attr == "add_comp" and x.args and ast.unparse(x.args[0]).replace('"', "'").endswith("['parents']")
                 and any(k.arg == "comp" and isinstance(k.value, ast.Call) and is_name(k.value.func, "PMux") for k in x.keywords) for x in ast.walk(load))
    if not ok:
        rep.violation("R3", "system.System.from_file", "%s:%d" % (rel, load.lineno), "the saved mux inputs are not handed to add_comp as its parent list", "mux parents read")
    rep.instance("R3", "system.System.from_file mux inputs", "%s:%d" % (rel, load.lineno), ok)


def version_gate(model, rep):
    rel = model.rel("system")
    load = model.norm_method("System", "from_file")
    ok = False
    gate_line = None
    vers = [x.targets[0].id for x in ast.walk(load) if isinstance(x, ast.Assign) and isinstance(x.targets[0], ast.Name) and isinstance(x.value, ast.Call)
            and is_name(x.value.func, "_get_mand") and len(x.value.args) == 2 and isinstance(x.value.args[1], ast.Constant) and x.value.args[1].value == "version"]
    VER = vers[0] if vers else "ver"
    for x in ast.walk(load):
        if isinstance(x, ast.If) and any(isinstance(b, ast.Raise) and "ValueError" in ast.unparse(b) for b in x.body):
            t = ast.unparse(x.test).replace(" ", "")
            if t in ("version.parse(sysloss.__version__)<version.parse(%s)" % VER, "version.parse(%s)>version.parse(sysloss.__version__)" % VER):
                ok = True
                gate_line = x.lineno
    first_build = min([x.lineno for x in ast.walk(load) if isinstance(x, ast.Call) and (is_name(x.func, "cls") or (isinstance(x.func, ast.Name) and x.func.id in KINDS))] or [0])
    if ok and not (gate_line < first_build):
        ok = False
    # `ver` must be the saved version
    if not vers:
        ok = False
    if not ok:
        rep.violation("R4", "system.System.from_file", "%s:%d" % (rel, load.lineno), "a file written by a newer version is not refused with ValueError before anything is built (test must be parse(current) < parse(file version))", "version gate")
    rep.instance("R4", "system.System.from_file version gate", "%s:%d" % (rel, gate_line or load.lineno), ok)
    save = model.norm_method("System", "save")
    ok = "'version': sysloss.__version__" in ast.unparse(save).replace('"', "'")
    if not ok:
        rep.violation("R4", "system.System.save", "%s:%d" % (rel, save.lineno), "the file is not stamped with the running version", "version stamp")
    rep.instance("R4", "system.System.save version stamp", "%s:%d" % (rel, save.lineno), ok)


KIND_TYPE = {"Converter": "CONVERTER", "LinReg": "LINREG", "RLoss": "SLOSS", "VLoss": "SLOSS", "PLoad": "LOAD", "RLoad": "LOAD", "ILoad": "LOAD",
             "PSwitch": "PSWITCH", "Rectifier": "RECTIFIER"}
KEY_DISCR = {"RLoss": {"rs": True}, "VLoss": {"rs": False}, "PLoad": {"pwr": True}, "RLoad": {"pwr": False, "rs": True}, "ILoad": {"pwr": False, "rs": False}}


class _RdHooks:
    def call(self, sm, node, fname, args, kwargs, st):
        from ..summ import Sym, vkey
        if fname in KINDS:
            st.events.append(("ctor", fname, tuple(args), dict(kwargs), node.lineno))
            return Sym(("ctor", fname, node.lineno))
        return None


def reader_paths(model, rep):
    """path-accurate reading of the child loop of from_file: which constructor is reached under which saved type / keys,
    and where each keyword value comes from on that path"""
    from ..summ import Summarizer, State, Sym, vkey, show_value
    from ..guards import Ctx, literals
    from ..terms import Unsupported
    rel = model.rel("system")
    fn = model.norm_method("System", "from_file")
    # the innermost loop that builds child components
    inner = None
    for lp in ast.walk(fn):
        if isinstance(lp, ast.For) and any(isinstance(c, ast.Call) and isinstance(c.func, ast.Name) and c.func.id == "Converter" for c in ast.walk(lp)):
            if inner is None or any(x is lp for x in ast.walk(inner)):
                inner = lp
    if inner is None or not isinstance(inner.target, ast.Name):
        raise AnalysisError("from_file: child loop not found")
    C = inner.target.id
    sm = Summarizer(_RdHooks(), Ctx())
    env = {C: Sym(("name", "REC")), "self": Sym(("name", "self"))}
    outer = getattr(inner, "_parent", None)
    while outer is not None and not isinstance(outer, ast.For):
        outer = getattr(outer, "_parent", None)
    if outer is not None and isinstance(outer.target, ast.Name):
        env[outer.target.id] = Sym(("name", "PARENTKEY"))
    try:
        leaves = sm.summarize_block(inner.body, env)
    except Unsupported as e:
        raise AnalysisError("from_file child loop: %s" % e)
    REC = Sym(("name", "REC"))
    PARAMS = Sym(("sub", REC, "params"))
    seen = set()
    ok_all = True
    for lf in leaves:
        ctors = [e for e in lf.events if e[0] == "ctor"]
        lits = {}
        for g in lf.guards:
            literals(g, True, lits)
        types_true = [k for k, v in lits.items() if v and k[0] == "EQ" and Sym(("sub", REC, "type")) in k[1:]]
        tname = None
        for k in types_true:
            tname = [x for x in k[1:] if isinstance(x, str)][0]
        keys = {}
        for k, v in lits.items():
            if k[0] == "IN" and k[2] == PARAMS and isinstance(k[1], str):
                keys[k[1]] = v
        if not ctors:
            continue
        if len(ctors) != 1:
            raise AnalysisError("from_file: a path builds %d components" % len(ctors))
        _, kind, args, kwargs, line = ctors[0]
        seen.add(kind)
        where = "%s:%d" % (rel, line)
        construct = "system.System.from_file -> %s(...)" % kind
        ok = True
        if tname != KIND_TYPE.get(kind):
            ok = False
            rep.violation("R1", construct, where, "%s is built for a record saved with type %s, expected %s" % (kind, tname, KIND_TYPE.get(kind)), "type branch %s<-%s" % (kind, tname))
        for key, want in KEY_DISCR.get(kind, {}).items():
            if keys.get(key) is not want:
                ok = False
                rep.violation("R1", construct, where, "%s is chosen %s the saved key '%s' (%s), expected: key %s" % (kind, "although" if keys.get(key) is not None else "without testing", key, keys.get(key), "present" if want else "absent"), "key branch %s %s" % (kind, key))
        # keyword provenance on this path
        owner, init, kws = ctor_sig(model, kind)
        for kw, val in kwargs.items():
            want_key = kw
            sect = Sym(("sub", REC, "limits")) if False else None
            good = isinstance(val, Sym) and val.key[0] == "call" and val.key[1] in ("_get_opt", "_get_mand") and len(val.key[2]) >= 2 and val.key[2][1] == want_key \
                and val.key[2][0] == (REC if kw == "limits" else PARAMS)
            if not good:
                ok = False
                rep.violation("R1", construct, where, "on this path keyword '%s' is fed by %s, expected the saved %s '%s'" % (kw, show_value(val)[:90], "record field" if kw == "limits" else "parameter", want_key), "path kw %s <- %s" % (kw, show_value(val)[:60]))
        if not args or not (isinstance(args[0], Sym) and args[0].key[0] == "call" and args[0].key[1] == "_get_mand" and args[0].key[2][:2] == (PARAMS, "name")):
            ok = False
            rep.violation("R1", construct, where, "the component is not named after its saved name", "path name")
        # the component is added under the key it was written under
        adds = [e for e in lf.events if e[0] == "call" and e[1].endswith(".add_comp")]
        if len(adds) != 1 or not adds[0][2] or adds[0][2][0] != Sym(("name", "PARENTKEY")):
            ok = False
            rep.violation("R1", construct, where, "the component is not added under the parent key it was saved under", "path parent")
        ok_all = ok_all and ok
        rep.instance("R1", construct + " reached under the right saved type / keys", where, ok)
    missing = set(KIND_TYPE) - seen
    if missing:
        rep.violation("R1", "system.System.from_file", "%s:%d" % (rel, inner.lineno), "no path of the child loop builds %s" % sorted(missing), "kinds unreachable %s" % sorted(missing))
    rep.floor("R1-paths", len(seen), 9)


def writer_partition(model, rep):
    """save(): every component is written under exactly one key - below its source unless it is the mux or below the mux,
    and the mux with everything below it in the mux's own block"""
    rel = model.rel("system")
    save = model.norm_method("System", "save")
    where = "%s:%d" % (rel, save.lineno)
    ok = True
    pm = [x for x in ast.walk(save) if isinstance(x, ast.Assign) and isinstance(x.targets[0], ast.Name) and ast.unparse(x.value) == "self._get_pmux()"]
    if len(pm) != 1:
        raise AnalysisError("save(): mux index not found")
    PX = pm[0].targets[0].id
    D_ = "rx.descendants(self._g,%s)" % PX
    with_self = {t % {"D": D_, "P": PX} for t in (
        "[%(P)s]+list(%(D)s)", "list(%(D)s)+[%(P)s]", "{%(P)s}|set(%(D)s)", "set(%(D)s)|{%(P)s}", "%(D)s|{%(P)s}", "{%(P)s}|%(D)s",
        "set(%(D)s).union({%(P)s})", "{%(P)s}.union(%(D)s)", "[%(P)s,*%(D)s]", "{%(P)s,*%(D)s}", "[*%(D)s,%(P)s]", "{*%(D)s,%(P)s}")}
    desc = [x for x in ast.walk(save) if isinstance(x, ast.Assign) and isinstance(x.targets[0], ast.Name) and D_ in ast.unparse(x.value).replace(" ", "")]
    if len(desc) != 1:
        raise AnalysisError("save(): descendants of the mux not computed")
    dtext = ast.unparse(desc[0].value).replace(" ", "")
    # the collection may hold the mux itself as well (one skip set): then membership alone is the test
    incl_self = dtext in with_self
    if dtext != D_ and not incl_self:
        raise AnalysisError("save(): the components below the mux are collected as %s: not readable" % dtext[:70])
    DX = desc[0].targets[0].id
    par = getattr(desc[0], "_parent", None)
    if not (isinstance(par, ast.If) and ast.unparse(par.test).replace(" ", "") in ("%s!=-1" % PX, "-1!=%s" % PX)):
        ok = False
        rep.violation("R3", "system.System.save", "%s:%d" % (rel, desc[0].lineno), "the components below the mux are not collected exactly when a mux exists", "mux descendants guard")
    filt = [x for x in ast.walk(save) if isinstance(x, ast.If) and DX in {n.id for n in ast.walk(x.test) if isinstance(n, ast.Name)} and x is not par]
    cfilt = [g for x in ast.walk(save) if isinstance(x, (ast.ListComp, ast.DictComp, ast.SetComp, ast.GeneratorExp)) for g in x.generators
             if any(DX in {n.id for n in ast.walk(c) if isinstance(n, ast.Name)} for c in g.ifs)]
    if len(filt) + len(cfilt) != 1:
        raise AnalysisError("save(): the source-tree filter is not found once")
    if cfilt:
        # the filter of a comprehension: `[record(c) for c in tree[e] if c not in DX]`
        g = cfilt[0]
        test = g.ifs[0] if len(g.ifs) == 1 else ast.BoolOp(op=ast.And(), values=list(g.ifs))
        filt = [ast.copy_location(ast.If(test=test, body=[ast.Pass()], orelse=[]), g.ifs[0])]
        cv = g.target.id if isinstance(g.target, ast.Name) else None
    else:
        lp = getattr(filt[0], "_parent", None)
        cv = lp.target.id if isinstance(lp, ast.For) and isinstance(lp.target, ast.Name) else None
    from ..rules.c19 import cond_formula, equiv
    from ..summ import Sym
    env = {cv: Sym(("name", "C")), PX: Sym(("name", "PX")), DX: Sym(("name", "DX"))}
    got = cond_formula(filt[0].test, env)
    want = cond_formula(ast.parse("C not in DX" if incl_self else "C != PX and C not in DX", mode="eval").body, {"C": Sym(("name", "C")), "PX": Sym(("name", "PX")), "DX": Sym(("name", "DX"))})
    if cv is None or not equiv(got, want):
        ok = False
        from ..guards import show_f
        rep.violation("R3", "system.System.save", "%s:%d" % (rel, filt[0].lineno), "below a source a component is written when %s, expected: it is neither the mux nor below the mux (else it is written twice or not at all)" % show_f(got), "source tree filter")
    blocks = [x for x in ast.walk(save) if isinstance(x, ast.If) and x is not par and ast.unparse(x.test).replace(" ", "") in ("%s!=-1" % PX, "-1!=%s" % PX)
              and any(isinstance(c, ast.Call) and ast.unparse(c).replace(" ", "") == "self._get_childs_tree(%s)" % PX for c in ast.walk(x))]
    if len(blocks) != 1:
        ok = False
        rep.violation("R3", "system.System.save", where, "the mux and its subtree are not written in a block of their own exactly when a mux exists", "mux block")
    dump = [c for c in ast.walk(save) if isinstance(c, ast.Call) and ast.unparse(c.func) == "json.dump"]
    if len(dump) != 1:
        ok = False
        rep.violation("R3", "system.System.save", where, "the document is not written with json.dump exactly once", "dump")
    rep.instance("R3", "system.System.save writes every component under exactly one key", where, ok)


class _RootHooks(_RdHooks):
    def loop(self, sm, node, st):
        return [(st, None)]      # the child loop is read by reader_paths


def root_paths(model, rep):
    """from_file, top level: a SOURCE record builds a Source (the first one creates the system), any other top-level record the mux"""
    from ..summ import Summarizer, Sym
    from ..guards import Ctx, literals
    from ..terms import Unsupported
    rel = model.rel("system")
    fn = model.norm_method("System", "from_file")
    outer = None
    for lp in fn.body:
        if isinstance(lp, ast.For) and any(isinstance(c, ast.Call) and isinstance(c.func, ast.Name) and c.func.id == "PMux" for c in ast.walk(lp)):
            outer = lp
    if outer is None or not isinstance(outer.target, ast.Name):
        raise AnalysisError("from_file: top-level record loop not found")
    it = ast.unparse(outer.iter).replace(" ", "")
    ent = [x.targets[0].id for x in ast.walk(fn) if isinstance(x, ast.Assign) and isinstance(x.targets[0], ast.Name) and ast.unparse(x.value).replace(" ", "").startswith("list(") and ".keys())" in ast.unparse(x.value).replace(" ", "")]
    ok = True
    if not ent or it != "range(1,len(%s))" % ent[0]:
        ok = False
        rep.violation("R1", "system.System.from_file", "%s:%d" % (rel, outer.lineno), "the top-level records are walked by %s, expected every key after 'system'" % ast.unparse(outer.iter), "record loop domain")
    sm = Summarizer(_RootHooks(), Ctx())
    E = outer.target.id
    try:
        leaves = sm.summarize_block(outer.body, {E: Sym(("name", "E")), "self": Sym(("name", "self")), "cls": Sym(("name", "cls"))})
    except Unsupported as e:
        raise AnalysisError("from_file record loop: %s" % e)
    kinds = set()
    for lf in leaves:
        ctors = [e for e in lf.events if e[0] == "ctor"]
        lits = {}
        for g in lf.guards:
            literals(g, True, lits)
        is_src = None
        first = None
        for k, v in lits.items():
            if k[0] == "EQ" and "SOURCE" in k[1:]:
                is_src = v
            if k[0] in ("ZP", "Z", "EQ") and "Sym('name', 'E')" in repr(k) and "SOURCE" not in repr(k) and "childs" not in repr(k):
                first = v
        for _, kind, args, kwargs, line in ctors:
            kinds.add(kind)
            if kind == "Source" and first is False and is_src is not True:
                ok = False
                rep.violation("R1", "system.System.from_file", "%s:%d" % (rel, line), "a further Source is built for a top-level record that is not saved as SOURCE", "root branch Source")
            if kind == "PMux" and is_src is not False:
                ok = False
                rep.violation("R1", "system.System.from_file", "%s:%d" % (rel, line), "the mux is built for a top-level record saved as SOURCE", "root branch PMux")
            if kind == "Source":
                vo = kwargs.get("vo")
                if is_src is True and not (isinstance(vo, Sym) and vo.key[0] == "call" and vo.key[1] == "_get_mand"):
                    ok = False
                    rep.violation("R1", "system.System.from_file", "%s:%d" % (rel, line), "a source's voltage is not read from its saved 'vo'", "root vo")
    if kinds != {"Source", "PMux"}:
        raise AnalysisError("from_file: top-level paths build %s" % sorted(kinds))
    rep.instance("R1", "system.System.from_file top-level records: sources and mux", "%s:%d" % (rel, outer.lineno), ok, "%d paths" % len(leaves))


# ------------------------------------------------------------------------------------------------ R6
def document_namespace(model, rep):
    """The saved document is one mapping.  Keys the writer fixes (the 'system' header) and keys it takes from component names share that
    mapping, so a component carrying a fixed key's name overwrites the header (or is overwritten by it) and the file cannot be read back.
    The two key sets are disjoint only if every path that admits a name (`_chk_name`, the constructor) rejects the fixed keys."""
    rel = model.rel("system")
    save = model.norm_method("System", "save")
    doc, fixed = None, set()
    for x in ast.walk(save):
        if isinstance(x, ast.Assign) and len(x.targets) == 1 and isinstance(x.targets[0], ast.Name) and isinstance(x.value, ast.Dict) \
                and x.value.keys and all(isinstance(k, ast.Constant) and isinstance(k.value, str) for k in x.value.keys) \
                and any(k.value == "system" for k in x.value.keys):
            doc, fixed = x.targets[0].id, {k.value for k in x.value.keys}
    if doc is None:
        raise AnalysisError("save(): the document mapping with its fixed header key is not found")
    dyn = []
    for x in ast.walk(save):
        if isinstance(x, ast.Assign):
            for t in x.targets:
                if isinstance(t, ast.Subscript) and is_name(t.value, doc):
                    if isinstance(t.slice, ast.Constant):
                        fixed.add(t.slice.value)
                    else:
                        dyn.append(t)
    if not dyn:
        raise AnalysisError("save(): no component record is stored in the document mapping")
    guarded = set()
    for owner in ("_chk_name", "__init__"):
        fn = model.own_method("System", owner)
        if fn is None:
            continue
        for c in ast.walk(fn):
            if isinstance(c, ast.Compare) and len(c.ops) == 1:
                consts = [y.value for y in ast.walk(c) if isinstance(y, ast.Constant) and isinstance(y.value, str)]
                for k in fixed:
                    if k in consts and isinstance(c.ops[0], (ast.Eq, ast.NotEq, ast.In, ast.NotIn)):
                        guarded.add((owner, k))
    ok = True
    for k in sorted(fixed):
        if not all((o, k) in guarded for o in ("_chk_name", "__init__")):
            ok = False
            rep.violation("R6", "system.System.save", "%s:%d" % (rel, dyn[0].lineno),
                          "the document mapping holds the fixed key '%s' and one key per source / mux name (%s), and no name check keeps a component from being "
                          "called '%s': such a component replaces the header block and from_file() cannot read the file back" % (k, ast.unparse(dyn[0]), k),
                          "document key '%s' shared with component names" % k)
    rep.instance("R6", "system.System.save fixed document keys are not component names", "%s:%d" % (rel, save.lineno), ok, "%d fixed, %d name-keyed stores" % (len(fixed), len(dyn)))


# ------------------------------------------------------------------------------------------------ R3 (order of the blocks)
def writer_order(model, rep):
    """from_file() adds the components in the order of the file and add_comp() needs the parent to exist: the writer must list every parent's
    block before the blocks of its children.  It does so by walking the library's breadth-first successor list in the order the library
    returns it and relying on insertion order of the dicts it fills.  Anything that re-orders on the way (sorted, reversed, set, .sort,
    .reverse) breaks that: after a deletion the node indices are re-used, so index order is not parent-before-child order."""
    rel = model.rel("system")
    ok = True
    n = 0
    for mname in ("_get_childs_tree", "save"):
        fn = model.own_method("System", mname)
        if fn is None:
            raise AnalysisError("System.%s not found" % mname)
        if mname == "_get_childs_tree" and not any(isinstance(c, ast.Call) and isinstance(c.func, ast.Attribute) and c.func.attr == "bfs_successors" for c in ast.walk(fn)):
            raise AnalysisError("_get_childs_tree: the breadth-first successor walk is not found")
        # where an order matters: what a loop / comprehension iterates over, what is returned, and what a dict / list is rebuilt from
        ordered = []
        for x in ast.walk(fn):
            if isinstance(x, (ast.For, ast.comprehension)):
                ordered.append(x.iter)
            elif isinstance(x, ast.Return) and x.value is not None:
                ordered.append(x.value)
            elif isinstance(x, ast.Call) and isinstance(x.func, ast.Name) and x.func.id in ("dict", "list", "tuple") and x.args:
                ordered.append(x.args[0])
        inside = {id(y) for o in ordered for y in ast.walk(o)}
        for c in ast.walk(fn):
            if not isinstance(c, ast.Call):
                continue
            nm = c.func.id if isinstance(c.func, ast.Name) else (c.func.attr if isinstance(c.func, ast.Attribute) else None)
            if nm in ("sort", "reverse", "shuffle") or (nm in ("sorted", "reversed", "set", "frozenset") and id(c) in inside):
                ok = False
                rep.violation("R3", "system.System.%s" % mname, "%s:%d" % (rel, c.lineno),
                              "the writer re-orders with %s(): the blocks of the saved document no longer follow the breadth-first walk (parent before child) that "
                              "from_file() needs; node indices are re-used after deletions, so any other order can list a child first" % nm, "writer order " + nm)
        n += 1
    rep.instance("R3", "system.System.save lists parents before children (traversal order kept)", "%s:%d" % (rel, model.own_method("System", "save").lineno), ok, "%d functions" % n)
