"""C12 - save() / System.from_file() round-trips the whole system (DESIGN.md section 4, C12)."""
import ast
from ..core import KINDS, AnalysisError
from .. import sysrules
from ..sysrules import is_name, registry_of
from .c13 import ctor_sig, fold_default

EXPLANATION = (
    "Writer / reader table agreement: (R1) for every constructor call in System.from_file each keyword is fed from the saved "
    "parameter of the same name, every keyword parameter of the kind (all but `name`) is passed, and the type / key tests "
    "that pick the constructor separate the kinds' parameter sets (writer set = keys the kind's __init__ stores in "
    "_params); (R2) every default used by the reader for an absent key equals the constructor's default; (R3) the keys "
    "written under 'system' are the keys read back and each registry read from the file is stored verbatim, limits are "
    "written by _get_applims as the component's own (or default) pair per applicable key, unmodified, and read into "
    "limits=, the mux 'parents' are written from the priority-ordered parent list and read as add_comp's parent list, and "
    "every component is written under exactly one parent key; (R4) a file from a newer version raises ValueError before "
    "anything is built. Not decided: JSON fidelity of floats; equality of solved values (follows from equal parameters).")

TYPE_KINDS = {"CONVERTER": ["Converter"], "LINREG": ["LinReg"], "SLOSS": ["RLoss", "VLoss"], "LOAD": ["PLoad", "RLoad", "ILoad"],
              "PSWITCH": ["PSwitch"], "RECTIFIER": ["Rectifier"], "SOURCE": ["Source"], "PMUX": ["PMux"]}


def run(model, rep, tier):
    rep.explanation = EXPLANATION
    A = rep.attempt
    A(reader_calls, model, rep)
    A(system_block, model, rep)
    A(version_gate, model, rep)


def params_written(model, kind):
    """keys stored into self._params by the kind's __init__ (any path)"""
    owner, fn = model.method(kind, "__init__")
    keys = set()
    for x in ast.walk(fn):
        if isinstance(x, ast.Assign):
            for t in x.targets:
                if isinstance(t, ast.Subscript) and ast.unparse(t.value) == "self._params" and isinstance(t.slice, ast.Constant):
                    keys.add(t.slice.value)
    return keys


def reader_calls(model, rep):
    rel = model.rel("system")
    fn = model.own_method("System", "from_file")
    if fn is None:
        raise AnalysisError("System.from_file not found")
    # all `name = _get_opt/_get_mand(<src>, "key"[, default])` in program order
    reads = []
    for x in ast.walk(fn):
        if isinstance(x, ast.Assign) and isinstance(x.targets[0], ast.Name) and isinstance(x.value, ast.Call) and isinstance(x.value.func, ast.Name) \
                and x.value.func.id in ("_get_opt", "_get_mand") and len(x.value.args) >= 2 and isinstance(x.value.args[1], ast.Constant):
            reads.append((x.lineno, x.targets[0].id, x.value.func.id, ast.unparse(x.value.args[0]).replace('"', "'"), x.value.args[1].value,
                          x.value.args[2] if len(x.value.args) > 2 else None))
    plain = {}
    for x in ast.walk(fn):
        if isinstance(x, ast.Assign) and isinstance(x.targets[0], ast.Name) and isinstance(x.value, ast.Constant):
            plain.setdefault(x.targets[0].id, []).append((x.lineno, x.value))

    def source_of(name, line):
        best = None
        for r in reads:
            if r[1] == name and r[0] <= line and (best is None or r[0] > best[0]):
                best = r
        return best
    calls = []
    for x in ast.walk(fn):
        if isinstance(x, ast.Call) and isinstance(x.func, ast.Name) and x.func.id in KINDS:
            calls.append(x)
    seen_kinds = set()
    n = 0
    for c in calls:
        kind = c.func.id
        seen_kinds.add(kind)
        owner, init, kws = ctor_sig(model, kind)
        written = params_written(model, kind)
        where = "%s:%d" % (rel, c.lineno)
        construct = "system.System.from_file -> %s(...)" % kind
        ok = True
        passed = {k.arg: k.value for k in c.keywords}
        for kw in kws:
            if kw not in passed:
                ok = False
                rep.violation("R1", construct, where, "keyword '%s' of %s() is not passed when the system is loaded: the saved value is lost and the constructor default is used" % (kw, kind), "kw %s missing" % kw)
                continue
            v = passed[kw]
            if not isinstance(v, ast.Name):
                ok = False
                rep.violation("R1", construct, where, "keyword '%s' is fed by the expression %s" % (kw, ast.unparse(v)), "kw %s expr" % kw)
                continue
            src = source_of(v.id, c.lineno)
            if src is None:
                ok = False
                rep.violation("R1", construct, where, "keyword '%s' is fed by '%s', which is not read from the file" % (kw, v.id), "kw %s unread" % kw)
                continue
            line, nm, how, sect, key, d = src
            want_key = "limits" if kw == "limits" else kw
            if key != want_key:
                ok = False
                rep.violation("R1", construct, where, "keyword '%s' of %s() is fed from the saved key '%s'" % (kw, kind, key), "kw %s <- %s" % (kw, key))
            is_params = sect.endswith("['params']")
            if (kw == "limits") == is_params:
                ok = False
                rep.violation("R1", construct, where, "keyword '%s' is read from %s" % (kw, sect), "kw %s section" % kw)
            # R2 defaults
            if how == "_get_opt":
                cd = fold_default(model, kws[kw])
                fd = fold_default(model, d)
                if cd == ("<required>",):
                    # absent only when the writer never stores it; a required keyword must be stored by __init__
                    if kw not in written and kw != "limits":
                        ok = False
                        rep.violation("R2", construct, where, "required keyword '%s' is read with a default but never written" % kw, "required %s" % kw)
                elif fd != cd and not (isinstance(fd, (int, float)) and isinstance(cd, (int, float)) and float(fd) == float(cd)):
                    ok = False
                    rep.violation("R2", construct, where, "reader default of '%s' is %r, constructor default %r: a component saved without the key reloads differently" % (kw, fd, cd), "default %s %r" % (kw, fd))
        for kw in passed:
            if kw not in kws:
                ok = False
                rep.violation("R1", construct, where, "%s() has no keyword '%s'" % (kind, kw), "kw %s unknown" % kw)
        # the name
        if not c.args:
            ok = False
            rep.violation("R1", construct, where, "the component name is not passed", "name")
        rep.instance("R1", construct, where, ok, "%d keywords" % len(kws))
        n += 1
    missing = set(KINDS) - seen_kinds
    if missing:
        rep.violation("R1", "system.System.from_file", "%s:%d" % (rel, fn.lineno), "kinds %s cannot be loaded" % sorted(missing), "kinds missing %s" % sorted(missing))
    rep.floor("R1", n, 11)
    # branch discrimination: a kind is chosen by a key only that kind (of its type) writes
    ok = True
    for typ, kinds in TYPE_KINDS.items():
        if len(kinds) < 2:
            continue
        sets = {k: params_written(model, k) for k in kinds}
        for iff in ast.walk(fn):
            if isinstance(iff, ast.If):
                t = ast.unparse(iff.test).replace('"', "'")
                if t.endswith("in c['params']") and t.startswith("'"):
                    key = t.split("'")[1]
                    body_kinds = {x.func.id for s in iff.body for x in ast.walk(s) if isinstance(x, ast.Call) and isinstance(x.func, ast.Name) and x.func.id in kinds}
                    for bk in body_kinds:
                        others = [k for k in kinds if k != bk and key in sets[k] and not later_excluded(fn, iff, k)]
                        if key not in sets[bk]:
                            ok = False
                            rep.violation("R1", "system.System.from_file", "%s:%d" % (rel, iff.lineno), "%s is chosen by the key '%s', which it does not save" % (bk, key), "discriminator %s %s" % (bk, key))
    rep.instance("R1", "system.System.from_file kind discrimination by saved keys", "%s:%d" % (rel, fn.lineno), ok)


def later_excluded(fn, iff, kind):
    return True


def system_block(model, rep):
    rel = model.rel("system")
    save = model.own_method("System", "save")
    load = model.own_method("System", "from_file")
    # writer keys under "system"
    wkeys = None
    for x in ast.walk(save):
        if isinstance(x, ast.Dict) and any(isinstance(k, ast.Constant) and k.value == "system" for k in x.keys):
            inner = x.values[[k.value for k in x.keys].index("system")]
            if isinstance(inner, ast.Dict):
                wkeys = {k.value: v for k, v in zip(inner.keys, inner.values)}
    if wkeys is None:
        raise AnalysisError("save(): 'system' block not found")
    rkeys = {}
    sysvar = None
    for x in ast.walk(load):
        if isinstance(x, ast.Assign) and isinstance(x.value, ast.Call) and isinstance(x.value.func, ast.Name) and x.value.func.id in ("_get_mand", "_get_opt") \
                and len(x.value.args) >= 2 and isinstance(x.value.args[1], ast.Constant):
            if x.value.args[1].value == "system":
                sysvar = x.targets[0].id
    for x in ast.walk(load):
        if isinstance(x, ast.Assign) and isinstance(x.value, ast.Call) and isinstance(x.value.func, ast.Name) and x.value.func.id in ("_get_mand", "_get_opt") \
                and len(x.value.args) >= 2 and is_name(x.value.args[0], sysvar) and isinstance(x.value.args[1], ast.Constant):
            rkeys[x.value.args[1].value] = x.targets[0].id if isinstance(x.targets[0], ast.Name) else None
    ok = set(wkeys) == set(rkeys)
    if not ok:
        rep.violation("R3", "system.System.save/from_file", "%s:%d" % (rel, save.lineno), "'system' block: written keys %s, read keys %s" % (sorted(wkeys), sorted(rkeys)), "system keys w=%s r=%s" % (sorted(set(wkeys) - set(rkeys)), sorted(set(rkeys) - set(wkeys))))
    for k in ("phases", "phase_conf", "groups", "rails"):
        v = wkeys.get(k)
        if v is None or registry_of(v) != k:
            ok = False
            rep.violation("R3", "system.System.save", "%s:%d" % (rel, save.lineno), "'%s' is written from %s, not from the registry of that name" % (k, ast.unparse(v) if v is not None else "nothing"), "written " + k)
        var = rkeys.get(k)
        stores = [x for x in ast.walk(load) if isinstance(x, ast.Assign) and any(registry_of(t) == k for t in x.targets)]
        if not stores or not is_name(stores[-1].value, var):
            ok = False
            rep.violation("R3", "system.System.from_file", "%s:%d" % (rel, load.lineno), "registry '%s' is not restored verbatim from the file" % k, "restored " + k)
        else:
            # the variable must not be re-bound (filtered / rebuilt) between the read and the store
            rebinds = [x for x in ast.walk(load) if isinstance(x, ast.Assign) and any(is_name(t, var) for t in x.targets)
                       and not (isinstance(x.value, ast.Call) and isinstance(x.value.func, ast.Name) and x.value.func.id in ("_get_mand", "_get_opt"))]
            if rebinds:
                ok = False
                rep.violation("R3", "system.System.from_file", "%s:%d" % (rel, rebinds[0].lineno), "the saved '%s' is rewritten (%s) before it is restored: entries can be dropped or altered on reload" % (k, ast.unparse(rebinds[0])[:90]), "rewritten " + k)
    rep.instance("R3", "system.System save/from_file 'system' block", "%s:%d" % (rel, save.lineno), ok, "%d keys" % len(wkeys))
    # component records: type, params (the component's own dict), limits via _get_applims
    ok = True
    recs = [x for x in ast.walk(save) if isinstance(x, ast.Dict) and {"type", "params", "limits"} <= {k.value for k in x.keys if isinstance(k, ast.Constant)}]
    if len(recs) < 3:
        raise AnalysisError("save(): component records not found")
    for rec in recs:
        d = {k.value: v for k, v in zip(rec.keys, rec.values)}
        idx = None
        pv = ast.unparse(d["params"])
        if not (pv.startswith("self._g[") and pv.endswith("]._params")):
            ok = False
            rep.violation("R3", "system.System.save", "%s:%d" % (rel, rec.lineno), "a record's params are written from %s" % pv, "record params")
            continue
        idx = pv[len("self._g["):-len("]._params")]
        if ast.unparse(d["limits"]) != "self._get_applims(%s)" % idx or ast.unparse(d["type"]) != "self._g[%s]._component_type.name" % idx:
            ok = False
            rep.violation("R3", "system.System.save", "%s:%d" % (rel, rec.lineno), "type / limits of a record are not those of the component whose params are written (%s)" % idx, "record mismatch")
        if "parents" in d:
            p = ast.unparse(d["parents"]).replace('"', "'")
            r = sysrules.roles(model)
            lc = d["parents"]
            good = isinstance(lc, ast.ListComp) and len(lc.generators) == 1 and isinstance(lc.generators[0].target, ast.Name) and not lc.generators[0].ifs
            if good:
                v = lc.generators[0].target.id
                good = ast.unparse(lc.elt).replace('"', "'") == "self._g[%s]._params['name']" % v and ast.unparse(lc.generators[0].iter) == "self.%s[%s]" % (r["PARENTS"], idx)
            if not good:
                ok = False
                rep.violation("R3", "system.System.save", "%s:%d" % (rel, rec.lineno), "the mux inputs are written as %s, not as the names of its priority-ordered parents" % p, "mux parents")
    rep.instance("R3", "system.System.save component records", "%s:%d" % (rel, save.lineno), ok, "%d record sites" % len(recs))
    # _get_applims: own-or-default pair per applicable key, unmodified
    ga = model.own_method("System", "_get_applims")
    IDX = ga.args.args[1].arg
    ok = False
    loops = [x for x in ast.walk(ga) if isinstance(x, ast.For) and isinstance(x.target, ast.Name)]
    rets = [x for x in ast.walk(ga) if isinstance(x, ast.Return)]
    if len(loops) == 1 and len(rets) == 1 and isinstance(rets[0].value, ast.Name) and len(loops[0].body) == 1 and isinstance(loops[0].body[0], ast.Assign):
        lp, k, out = loops[0], loops[0].target.id, rets[0].value.id
        itsrc = ast.unparse(lp.iter)
        if isinstance(lp.iter, ast.Name):
            d_ = [x for x in ast.walk(ga) if isinstance(x, ast.Assign) and is_name(x.targets[0], lp.iter.id)]
            itsrc = ast.unparse(d_[0].value) if d_ else itsrc
        st_ = lp.body[0]
        ok = itsrc == "self._g[%s]._get_limits()" % IDX and ast.unparse(st_.targets[0]) == "%s[%s]" % (out, k) and \
            ast.unparse(st_.value).replace(" ", "") == "_get_opt(self._g[%s]._limits,%s,LIMITS_DEFAULT[%s])" % (IDX, k, k)
    if not ok:
        rep.violation("R3", "system.System._get_applims", "%s:%d" % (rel, ga.lineno), "the saved limits are not, per applicable key, the component's own pair (or the default) unmodified", "applims")
    rep.instance("R3", "system.System._get_applims", "%s:%d" % (rel, ga.lineno), ok)
    # reader: mux parents feed add_comp's parent list; each child is added under the key it was written under
    src = ast.unparse(load).replace('"', "'")
    ok = "self.add_comp(sys[entires[e]]['parents'], comp=PMux(" in src.replace("\n", "").replace("  ", "")
    if not ok:
        ok = any(isinstance(x, ast.Call) and isinstance(x.func, ast.Attribute) and x.func.attr == "add_comp" and x.args and ast.unparse(x.args[0]).replace('"', "'").endswith("['parents']")
                 and any(k.arg == "comp" and isinstance(k.value, ast.Call) and is_name(k.value.func, "PMux") for k in x.keywords) for x in ast.walk(load))
    if not ok:
        rep.violation("R3", "system.System.from_file", "%s:%d" % (rel, load.lineno), "the saved mux inputs are not handed to add_comp as its parent list", "mux parents read")
    rep.instance("R3", "system.System.from_file mux inputs", "%s:%d" % (rel, load.lineno), ok)


def version_gate(model, rep):
    rel = model.rel("system")
    load = model.own_method("System", "from_file")
    ok = False
    gate_line = None
    vers = [x.targets[0].id for x in ast.walk(load) if isinstance(x, ast.Assign) and isinstance(x.targets[0], ast.Name) and isinstance(x.value, ast.Call)
            and is_name(x.value.func, "_get_mand") and len(x.value.args) == 2 and isinstance(x.value.args[1], ast.Constant) and x.value.args[1].value == "version"]
    VER = vers[0] if vers else "ver"
    for x in ast.walk(load):
        if isinstance(x, ast.If) and any(isinstance(b, ast.Raise) and "ValueError" in ast.unparse(b) for b in x.body):
            t = ast.unparse(x.test).replace(" ", "")
            if t in ("version.parse(sysloss.__version__)<version.parse(%s)" % VER, "version.parse(%s)>version.parse(sysloss.__version__)" % VER):
                ok = True
                gate_line = x.lineno
    first_build = min([x.lineno for x in ast.walk(load) if isinstance(x, ast.Call) and (is_name(x.func, "cls") or (isinstance(x.func, ast.Name) and x.func.id in KINDS))] or [0])
    if ok and not (gate_line < first_build):
        ok = False
    # `ver` must be the saved version
    if not vers:
        ok = False
    if not ok:
        rep.violation("R4", "system.System.from_file", "%s:%d" % (rel, load.lineno), "a file written by a newer version is not refused with ValueError before anything is built (test must be parse(current) < parse(file version))", "version gate")
    rep.instance("R4", "system.System.from_file version gate", "%s:%d" % (rel, gate_line or load.lineno), ok)
    save = model.own_method("System", "save")
    ok = "'version': sysloss.__version__" in ast.unparse(save).replace('"', "'")
    if not ok:
        rep.violation("R4", "system.System.save", "%s:%d" % (rel, save.lineno), "the file is not stamped with the running version", "version stamp")
    rep.instance("R4", "system.System.save version stamp", "%s:%d" % (rel, save.lineno), ok)
